use serde::{Deserialize, Serialize};
use zvariant::{serialized::Context, to_bytes_for_signature, LE};

#[derive(Debug, PartialEq, Serialize, Deserialize)]
enum E {
    A { x: u32, y: String },
    B { x: u32, y: String },
}

#[test]
fn vec_of_struct_variant_enums_roundtrip() {
    let ctxt = Context::new_dbus(LE, 0);
    let v = vec![E::A { x: 1, y: "a".into() }, E::B { x: 2, y: "b".into() }];
    let enc = to_bytes_for_signature(ctxt, "a(u(us))", &v).expect("encode");
    let (dec, _): (Vec<E>, _) = enc.deserialize_for_signature("a(u(us))").expect("decode");
    assert_eq!(dec, v);
}

#[test]
fn single_struct_variant_roundtrip() {
    let ctxt = Context::new_dbus(LE, 0);
    let v = E::A { x: 1, y: "a".into() };
    let enc = to_bytes_for_signature(ctxt, "(u(us))", &v).expect("encode");
    let (dec, _): (E, _) = enc.deserialize_for_signature("(u(us))").expect("decode");
    assert_eq!(dec, v);
}
