#![cfg(feature = "gvariant")]
use std::collections::HashMap;
use zvariant::{serialized::Context, to_bytes, LE};

#[test]
fn gv_bool_is_one_byte() {
    let ctxt = Context::new_gvariant(LE, 0);
    let enc = to_bytes(ctxt, &true).unwrap();
    assert_eq!(enc.len(), 1, "bool encoded as {:?}", enc.bytes());
}

#[test]
fn gv_dict_entry_255_boundary_roundtrip() {
    let ctxt = Context::new_gvariant(LE, 0);
    for n in 240..270usize {
        let mut m: HashMap<String, String> = HashMap::new();
        m.insert("k".into(), "v".repeat(n));
        let enc = to_bytes(ctxt, &m).unwrap();
        let dec: Result<(HashMap<String, String>, usize), _> = enc.deserialize();
        match dec {
            Ok((d, _)) => assert_eq!(d, m, "n={n}"),
            Err(e) => panic!("n={n}: decode failed: {e}"),
        }
    }
}
