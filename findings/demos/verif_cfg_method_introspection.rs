//! Demonstration for the finding "introspection declares cfg'd-out members" (C27, found by
//! rules/C27.py I-METHODS:method-names on the repository's own fixture `MyIface::optional_args`).
//! Place in zbus/tests/ and run: cargo test --offline -p zbus --test verif_cfg_method_introspection
//! Before the fix the XML contains `<method name="Hidden">` although the
//! server answers UnknownMethod for `Hidden`.
use zbus::{interface, object_server::Interface};

struct Obj;

#[interface(name = "org.zverif.CfgDemo")]
impl Obj {
    fn visible(&self) -> u32 {
        1
    }

    #[cfg(feature = "this-feature-does-not-exist")]
    fn hidden(&self, x: u32) -> u32 {
        x
    }
}

#[test]
fn cfgd_out_members_are_not_introspected() {
    let mut xml = String::new();
    Obj.introspect_to_writer(&mut xml, 0);
    assert!(xml.contains("<method name=\"Visible\">"), "{xml}");
    assert!(!xml.contains("Hidden"), "cfg'd-out method is declared in the introspection data:\n{xml}");
}
