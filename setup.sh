#!/bin/bash
# Build the fact extractor (offline) and warm the fact cache for the quick-tier configurations.
set -e
cd "$(dirname "$0")"
export CARGO_NET_OFFLINE=true
( cd engine/zmir && cargo build --release --offline 2>&1 | tail -3 )
test -x engine/zmir/target/release/zmir
# warm caches (parallel); failures here are reported by the checks themselves
python3 - <<'PY' || true
import sys, threading
sys.path.insert(0, ".")
from zcheck import facts
def go(c):
    try:
        f = facts.load(c)
        print("facts", c, f.info.get("extract_s"), "s", {k: v["bodies"] for k, v in f.info["crates"].items()})
    except Exception as e:
        print("facts", c, "FAILED:", str(e)[-500:])
ts = [threading.Thread(target=go, args=(c,)) for c in ("K1", "K2", "K6")]
[t.start() for t in ts]; [t.join() for t in ts]
PY
echo setup done
