//! Static-analysis fixture (configuration K6). Only the MIR of the macro expansions is inspected;
//! nothing here is ever executed.
#![allow(dead_code, unused_variables, clippy::all)]

use zbus::{
    fdo, interface,
    message::Header,
    object_server::SignalEmitter,
    zvariant::{ObjectPath, OwnedFd, OwnedObjectPath, OwnedValue},
    Connection, ObjectServer,
};
use std::collections::HashMap;

/// An interface whose calls must be handled in arrival order.
pub struct Ordered {
    pub log: Vec<u32>,
    pub set_point: u32,
    pub settings: String,
}

#[interface(name = "org.zverif.Ordered", spawn = false)]
impl Ordered {
    fn plain(&self) {}

    fn echo(&self, v: u32) -> u32 {
        v
    }

    async fn push(&mut self, v: u32) -> fdo::Result<u32> {
        self.log.push(v);
        Ok(self.log.len() as u32)
    }

    fn fallible(&self, s: &str) -> fdo::Result<(u32, String)> {
        Err(fdo::Error::Failed(s.to_string()))
    }

    async fn with_ctx(
        &self,
        #[zbus(header)] hdr: Header<'_>,
        #[zbus(connection)] conn: &Connection,
        #[zbus(object_server)] server: &ObjectServer,
        #[zbus(signal_emitter)] emitter: SignalEmitter<'_>,
        a: u8,
        b: String,
    ) -> fdo::Result<OwnedObjectPath> {
        Self::ticked(&emitter, a).await.map_err(|e| fdo::Error::Failed(e.to_string()))?;
        Err(fdo::Error::NotSupported(b))
    }

    fn take_fd(&self, fd: OwnedFd) -> fdo::Result<()> {
        Ok(())
    }

    #[zbus(signal)]
    async fn ticked(emitter: &SignalEmitter<'_>, n: u8) -> zbus::Result<()>;

    /// a property whose name begins with the setter prefix once it is stripped
    #[zbus(property)]
    fn set_point(&self) -> u32 {
        self.set_point
    }

    #[zbus(property)]
    fn set_set_point(&mut self, v: u32) {
        self.set_point = v;
    }

    #[zbus(property)]
    fn settings(&self) -> fdo::Result<String> {
        Ok(self.settings.clone())
    }

    #[zbus(property)]
    fn set_settings(&mut self, v: String) -> fdo::Result<()> {
        self.settings = v;
        Ok(())
    }

    #[zbus(property(emits_changed_signal = "const"))]
    fn fixed(&self) -> u8 {
        7
    }

    #[zbus(property(emits_changed_signal = "invalidates"))]
    async fn secret(&self) -> String {
        String::new()
    }

    #[zbus(property(emits_changed_signal = "false"))]
    fn quiet(&self) -> u16 {
        1
    }

    #[zbus(property)]
    fn set_quiet(&mut self, v: u16) -> fdo::Result<()> {
        Ok(())
    }
}

/// The default (spawning) flavour, same shape, for sibling comparison.
pub struct Spawning {
    pub n: u64,
}

#[interface(name = "org.zverif.Spawning")]
impl Spawning {
    async fn bump(&mut self, by: u64) -> u64 {
        self.n += by;
        self.n
    }

    fn fail(&self) -> fdo::Result<()> {
        Err(fdo::Error::AccessDenied("no".into()))
    }

    #[zbus(out_args("a", "b"))]
    fn two(&self) -> fdo::Result<(u32, u32)> {
        Ok((1, 2))
    }

    /// digits and acronyms in the member name, container arguments, array-of-struct reply
    fn get_x11_display_2d(&self, names: Vec<String>, opts: HashMap<String, OwnedValue>) -> fdo::Result<Vec<(u32, String)>> {
        Ok(Vec::new())
    }

    #[zbus(name = "Renamed")]
    fn original(&self) -> u8 {
        0
    }

    #[zbus(signal)]
    async fn state_changed2(emitter: &SignalEmitter<'_>, old: u32, new: &str, path: ObjectPath<'_>) -> zbus::Result<()>;

    #[zbus(property, name = "Level")]
    fn level(&self) -> u64 {
        self.n
    }

    #[zbus(property, name = "Level")]
    fn set_level(&mut self, v: u64) {
        self.n = v;
    }
}

/// Client side of `org.zverif.Ordered`, declared separately (as a user crate would): member names,
/// argument packing and reply types are derived by `#[proxy]` on its own, so they can be compared with
/// what `#[interface]` derived for `Ordered` above (C33).
#[zbus::proxy(
    interface = "org.zverif.Ordered",
    default_service = "org.zverif",
    default_path = "/org/zverif/Ordered"
)]
pub trait OrderedClient {
    fn plain(&self) -> zbus::Result<()>;

    fn echo(&self, v: u32) -> zbus::Result<u32>;

    fn push(&self, v: u32) -> zbus::Result<u32>;

    fn fallible(&self, s: &str) -> zbus::Result<(u32, String)>;

    fn with_ctx(&self, a: u8, b: String) -> zbus::Result<OwnedObjectPath>;

    fn take_fd(&self, fd: OwnedFd) -> zbus::Result<()>;

    #[zbus(signal)]
    fn ticked(&self, n: u8) -> zbus::Result<()>;

    #[zbus(property)]
    fn set_point(&self) -> zbus::Result<u32>;

    #[zbus(property)]
    fn set_set_point(&self, v: u32) -> zbus::Result<()>;

    #[zbus(property)]
    fn settings(&self) -> zbus::Result<String>;

    #[zbus(property)]
    fn set_settings(&self, v: String) -> zbus::Result<()>;

    #[zbus(property(emits_changed_signal = "const"))]
    fn fixed(&self) -> zbus::Result<u8>;

    #[zbus(property(emits_changed_signal = "invalidates"))]
    fn secret(&self) -> zbus::Result<String>;

    #[zbus(property(emits_changed_signal = "false"))]
    fn quiet(&self) -> zbus::Result<u16>;

    #[zbus(property)]
    fn set_quiet(&self, v: u16) -> zbus::Result<()>;
}

/// Client side of `org.zverif.Spawning`.
#[zbus::proxy(interface = "org.zverif.Spawning", default_service = "org.zverif", default_path = "/org/zverif/Spawning")]
pub trait SpawningClient {
    fn bump(&self, by: u64) -> zbus::Result<u64>;

    fn fail(&self) -> zbus::Result<()>;

    fn two(&self) -> zbus::Result<(u32, u32)>;

    fn get_x11_display_2d(&self, names: Vec<String>, opts: HashMap<String, OwnedValue>) -> zbus::Result<Vec<(u32, String)>>;

    #[zbus(name = "Renamed")]
    fn original(&self) -> zbus::Result<u8>;

    #[zbus(signal)]
    fn state_changed2(&self, old: u32, new: &str, path: ObjectPath<'_>) -> zbus::Result<()>;

    #[zbus(property, name = "Level")]
    fn level(&self) -> zbus::Result<u64>;

    #[zbus(property, name = "Level")]
    fn set_level(&self, v: u64) -> zbus::Result<()>;
}
