//! Static-analysis fixture (configuration K6). Only the MIR of the macro expansions is inspected;
//! nothing here is ever executed.
#![allow(dead_code, unused_variables, clippy::all)]

use zbus::{
    fdo, interface,
    message::Header,
    object_server::SignalEmitter,
    zvariant::{OwnedFd, OwnedObjectPath},
    Connection, ObjectServer,
};

/// An interface whose calls must be handled in arrival order.
pub struct Ordered {
    pub log: Vec<u32>,
    pub set_point: u32,
    pub settings: String,
}

#[interface(name = "org.zverif.Ordered", spawn = false)]
impl Ordered {
    fn plain(&self) {}

    fn echo(&self, v: u32) -> u32 {
        v
    }

    async fn push(&mut self, v: u32) -> fdo::Result<u32> {
        self.log.push(v);
        Ok(self.log.len() as u32)
    }

    fn fallible(&self, s: &str) -> fdo::Result<(u32, String)> {
        Err(fdo::Error::Failed(s.to_string()))
    }

    async fn with_ctx(
        &self,
        #[zbus(header)] hdr: Header<'_>,
        #[zbus(connection)] conn: &Connection,
        #[zbus(object_server)] server: &ObjectServer,
        #[zbus(signal_emitter)] emitter: SignalEmitter<'_>,
        a: u8,
        b: String,
    ) -> fdo::Result<OwnedObjectPath> {
        Self::ticked(&emitter, a).await.map_err(|e| fdo::Error::Failed(e.to_string()))?;
        Err(fdo::Error::NotSupported(b))
    }

    fn take_fd(&self, fd: OwnedFd) -> fdo::Result<()> {
        Ok(())
    }

    #[zbus(signal)]
    async fn ticked(emitter: &SignalEmitter<'_>, n: u8) -> zbus::Result<()>;

    /// a property whose name begins with the setter prefix once it is stripped
    #[zbus(property)]
    fn set_point(&self) -> u32 {
        self.set_point
    }

    #[zbus(property)]
    fn set_set_point(&mut self, v: u32) {
        self.set_point = v;
    }

    #[zbus(property)]
    fn settings(&self) -> fdo::Result<String> {
        Ok(self.settings.clone())
    }

    #[zbus(property)]
    fn set_settings(&mut self, v: String) -> fdo::Result<()> {
        self.settings = v;
        Ok(())
    }

    #[zbus(property(emits_changed_signal = "const"))]
    fn fixed(&self) -> u8 {
        7
    }

    #[zbus(property(emits_changed_signal = "invalidates"))]
    async fn secret(&self) -> String {
        String::new()
    }

    #[zbus(property(emits_changed_signal = "false"))]
    fn quiet(&self) -> u16 {
        1
    }

    #[zbus(property)]
    fn set_quiet(&mut self, v: u16) -> fdo::Result<()> {
        Ok(())
    }
}

/// The default (spawning) flavour, same shape, for sibling comparison.
pub struct Spawning {
    pub n: u64,
}

#[interface(name = "org.zverif.Spawning")]
impl Spawning {
    async fn bump(&mut self, by: u64) -> u64 {
        self.n += by;
        self.n
    }

    fn fail(&self) -> fdo::Result<()> {
        Err(fdo::Error::AccessDenied("no".into()))
    }

    #[zbus(out_args("a", "b"))]
    fn two(&self) -> fdo::Result<(u32, u32)> {
        Ok((1, 2))
    }

    #[zbus(property, name = "Level")]
    fn level(&self) -> u64 {
        self.n
    }

    #[zbus(property, name = "Level")]
    fn set_level(&mut self, v: u64) {
        self.n = v;
    }
}
