#!/usr/bin/env python3
"""Apply one or more text mutations to a scratch copy of /repo and run checks against it.

usage: mut.py --check C15 [--check C18 ...] --edit FILE 'OLD' 'NEW' [--edit ...] [--keep]
       mut.py --check C15 --patch file.diff
Prints the check output; exit code 0 iff every listed check reported a VIOLATION (i.e. fired).
"""
import os, shutil, subprocess, sys, tempfile

VERIF = os.path.dirname(os.path.dirname(os.path.abspath(__file__)))


def make_scratch(repo="/repo"):
    d = tempfile.mkdtemp(prefix="zmut.", dir="/tmp")
    subprocess.check_call(["rsync", "-a", "--exclude", "/target", "--exclude", ".git", repo + "/", d + "/"])
    return d


def apply_edit(root, rel, old, new, count=1):
    p = os.path.join(root, rel)
    s = open(p).read()
    n = s.count(old)
    if n != count:
        raise SystemExit("edit: %r occurs %d times in %s (expected %d)" % (old, n, rel, count))
    open(p, "w").write(s.replace(old, new))


def run_checks(root, checks, tier="quick"):
    env = dict(os.environ)
    env["ZMIR_REPO"] = root
    ev = tempfile.mkdtemp(prefix="zmut-ev.", dir="/tmp")
    env["ZCHECK_EVIDENCE_DIR"] = ev
    env["ZCHECK_REPLAY_DIR"] = ev
    env["ZCHECK_KEEP"] = "8"
    res = {}
    for c in checks:
        p = subprocess.run([os.path.join(VERIF, "check"), c, "--tier", tier], env=env, stdout=subprocess.PIPE,
                           stderr=subprocess.STDOUT, text=True)
        res[c] = (p.returncode, p.stdout)
    shutil.rmtree(ev, ignore_errors=True)
    return res


def main():
    a = sys.argv[1:]
    checks, edits, patch, keep = [], [], None, False
    i = 0
    while i < len(a):
        if a[i] == "--check":
            checks.append(a[i + 1]); i += 2
        elif a[i] == "--edit":
            edits.append((a[i + 1], a[i + 2], a[i + 3])); i += 4
        elif a[i] == "--patch":
            patch = a[i + 1]; i += 2
        elif a[i] == "--keep":
            keep = True; i += 1
        else:
            raise SystemExit("bad arg " + a[i])
    root = make_scratch()
    try:
        for rel, old, new in edits:
            apply_edit(root, rel, old, new)
        if patch:
            subprocess.check_call(["patch", "-p1", "-s", "-d", root, "-i", os.path.abspath(patch)])
        res = run_checks(root, checks)
        allfired = True
        for c, (rc, out) in res.items():
            print("==== %s rc=%d" % (c, rc))
            print(out)
            if rc != 1 or "VIOLATION" not in out:
                allfired = False
        return 0 if allfired else 1
    finally:
        if not keep:
            shutil.rmtree(root, ignore_errors=True)
        else:
            print("scratch kept at", root)


if __name__ == "__main__":
    sys.exit(main())
