#!/usr/bin/env python3
"""Run the recorded breaking variants (selftest/variants/Cxx.json) and the seeded changes (seeded/*/patch.diff)
against the checks: each must make its check exit 1 with a VIOLATION (naming expect_rule when given).

usage: selftest/run.py [-j N] [--seeded] [Cxx ...]
Writes selftest/RESULTS.json. Scratch copies live under /tmp and are removed."""
import glob, json, os, shutil, subprocess, sys, tempfile, threading
HERE = os.path.dirname(os.path.abspath(__file__))
VERIF = os.path.dirname(HERE)
sys.path.insert(0, HERE)
import mut


def load_variants(pids):
    out = []
    for p in sorted(glob.glob(os.path.join(HERE, "variants", "C*.json"))):
        base = os.path.basename(p)[:-5]
        pid = base.split(".")[0]
        refactor = ".refactors" in base
        if pids and pid not in pids:
            continue
        try:
            vs = json.load(open(p))
        except Exception as e:
            print("bad variants file", p, e)
            continue
        for v in vs:
            out.append({"pid": pid, "name": v.get("name", "?"), "edits": v.get("edits", []), "expect_rule": v.get("expect_rule"),
                        "checks": v.get("checks", [pid]), "kind": "refactor" if refactor else "variant"})
    return out


def load_seeded(pids):
    out = []
    for d in sorted(glob.glob(os.path.join(VERIF, "seeded", "*"))):
        meta_p = os.path.join(d, "meta.json")
        patch = os.path.join(d, "patch.diff")
        if not (os.path.exists(meta_p) and os.path.exists(patch)):
            continue
        meta = json.load(open(meta_p))
        pid = meta.get("property")
        if pids and pid not in pids:
            continue
        out.append({"pid": pid, "name": "seeded:" + os.path.basename(d), "patch": patch, "expect_rule": None,
                    "checks": meta.get("checks", [pid]), "kind": "seeded"})
    return out


def run_one(v):
    root = mut.make_scratch()
    try:
        try:
            for e in v.get("edits", []):
                mut.apply_edit(root, e[0], e[1], e[2])
            if v.get("patch"):
                subprocess.check_call(["patch", "-p1", "-s", "-d", root, "-i", v["patch"]])
        except SystemExit as e:
            return {"fired": False, "error": "edit did not apply: %s" % e}
        except subprocess.CalledProcessError as e:
            return {"fired": False, "error": "patch did not apply"}
        res = mut.run_checks(root, v["checks"])
        fired = {}
        for c, (rc, out) in res.items():
            ok = rc == 1 and "VIOLATION" in out
            extract_fail = "EXTRACT:facts" in out
            rule_ok = True
            if v.get("expect_rule"):
                rule_ok = any(("FAIL " + v["expect_rule"]) in l or (v["expect_rule"] + ":") in l for l in out.splitlines() if "FAIL" in l)
            fails = [l.strip()[:200] for l in out.splitlines() if l.strip().startswith("FAIL")][:4]
            fired[c] = {"fired": ok and not extract_fail, "expected_rule_named": rule_ok, "compile_error": extract_fail, "fails": fails}
        if v.get("kind") == "refactor":
            silent = all(rc == 0 for rc, out in res.values())
            return {"fired": silent, "refactor_expected_silent": True, "checks": fired}
        return {"fired": all(x["fired"] for x in fired.values()), "checks": fired}
    finally:
        shutil.rmtree(root, ignore_errors=True)


def main():
    a = sys.argv[1:]
    jobs = 3
    seeded = False
    pids = []
    i = 0
    while i < len(a):
        if a[i] == "-j":
            jobs = int(a[i + 1]); i += 2
        elif a[i] == "--seeded":
            seeded = True; i += 1
        else:
            pids.append(a[i]); i += 1
    vs = load_variants(pids) + (load_seeded(pids) if seeded or not pids else [])
    print("%d variants" % len(vs))
    results = {}
    lock = threading.Lock()
    queue = list(vs)

    def worker():
        while True:
            with lock:
                if not queue:
                    return
                v = queue.pop(0)
            r = run_one(v)
            with lock:
                results["%s/%s" % (v["pid"], v["name"])] = r
                print("%-70s %s" % ("%s/%s" % (v["pid"], v["name"]), ("SILENT(ok)" if r.get("refactor_expected_silent") else "FIRED") if r.get("fired") else "MISSED " + json.dumps(r)[:300]))
                sys.stdout.flush()
    ths = [threading.Thread(target=worker) for _ in range(jobs)]
    [t.start() for t in ths]
    [t.join() for t in ths]
    path = os.path.join(HERE, "RESULTS.json")
    old = {}
    try:
        old = json.load(open(path))
    except Exception:
        pass
    old.update(results)
    json.dump(old, open(path, "w"), indent=1, sort_keys=True)
    n = sum(1 for r in results.values() if r.get("fired"))
    print("fired %d / %d" % (n, len(results)))
    return 0 if n == len(results) else 1


if __name__ == "__main__":
    sys.exit(main())
