"""C33 — Generated proxies and interfaces agree on the wire (structural clause, decided on fixture pairs).

The property is a run-time value property (values delivered through two macro expansions and the codec); what a
static rule can decide is the *structural* part of it: for one interface declaration and one independently
written `#[proxy]` trait for the same D-Bus interface, the two expansions must use the same member names and the
same D-Bus types for the same member -- otherwise no value can arrive intact. This is the sibling cross-check of
two generators (`zbus_macros/src/iface.rs`, `zbus_macros/src/proxy.rs`): each derives member names, argument
packing and reply types on its own from a Rust signature.

Analysed program: the fixture crate /verif/fixtures/ifaces (configuration K6; never executed), which declares two
interfaces and, separately, the proxy traits a client crate would write for them (methods with 0, 1 and 2
arguments, tuple and single replies, special handler arguments that must not reach the wire, fds, a signal,
read-only / read-write / renamed properties, a property whose name starts with the setter prefix).

  X-METHODS   the member names matched by the arms of the generated `Interface::call` / `call_mut` are exactly the
              member literals the generated proxy methods pass to `Proxy::call`; per member, the D-Bus signature
              of the type the arm deserialises the body into equals the signature of the argument tuple the proxy
              serialises, and the signature of the type the arm replies with equals the signature of the type
              the proxy deserialises the reply into
  X-PROPS     property names matched by `get` / `set` equal the literals of the proxy's `get_property` /
              `set_property` (and `cached_property`, `receive_property_changed`); per property the getter's /
              setter's value type and the proxy's type parameter have the same signature
              the names the generated `builder()` passes to `Builder::uncached_properties` are exactly the
              properties the interface annotates EmitsChangedSignal=false
  X-SIGNALS   the signal name the generated emitter passes to `SignalEmitter::emit` equals the literal of the
              proxy's `receive_signal`, and the emitted body tuple has the signature of the proxy's `<Signal>Args`
  X-FLAVOURS  the async and the blocking proxy agree with each other member by member

Signatures are computed from the Rust types recorded in the MIR (generic arguments of the resolved callees) by a
transcription of zvariant's `Type` table for the types the fixture uses; a type outside the table fails closed.

Not decided: the values themselves (codec: C01-C05), declarations outside the fixture (the rule quantifies over
the fixture's member shapes, not over every interface a user could write), `#[zbus(object = ..)]` returns,
`no_reply`/flags attributes, blocking proxy run-time behaviour.
"""
import re
from .. import mir
from .. import lib_iface as L

META = {
    "technique": "sibling cross-check of two macro expansions on a fixture crate: member-name and D-Bus-type tables extracted "
                 "from the MIR of the generated Interface impl and of the generated proxies, compared member by member",
    "level": ("Decides, for the interface/proxy pairs of the fixture crate (methods, properties, signals of two interfaces; async and "
              "blocking proxies), that both expansions use the same member names and the same D-Bus signatures for arguments, "
              "replies, property values and signal bodies. It is the structural necessary condition of the property, on the "
              "fixture's declarations only; value delivery is not decided."),
    "note": ("Partial claim: decides name/type agreement of the two generators on the fixture crate's declarations (sibling "
             "cross-check), which is a necessary condition of the property; it does not decide value delivery, nor declarations "
             "outside the fixture. Trusted: rustc nightly front end + MIR construction, the zmir extractor, the rule library, the "
             "transcribed Type table in rules/C33.py."),
    "tier_note": "K6 costs a fixture build (60-400 s when cold); it is part of both tiers because the property has no other rule",
}

PAIRS = {
    "zverif_ifaces::Ordered": "zverif_ifaces::OrderedClient",
    "zverif_ifaces::Spawning": "zverif_ifaces::SpawningClient",
}
# what the fixture declares (counted by hand): interface -> (#methods, #readable props, #writable props, #signals)
DECLARED = {"zverif_ifaces::Ordered": (6, 5, 3, 1), "zverif_ifaces::Spawning": (5, 1, 1, 1)}

BASIC = {
    "u8": "y", "bool": "b", "i16": "n", "u16": "q", "i32": "i", "u32": "u", "i64": "x", "u64": "t", "f64": "d",
    "str": "s", "alloc::string::String": "s", "zvariant::str::Str": "s",
    "zvariant::object_path::ObjectPath": "o", "zvariant::object_path::OwnedObjectPath": "o",
    "zvariant::signature::Signature": "g", "zvariant::fd::Fd": "h", "zvariant::fd::OwnedFd": "h",
    "std::os::fd::owned::OwnedFd": "h", "zvariant::value::Value": "v", "zvariant::owned_value::OwnedValue": "v",
}
SEQ = ("alloc::vec::Vec", )
MAP = ("std::collections::hash::map::HashMap", "alloc::collections::btree::map::BTreeMap")


class TypeErr(Exception):
    pass


def split_top(s, sep=","):
    out, depth, cur = [], 0, ""
    for ch in s:
        if ch in "<([":
            depth += 1
        elif ch in ">)]":
            depth -= 1
        if ch == sep and depth == 0:
            out.append(cur.strip())
            cur = ""
        else:
            cur += ch
    if cur.strip():
        out.append(cur.strip())
    return out


def norm(t):
    t = t.strip()
    t = re.sub(r"&\s*('\w+\s+)?(mut\s+)?", "&", t)
    while t.startswith("&"):
        t = t[1:].strip()
    return t


def elems(t):
    """the wire elements of a body type: a tuple is flattened one level (message bodies are argument lists)"""
    t = norm(t)
    m = re.match(r"^zvariant::tuple::DynamicTuple<(.*)>$", t)
    if m:
        t = norm(m.group(1))
    if t == "()":
        return []
    if t.startswith("(") and t.endswith(")"):
        return split_top(t[1:-1])
    return [t]


def sig(t):
    t = norm(t)
    if t == "()":
        return ""
    if t.startswith("(") and t.endswith(")"):
        return "(" + "".join(sig(x) for x in split_top(t[1:-1])) + ")"
    if t.startswith("[") and t.endswith("]"):
        inner = t[1:-1]
        inner = split_top(inner, ";")[0]
        return "a" + sig(inner)
    m = re.match(r"^([\w:]+)<(.*)>$", t)
    if m:
        head, args = m.group(1), [a for a in split_top(m.group(2)) if not a.startswith("'")]
        if not args:
            return sig(head)
        if head in SEQ:
            return "a" + sig(args[0])
        if head in MAP:
            return "a{" + sig(args[0]) + sig(args[1]) + "}"
        if head in ("core::option::Option",):
            raise TypeErr("Option in a body type: " + t)
        if head in BASIC:
            return BASIC[head]
        raise TypeErr("generic type outside the transcribed Type table: " + t)
    if t in BASIC:
        return BASIC[t]
    raise TypeErr("type outside the transcribed Type table: " + t)


def body_sig(t):
    return "".join(sig(e) for e in elems(t))


def unwrap_ret(s):
    """value type of a handler return type: through `impl Future<Output = T>` and `Result<T, E>`"""
    s = s.strip()
    m = re.match(r"^impl core::future::future::Future<Output = (.*)>$", s)
    if m:
        s = m.group(1).strip()
    m = re.match(r"^core::result::Result<(.*)>$", s)
    if m:
        s = split_top(m.group(1))[0]
    return s


def fn_sig(f, fid):
    d = f.fnsigs.get(fid)
    if not d:
        return None, None
    s = re.sub(r"^for<[^>]*>\s*", "", d["sig"])
    m = re.match(r"^fn\((.*?)\)(?:\s*->\s*(.*))?$", s)
    if not m:
        return None, None
    return split_top(m.group(1)), (m.group(2) or "()")


def lit(body, op):
    o = mir.origin(body, op)
    if o[0] == "const" and isinstance(o[1].get("v"), str):
        return o[1]["v"]
    k = mir.resolve_const(body, op)
    if k is not None and isinstance(k.get("v"), str):
        return k["v"]
    return None


def gargs(c):
    return c.c.get("gargs") or []


# ------------------------------------------------------------------------------------------ interface side
def iface_tables(ctx, it):
    f = it.f
    methods, getp, setp, signals = {}, {}, {}, {}
    for name in ("call", "call_mut"):
        D = it.method(ctx, name)
        fam = {b.id: b for b in L.kids(f, D)}
        for c, tt, ft, nm in L.eq_arms(D):
            if nm is None:
                ctx.ob("X-METHODS", "%s:%s:arm-name-readable" % (it.key, name), False, "arm literal not in the facts", c.where)
                continue
            if L.ret_variants(D, tt, L.DISPATCH_RESULT) == {"RequiresMut"}:
                continue
            region = mir.region(D, tt)
            cors = [fam[i] for i in L.aggs_in(D, region, ("coroutine",)) if i in fam]
            cors = [b for b in cors if any(L.is_reply(x) for x in mir.calls(b))]
            if len(cors) != 1:
                ctx.ob("X-METHODS", "%s:%s:one-arm-coroutine" % (it.key, nm), False, "%d coroutines for the arm" % len(cors), c.where)
                continue
            M = cors[0]
            des = [x for x in mir.calls(M) if x.is_("deserialize") and "message::body::Body" in x.callee]
            rep = [x for x in mir.calls(M) if x.callee == "zbus::connection::Connection::reply"]
            a_t = gargs(des[0])[0] if des else "()"
            if len(des) > 1 or len({tuple(gargs(x)) for x in rep}) != 1:
                ctx.ob("X-METHODS", "%s:%s:one-body-type" % (it.key, nm), False,
                       "%d deserialize sites, reply types %s" % (len(des), sorted({str(gargs(x)) for x in rep})), M.where)
                continue
            methods[nm] = (a_t, gargs(rep[0])[0], M.where)
    # properties: handler signatures behind the get / set_mut arms
    G = it.coroutine(ctx, "get")
    for c, tt, ft, nm in L.eq_arms(G):
        reg = mir.region(G, tt)
        hs = [x for x in mir.calls(G) if x.b in reg and it.is_handler_call(x)]
        if nm is None or len(hs) != 1:
            ctx.ob("X-PROPS", "%s:get-arm-readable" % it.key, False, "arm name %r, %d getter calls" % (nm, len(hs)), c.where)
            continue
        args, ret = fn_sig(f, hs[0].callee)
        getp[nm] = (unwrap_ret(ret) if ret else None, hs[0].where)
    for name in ("set", "set_mut"):
        S = it.method(ctx, name) if name == "set" else it.coroutine(ctx, name)
        fam = {b.id: b for b in L.kids(f, it.method(ctx, name))}
        for c, tt, ft, nm in L.eq_arms(S):
            if nm is None:
                continue
            if name == "set" and L.ret_variants(S, tt, L.DISPATCH_RESULT) == {"RequiresMut"}:
                setp.setdefault(nm, None)
                continue
            reg = mir.region(S, tt)
            cl = [i for i in L.aggs_in(S, reg, ("closure", "coroutine")) if i in fam]
            cors = [b for b in fam.values() if b.kind == "coroutine" and any(b.id.startswith(x + "::") or b.id == x for x in cl)
                    and any(it.is_handler_call(x) for x in mir.calls(b))]
            hs = [x for b in cors for x in mir.calls(b) if it.is_handler_call(x)]
            if len(hs) != 1:
                continue
            args, ret = fn_sig(f, hs[0].callee)
            if args:
                setp[nm] = (args[-1], hs[0].where)
    for nm, v in list(setp.items()):
        if v is None:
            ctx.ob("X-PROPS", "%s:set:%s:setter-found" % (it.key, nm), False, "no setter call found behind the set/set_mut arms", it.where)
            del setp[nm]
    # signals
    for b in it.generated_inherent():
        for g in L.family(f, b):
            for x in mir.calls(g):
                if x.is_("emit") and "SignalEmitter" in x.callee and len(x.args) >= 4:
                    nm = lit(g, x.args[2])
                    if nm == "PropertiesChanged" and b.name != "properties_changed":
                        continue   # `<prop>_changed` / `<prop>_invalidate` helpers, not a signal of this interface
                    if nm is None:
                        ctx.ob("X-SIGNALS", "%s:emit-name-readable:%s" % (it.key, b.name), False, "signal name is not a literal", x.where)
                        continue
                    signals[nm] = (gargs(x)[2] if len(gargs(x)) > 2 else None, x.where)
    return methods, getp, setp, signals


# ------------------------------------------------------------------------------------------ proxy side
def proxy_tables(ctx, f, ty):
    """ty = `crate::NameProxy` or `crate::NameProxyBlocking`"""
    methods, getp, setp, signals, other = {}, {}, {}, {}, []
    pre = ty + "::<"
    roots = [b for b in f.all_bodies(ty.split("::")[0]) if b.root == b.id and b.id.startswith(pre)]
    for r in roots:
        for g in f.family(r):
            for x in mir.calls(g):
                cal = x.callee
                if "proxy::Proxy::<" not in cal:
                    continue
                m = cal.rsplit("::", 1)[1]
                if m in ("call", "call_noreply", "call_with_flags") and len(x.args) > 1:
                    nm = lit(g, x.args[1])
                    ga = gargs(x)
                    if nm is None or len(ga) < 2:
                        ctx.ob("X-METHODS", "%s:%s:member-literal" % (ty, r.name), False, "member name is not a literal", x.where)
                        continue
                    methods[nm] = (ga[1], ga[2] if len(ga) > 2 and m != "call_noreply" else "()", x.where, r.name)
                elif m == "get_property" and len(x.args) > 1:
                    nm = lit(g, x.args[1])
                    if nm is not None:
                        getp[nm] = (gargs(x)[0], x.where, r.name)
                elif m == "set_property" and len(x.args) > 1:
                    nm = lit(g, x.args[1])
                    if nm is not None:
                        setp[nm] = (gargs(x)[0], x.where, r.name)
                elif m in ("cached_property", "receive_property_changed") and len(x.args) > 1:
                    nm = lit(g, x.args[1])
                    other.append((m, nm, gargs(x)[0] if gargs(x) else None, x.where, r.name))
                elif m in ("receive_signal", "receive_signal_with_args") and len(x.args) > 1:
                    nm = lit(g, x.args[1])
                    if nm is not None:
                        signals.setdefault(nm, (x.where, r.name))
    return methods, getp, setp, signals, other


def uncached_names(f, ty):
    """string literals of the array(s) built in `<Proxy>::builder`, the function that calls Builder::uncached_properties"""
    for b in f.all_bodies(ty.split("::")[0]):
        if b.root == b.id and b.id.startswith(ty + "::<") and b.name == "builder":
            if not [c for c in mir.calls(b) if c.is_("uncached_properties")]:
                return None
            out = []
            for bi, i, pl, rv, ln in mir.assignments(b):
                if rv[0] == "agg" and rv[1] == "array":
                    for op in rv[4]:
                        v = lit(b, op)
                        if v is not None:
                            out.append(v)
            return out
    return None


def args_struct_sig(f, crate, signal):
    a = f.adts.get("%s::%sArgs" % (crate, signal))
    if not a:
        return None
    fields = [t for n, t, v in a["variants"][0]["fields"] if not t.startswith("core::marker::PhantomData")]
    return "".join(sig(t) for t in fields)


def cmp_sig(ctx, rule, key, a_t, b_t, where, what):
    try:
        sa, sb = body_sig(a_t), body_sig(b_t)
    except TypeErr as e:
        ctx.ob(rule, key, False, "cannot compute a signature: %s" % e, where)
        return
    ctx.ob(rule, key, sa == sb,
           "%s: interface `%s` (%s) / proxy `%s` (%s)" % (what, sa, a_t, sb, b_t), where)


def run(ctx):
    ctx.explanation = (
        "MIR of the fixture crate (K6): per interface/proxy pair, member-name and type tables are read off the generated "
        "Interface impl (string-match arms, Body::deserialize / Connection::reply generic arguments, handler signatures "
        "behind the get/set arms, SignalEmitter::emit) and off the generated proxies (Proxy::call / get_property / "
        "set_property / receive_signal literals and generic arguments, <Signal>Args fields); names must coincide and "
        "the D-Bus signatures computed from both sides' Rust types must be equal, for the async and the blocking proxy.")
    ctx.not_decided = ("value delivery through the codec; interface declarations outside the fixture crate; `object = ..` "
                       "proxy returns, method flags, blocking-proxy run-time behaviour")
    ctx.trusted.append("zvariant Type table for the fixture's types (transcribed in rules/C33.py BASIC/SEQ/MAP)")
    f = ctx.facts("K6")
    its = {it.key: it for it in L.interfaces(ctx, ["K6"])}
    total = 0
    for ikey, pbase in sorted(PAIRS.items()):
        it = ctx.one([its[ikey]] if ikey in its else [], "fixture interface " + ikey)
        im, ig, iset, isig = iface_tables(ctx, it)
        want = DECLARED[ikey]
        ctx.floor("X-METHODS", "%s: method arms read" % ikey, len(im), want[0])
        ctx.floor("X-PROPS", "%s: readable properties read" % ikey, len(ig), want[1])
        ctx.floor("X-PROPS", "%s: writable properties read" % ikey, len(iset), want[2])
        ctx.floor("X-SIGNALS", "%s: signals read" % ikey, len(isig), want[3])
        flav = {}
        for suffix in ("Proxy", "ProxyBlocking"):
            ty = pbase + suffix
            pm, pg, ps, psig, other = proxy_tables(ctx, f, ty)
            flav[suffix] = (pm, pg, ps, psig)
            ctx.floor("X-METHODS", "%s: proxy methods read" % ty, len(pm), want[0])
            ctx.floor("X-PROPS", "%s: property getters read" % ty, len(pg), want[1])
            ctx.floor("X-PROPS", "%s: property setters read" % ty, len(ps), want[2])
            ctx.floor("X-SIGNALS", "%s: signal receivers read" % ty, len(psig), want[3])
            # ---- methods
            ctx.ob("X-METHODS", "%s<->%s:member-names" % (ikey, ty), set(im) == set(pm),
                   "interface arms %s; proxy calls %s" % (sorted(im), sorted(pm)), it.where)
            for nm in sorted(set(im) & set(pm)):
                total += 1
                cmp_sig(ctx, "X-METHODS", "%s<->%s:%s:arguments" % (ikey, ty, nm), im[nm][0], pm[nm][0], pm[nm][2], "argument list of " + nm)
                cmp_sig(ctx, "X-METHODS", "%s<->%s:%s:reply" % (ikey, ty, nm), im[nm][1], pm[nm][1], pm[nm][2], "reply of " + nm)
            # ---- properties
            ctx.ob("X-PROPS", "%s<->%s:readable-names" % (ikey, ty), set(ig) == set(pg),
                   "interface get arms %s; proxy get_property %s" % (sorted(ig), sorted(pg)), it.where)
            ctx.ob("X-PROPS", "%s<->%s:writable-names" % (ikey, ty), set(iset) == set(ps),
                   "interface set arms %s; proxy set_property %s" % (sorted(iset), sorted(ps)), it.where)
            for nm in sorted(set(ig) & set(pg)):
                total += 1
                cmp_sig(ctx, "X-PROPS", "%s<->%s:%s:get-type" % (ikey, ty, nm), "(%s,)" % ig[nm][0], "(%s,)" % pg[nm][0], pg[nm][1], "value of " + nm)
            for nm in sorted(set(iset) & set(ps)):
                cmp_sig(ctx, "X-PROPS", "%s<->%s:%s:set-type" % (ikey, ty, nm), "(%s,)" % iset[nm][0], "(%s,)" % ps[nm][0], ps[nm][1], "new value of " + nm)
            for m, nm, t, where, rname in other:
                ok = nm in ig and t is not None
                if ok:
                    try:
                        ok = sig(t) == sig(ig[nm][0])
                    except TypeErr:
                        ok = False
                ctx.ob("X-PROPS", "%s<->%s:%s:%s" % (ikey, ty, rname, m), ok,
                       "%s(%r) :: %s against the interface's readable property table" % (m, nm, t), where)
            # ---- uncached list (added after seeded change C33a): the names the generated `builder()` hands to
            # Builder::uncached_properties must be D-Bus member names, namely exactly the properties the interface
            # annotates with EmitsChangedSignal=false (their changes are never announced, a cached copy goes stale)
            unc = uncached_names(f, ty)
            props_decl, bad = L.introspected_properties(ctx, it)
            never = {n for n, (acc, kind) in props_decl.items() if kind == "false" and "read" in acc}
            ctx.ob("X-PROPS", "%s<->%s:uncached-list" % (ikey, ty), unc is not None and set(unc) == never,
                   "proxy never caches %s; the interface never announces changes of %s" % (sorted(unc or []), sorted(never))
                   if unc is not None else "no Builder::uncached_properties call found in the generated builder()", it.where)
            # ---- signals
            ctx.ob("X-SIGNALS", "%s<->%s:signal-names" % (ikey, ty), set(isig) == set(psig),
                   "interface emits %s; proxy receives %s" % (sorted(isig), sorted(psig)), it.where)
            for nm in sorted(set(isig) & set(psig)):
                total += 1
                try:
                    a = body_sig(isig[nm][0])
                    b = args_struct_sig(f, ty.split("::")[0], nm)
                    ok = b is not None and a == b
                    det = "signal %s: emitted body `%s` (%s); proxy %sArgs `%s`" % (nm, a, isig[nm][0], nm, b)
                except TypeErr as e:
                    ok, det = False, "cannot compute a signature: %s" % e
                ctx.ob("X-SIGNALS", "%s<->%s:%s:body" % (ikey, ty, nm), ok, det, isig[nm][1])
        # ---- flavours
        a, b = flav["Proxy"], flav["ProxyBlocking"]
        for i, what in enumerate(("methods", "property getters", "property setters")):
            ta = {k: (v[0], v[1]) if what == "methods" else v[0] for k, v in a[i].items()}
            tb = {k: (v[0], v[1]) if what == "methods" else v[0] for k, v in b[i].items()}
            ctx.ob("X-FLAVOURS", "%s:async=blocking:%s" % (pbase, what), ta == tb,
                   "async and blocking proxies use the same member names and types for %d %s" % (len(ta), what) if ta == tb else
                   "async %s / blocking %s" % (sorted(ta.items()), sorted(tb.items())), it.where)
        ctx.ob("X-FLAVOURS", "%s:async=blocking:signals" % pbase, set(a[3]) == set(b[3]),
               "async and blocking proxies receive %s" % sorted(a[3]), it.where)
    ctx.floor("X-METHODS", "members compared across both expansions", total, 36)
