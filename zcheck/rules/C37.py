"""C37 — Bus match registrations mirror the live signal subscriptions (DESIGN §5.C37).

Rules (MIR of zbus, configuration K1):
  M-NAMES    the two bus calls are call_method(Some("org.freedesktop.DBus"), "/org/freedesktop/DBus",
             Some("org.freedesktop.DBus"), "AddMatch" | "RemoveMatch", <the rule of the entry>)
  M-ADD      add_match: `AddMatch` is issued only on the Vacant edge of `subscriptions.entry(rule)` (never
             for a rule that already has subscribers), under is_bus() && msg_type == Type::Signal where
             msg_type is `rule.msg_type().unwrap_or(Signal)` (the compared constant is read from the promoted
             constant's value); on the Vacant edge the (1, receiver) entry is reached only through the
             awaited AddMatch or the not-a-bus / not-a-signal edges, and a failed AddMatch (`?`) inserts nothing
  M-REMOVE   remove_match: `RemoveMatch` is issued only on the `count == 0` edge after the decrement, under
             is_bus() && msg_type == Type::Signal; the entry is removed only after the awaited call (or over
             the not-a-bus / not-a-signal edges)
  M-GUARD    the MutexGuard of ConnectionInner.subscriptions is held (rustc coroutine layout) across the
             await of both bus calls and is neither moved nor dropped on any path before them (the layout
             alone over-approximates: a borrowed-then-moved guard stays in the witness), so add/remove of one
             rule cannot interleave
  M-WHO      the member strings "AddMatch"/"RemoveMatch" are used only by add_match / remove_match and the
             generated fdo::DBusProxy methods, which nothing inside zbus calls; remove_match is called only by
             queue_remove_match's task, MessageStream::async_drop and the lost-race path of
             subscribe_dest_owner_change; queue_remove_match only by the two Drop impls
  M-CALLERS  every caller of add_match is justified: (a) receiver and rule go into a MessageStream whose
             drop removes the rule, (b) the rule is parked in ProxyInnerStatic.dest_owner_change_match_rule
             whose Drop removes it (and removed at once when the OnceLock::set race is lost), or (c) the rule
             is built with a constant non-Signal msg_type, so it is never registered on the bus
  M-PROXY    subscribe_dest_owner_change adds only when the cell is empty; ProxyInnerStatic::drop take()s
             the cell and queues the removal
  S-CTOR / S-DROP  stream constructor<->drop pairing shared with C20 (lib_subs.check_stream_pairing)

Not decided (dropped from §5.C37 / §7): O4 — a failing RemoveMatch leaves a zero-count entry behind; it is an
error path of the bus call, no exact structural rule separates it from the intended `?`.
"""
from .. import mir, awaits as aw
from .. import lib_subs as L
from .C20 import entry_switch, count_writes, _through_field

META = {
    "technique": "control dependence of the AddMatch/RemoveMatch calls on the 0<->1 edges, held-guard facts, who-may-call with per-caller pairing",
    "level": "Static necessary conditions: the bus is told AddMatch exactly on the vacant edge and RemoveMatch exactly on the "
             "count-reaches-zero edge, both under the subscriptions guard, and every internal add_match is paired with a removal "
             "on drop (or is never registered). Bus behaviour, failing bus calls and task scheduling of queued removals are not decided.",
}

OPTION = "core::option::Option"
FDO = "org.freedesktop.DBus"
FDO_PATH = "/org/freedesktop/DBus"
PROXY_STATIC = "zbus::proxy::ProxyInnerStatic"


def run(ctx):
    ctx.explanation = ("R-CTRL/R-ORDER on add_match / remove_match (AddMatch only on the vacant edge before the insert, RemoveMatch only on the "
                       "zero edge before the removal, both only for signal rules on a bus), R-AWAIT (subscriptions guard saved across both "
                       "bus calls), R-WHO with a structural justification per add_match caller, proxy owner-change rule pairing, and the "
                       "stream constructor/drop pairing shared with C20.")
    ctx.not_decided = ("what the bus does with the calls; a failing RemoveMatch (zero-count entry stays, O4); when the executor runs queued "
                       "removals.")
    f = ctx.facts("K1")
    am = L.coroutine_of(ctx, f, L.CONN + "::add_match")
    rm = L.coroutine_of(ctx, f, L.CONN + "::remove_match")
    rule_add(ctx, f, am)
    rule_remove(ctx, f, rm)
    rule_who(ctx, f)
    rule_callers(ctx, f)
    rule_proxy(ctx, f)
    L.check_stream_pairing(ctx, f)


def bus_calls(body, member):
    return [c for c in mir.calls(body) if c.is_("Connection::call_method") and member in L.call_strs(body, c)]


def check_names(ctx, body, c, member, key_locals):
    strs = L.call_strs(body, c)
    want = [FDO, FDO_PATH, FDO, member]
    ctx.ob("M-NAMES", "%s:destination-path-interface-member" % member, strs == want,
           "call_method(%s)" % ", ".join(strs), c.where)
    last = c.args[-1]
    ok = L.op_in(last, key_locals)
    ctx.ob("M-NAMES", "%s:argument-is-the-rule" % member, ok,
           "the body of %s is the rule of the entry being %s" % (member, "added" if member == "AddMatch" else "removed") if ok else
           "the body of %s is not the rule of this entry" % member, c.where)


def signal_conditions(ctx, f, body, rule, tag, call):
    """is_bus() true edge and (msg_type == Signal) true edge both dominate `call`; returns the block that is the
    innermost true target (start of the region that must go through the bus call)"""
    isb = []
    skips = []   # (switch block, false target): the edges on which the bus call is legitimately not made
    for c in mir.calls(body):
        if c.is_("Connection::is_bus"):
            for sb, tt, ft in L.bool_switches_on_call(body, c):
                if L.edge_dominates(body, sb, tt, call.b):
                    isb.append(tt)
                    skips.append((sb, ft))
    ctx.ob(rule, tag + "only-on-a-bus", bool(isb), "the bus call is made only when is_bus() is true" if isb else
           "the bus call is not guarded by is_bus()", call.where)
    # msg_type local: rule.msg_type().unwrap_or(Type::Signal)
    mts = [c for c in mir.calls(body) if c.is_("MatchRule::<'m>::msg_type", "msg_type") and "match_rule::MatchRule" in c.callee and len(c.args) == 1]
    mt_locals = set()
    for m in mts:
        rl = L.strip_clone(body, m.args[0])
        if rl is None or mir.local_name(body, rl) != "rule":
            continue
        for u in mir.calls(body):
            if u.is_("unwrap_or") and L.op_in(u.args[0], {m.dest[0]}) and L.is_agg(body, u.args[1], L.TYPE, "Signal") is not None:
                mt_locals.add(u.dest[0])
    ctx.ob(rule, tag + "msg_type-defaults-to-signal", bool(mt_locals),
           "the tested type is rule.msg_type().unwrap_or(Signal)" if mt_locals else "no `rule.msg_type().unwrap_or(Type::Signal)` found", call.where)
    sig = []
    mder = mir.derives(body, mt_locals, through_calls=False)
    for c in mir.calls(body):
        if c.is_("eq", "ne") and "PartialEq" in c.callee and len(c.args) == 2:
            sides = [("mt" if L.op_in(a, mder) else ("signal" if _is_signal_const(body, a) else None)) for a in c.args]
            if set(sides) == {"mt", "signal"}:
                for sb, tt, ft in L.bool_switches_on_call(body, c):
                    t, nt = (tt, ft) if c.is_("eq") else (ft, tt)
                    if L.edge_dominates(body, sb, t, call.b):
                        sig.append(t)
                        skips.append((sb, nt))
    for sb, t in mir.switches(body):
        arms = L.discr_arms(body, f, sb)
        if arms and arms[1] == L.TYPE and arms[0][0] in mder and "Signal" in arms[2]:
            if L.edge_dominates(body, sb, arms[2]["Signal"], call.b):
                sig.append(arms[2]["Signal"])
                for n, tg in list(arms[2].items()) + [("otherwise", arms[3])]:
                    if n != "Signal" and tg is not None:
                        skips.append((sb, tg))
    ctx.ob(rule, tag + "only-for-signal-rules", bool(sig), "the bus call is made only on the equal edge of `msg_type == Type::Signal`" if sig else
           "the bus call is not restricted to rules whose message type is Signal", call.where)
    # the skip edges must be exclusive blocks, else avoiding them would hide other paths (fail closed)
    excl = all(L.sole_pred(body, t, sb) for sb, t in skips)
    ctx.ob(rule, tag + "skip-edges-exclusive", excl and bool(skips), "the not-a-bus / not-a-signal edges are separate blocks" if excl and skips else
           "cannot separate the edges that legitimately skip the bus call", call.where)
    return {t for sb, t in skips} if excl else None


def _is_signal_const(body, op):
    """the operand is Type::Signal: a visible aggregate, or the promoted `&Type::Signal` rustc makes of the right-hand
    side of `msg_type == Type::Signal` (value exported by the extractor as `pv`). Returns False for any other /
    unknown constant."""
    if L.is_agg(body, op, L.TYPE, "Signal") is not None:
        return True
    o = mir.origin(body, op)
    k = None
    if o[0] == "const":
        k = o[1]
    elif o[0] in ("ref", "place"):
        d = mir.single_def(body, o[1][0])
        if d and d[0] == "assign" and d[4][0] == "use":
            k = mir.op_const(d[4][1])
        elif d and d[0] == "assign" and d[4][0] == "agg" and d[4][2] == L.TYPE:
            return d[4][3] == "Signal"
    if k is not None and k.get("promoted") is not None:
        pv = k.get("pv")
        return isinstance(pv, dict) and pv.get("agg") == L.TYPE + "::Signal"
    return False


def after_await_branch(f, body, call):
    """(continue_target, break_target) of the `?` applied to the awaited result of `call`"""
    der = mir.derives(body, {call.dest[0]})
    for c in mir.calls(body):
        if c.is_("branch") and "Try" in c.callee + c.declared and L.op_in(c.args[0], der) and mir.block_dominates(body, call.b, c.b):
            for sb, t, place in L.place_switches(body, c.dest[0]):
                arms = L.discr_arms(body, f, sb)
                if arms and arms[1] == "core::ops::control_flow::ControlFlow" and not place[1]:
                    return arms[2].get("Continue"), arms[2].get("Break")
    return None, None


def guard_held(ctx, f, body, call, rule, tag):
    awaited = L.awaited_calls(f, body)
    a = awaited.get(call.b)
    ctx.ob(rule, tag + "bus-call-awaited", a is not None, "the bus call is awaited in place" if a is not None else "the bus call's future is not awaited here", call.where)
    if a is None:
        return
    held = [(n, t) for t, n, l in a.saved if n != "__awaitee" and "MutexGuard" in t and "(u64, async_broadcast::InactiveReceiver" in t]
    # rustc's witness keeps a local that was borrowed and later moved out (e.g. `drop(guard)`), so additionally: no move /
    # drop of the guard local can precede the bus call
    killed = []
    for n, t in held:
        for gl in [l for l in range(len(body.locals)) if body.locals[l][1] == n and "MutexGuard" in body.locals[l][0]]:
            for kb in guard_kills(body, gl):
                if call.b in mir.reachable(body, mir.succs(body)[kb]) or kb == call.b:
                    killed.append((n, kb))
    ok = bool(held) and not killed
    ctx.ob("M-GUARD", tag + "subscriptions-guard-held", ok,
           "the subscriptions guard `%s` is saved across the await and is neither moved nor dropped before the call" % held[0][0] if ok else
           ("the subscriptions guard is moved / dropped before the bus call (%d site(s))" % len(killed) if held else
            "the subscriptions guard is not live across the bus call") + ": a concurrent add/remove of the same rule can interleave", a.where)


def guard_kills(body, gl):
    """blocks in which local `gl` is moved out as a whole or dropped"""
    out = []
    for bi, blk in enumerate(body.blocks):
        if blk.get("c"):
            continue
        for st in blk["s"]:
            if st[0] == "=" and any(op[0] == "m" and op[1] == [gl, []] for op in mir.rvalue_operands(st[2])):
                out.append(bi)
        t = blk["t"]
        if t[0] == "call" and any(a[0] == "m" and a[1] == [gl, []] for a in t[1]["args"]):
            out.append(bi)
        if t[0] == "drop" and t[1] == [gl, []]:
            out.append(bi)
    return out


# ------------------------------------------------------------------------------------------ add_match
def rule_add(ctx, f, am):
    E, sb, occ, vac = entry_switch(ctx, f, am, "M-ADD", "add:")
    vac_r = mir.region(am, vac)
    calls = bus_calls(am, "AddMatch")
    ctx.floor("M-ADD", "AddMatch calls in add_match", len(calls), 1)
    vins = [c for c in mir.calls(am) if c.is_("insert") and "VacantEntry" in c.callee]
    ctx.floor("M-ADD", "VacantEntry::insert in add_match", len(vins), 1)
    keys = {c.dest[0] for c in mir.calls(am) if c.is_("key") and "VacantEntry" in c.callee} | \
           {l for l in range(len(am.locals)) if am.locals[l][1] == "rule"}
    kder = mir.derives(am, keys)
    for c in calls:
        check_names(ctx, am, c, "AddMatch", kder)
        onv = c.b in vac_r
        ctx.ob("M-ADD", "only-on-vacant-edge", onv, "AddMatch is issued only for a rule without an entry (Vacant edge)" if onv else
               "AddMatch is issued although the rule may already be registered (not confined to the Vacant edge)", c.where)
        skip = signal_conditions(ctx, f, am, "M-ADD", "add:", c)
        guard_held(ctx, f, am, c, "M-ADD", "add:")
        cont, brk = after_await_branch(f, am, c)
        okq = cont is not None and brk is not None and all(v.b not in mir.reachable(am, [brk]) for v in vins)
        ctx.ob("M-ADD", "failed-AddMatch-inserts-nothing", okq, "the `?` on AddMatch leaves before the entry is inserted" if okq else
               "a failed AddMatch is not propagated before the entry is inserted", c.where)
        if skip is not None:
            byp = any(v.b in mir.reachable(am, [vac], avoid={c.b} | skip) for v in vins)
            ctx.ob("M-ADD", "signal-rule-registered-before-insert", not byp,
                   "on the Vacant edge the insert is reached only through AddMatch or the not-a-bus / not-a-signal edges" if not byp else
                   "a new signal rule can be inserted on a bus without (or before) AddMatch", c.where)
    # no AddMatch on the occupied edge is implied by only-on-vacant-edge; also: no second bus call of any kind here
    other = [c for c in mir.calls(am) if c.is_("Connection::call_method") and c not in calls]
    ctx.ob("M-ADD", "no-other-bus-call", not other, "add_match makes no other method call" if not other else
           "add_match makes %d further method call(s)" % len(other), am.where)


# ------------------------------------------------------------------------------------------ remove_match
def zero_edges(rm):
    out = []
    eg = [c for c in mir.calls(rm) if c.is_("get", "get_mut") and "OccupiedEntry" in c.callee]
    eder = mir.derives(rm, {c.dest[0] for c in eg}, through_calls=False)
    for sbz, op, l, r, tt, ft, ln in mir.cmp_switches(rm):
        if op not in ("Eq", "Ne"):
            continue
        kl, kr = mir.resolve_const(rm, l), mir.resolve_const(rm, r)
        var = l if (kr is not None and kr.get("v") == 0) else (r if (kl is not None and kl.get("v") == 0) else None)
        if var is None:
            continue
        o = mir.origin(rm, var)
        if o[0] == "place" and o[1][0] in eder and o[1][1] and isinstance(o[1][1][-1], list) and o[1][1][-1][1] == 0 and o[1][1][-1][4] == "u64":
            out.append((sbz, tt if op == "Eq" else ft, ln))
    return out


def rule_remove(ctx, f, rm):
    E, sb, occ, vac = entry_switch(ctx, f, rm, "M-REMOVE", "remove:")
    calls = bus_calls(rm, "RemoveMatch")
    ctx.floor("M-REMOVE", "RemoveMatch calls in remove_match", len(calls), 1)
    zs = zero_edges(rm)
    ctx.floor("M-REMOVE", "tests of the stored count against 0", len(zs), 1)
    decs = [w for w in count_writes(rm)]
    rems = [c for c in mir.calls(rm) if c.is_("remove") and "OccupiedEntry" in c.callee]
    ctx.floor("M-REMOVE", "OccupiedEntry::remove in remove_match", len(rems), 1)
    keys = {c.dest[0] for c in mir.calls(rm) if c.is_("key") and "OccupiedEntry" in c.callee} | \
           {l for l in range(len(rm.locals)) if rm.locals[l][1] == "rule"}
    kder = mir.derives(rm, keys)
    for c in calls:
        check_names(ctx, rm, c, "RemoveMatch", kder)
        onz = any(L.edge_dominates(rm, sbz, zt, c.b) for sbz, zt, ln in zs)
        ctx.ob("M-REMOVE", "only-when-count-reaches-zero", onz, "RemoveMatch is issued only on the count == 0 edge" if onz else
               "RemoveMatch can be issued while other streams still use the rule (not confined to the count == 0 edge)", c.where)
        afterdec = bool(decs) and all(mir.block_dominates(rm, w[0], c.b) for w in decs)
        ctx.ob("M-REMOVE", "after-the-decrement", afterdec, "the decrement precedes RemoveMatch" if afterdec else "RemoveMatch is not preceded by the decrement", c.where)
        skip = signal_conditions(ctx, f, rm, "M-REMOVE", "remove:", c)
        guard_held(ctx, f, rm, c, "M-REMOVE", "remove:")
        if skip is not None:
            byp = any(v.b in mir.reachable(rm, [occ], avoid={c.b} | skip) for v in rems)
            ctx.ob("M-REMOVE", "signal-rule-unregistered-before-removal", not byp,
                   "the entry is dropped only after RemoveMatch (or over the not-a-bus / not-a-signal edges)" if not byp else
                   "the entry of a signal rule can be dropped on a bus without (or before) RemoveMatch", c.where)
    other = [c for c in mir.calls(rm) if c.is_("Connection::call_method") and c not in calls]
    ctx.ob("M-REMOVE", "no-other-bus-call", not other, "remove_match makes no other method call" if not other else
           "remove_match makes %d further method call(s)" % len(other), rm.where)


# ------------------------------------------------------------------------------------------ who
def rule_who(ctx, f):
    users = {"AddMatch": {}, "RemoveMatch": {}}
    for b in f.all_bodies("zbus"):
        for c in mir.calls(b):
            for s in L.call_strs(b, c):
                if s in users:
                    users[s].setdefault(b.root, c)
    allowed = {
        "AddMatch": {L.CONN + "::add_match": "the refcounted path", "zbus::fdo::dbus::DBusProxy::<'p>::add_match_rule": "generated public proxy method",
                     "zbus::fdo::dbus::DBusProxyBlocking::<'p>::add_match_rule": "generated public blocking proxy method"},
        "RemoveMatch": {L.CONN + "::remove_match": "the refcounted path", "zbus::fdo::dbus::DBusProxy::<'p>::remove_match_rule": "generated public proxy method",
                        "zbus::fdo::dbus::DBusProxyBlocking::<'p>::remove_match_rule": "generated public blocking proxy method"},
    }
    for m, d in users.items():
        ctx.floor("M-WHO", "users of the member string %s" % m, len(d), 1)
        for root, c in sorted(d.items()):
            ctx.ob("M-WHO", "%s-user:%s" % (m, root), root in allowed[m], allowed[m].get(root, "unexpected sender of %s" % m), c.where)
    for pm in ("add_match_rule", "remove_match_rule"):
        sites = [(b, c) for b in f.all_bodies("zbus") for c in mir.calls(b) if c.is_(pm) and "DBusProxy" in c.callee and "blocking" not in b.root]
        sites = [(b, c) for b, c in sites if "DBusProxy" not in b.root]
        ctx.ob("M-WHO", "no-internal-caller:DBusProxy::" + pm, not sites, "zbus itself never calls DBusProxy::%s (registrations bypassing the count)" % pm
               if not sites else "internal callers: %s" % [b.root for b, c in sites], sites[0][1].where if sites else "-")
    tables = {
        "Connection::remove_match": {
            L.CONN + "::queue_remove_match": "the task spawned for a dropped stream / proxy",
            "<%s as zbus::abstractions::async_drop::AsyncDrop>::async_drop" % L.MS: "explicit asynchronous drop",
            "zbus::proxy::ProxyInner::<'a>::subscribe_dest_owner_change": "lost OnceLock race: undo the extra add",
        },
        "Connection::queue_remove_match": {
            "<%s as core::ops::drop::Drop>::drop" % L.MS_INNER: "stream drop",
            "<%s as core::ops::drop::Drop>::drop" % PROXY_STATIC: "proxy drop",
        },
    }
    for callee, okset in tables.items():
        sites = L.callers_of(f, callee)
        ctx.floor("M-WHO", "callers of " + callee, len(sites), 2)
        for b, c in sites:
            ctx.ob("M-WHO", "caller:%s<-%s" % (callee.split("::")[-1], b.root), b.root in okset,
                   okset.get(b.root, "unexpected caller of %s" % callee), c.where)


# ------------------------------------------------------------------------------------------ callers of add_match
def rule_callers(ctx, f):
    sites = L.callers_of(f, "Connection::add_match")
    ctx.floor("M-CALLERS", "callers of add_match", len(sites), 3)
    for b, c in sites:
        rl = L.strip_clone(b, c.args[1])
        rname = mir.local_name(b, rl) or "_"
        key = "add_match-caller:%s:%s" % (b.root, rname)
        # (a) stream
        why = None
        rder = mir.derives(b, {c.dest[0]})
        for s in mir.calls_to(b, "MessageStream::for_subscription_channel"):
            if L.op_in(s.args[0], rder) and L.strip_clone(b, s.args[1]) == rl and mir.block_dominates(b, c.b, s.b):
                why = "receiver and rule go into a MessageStream (its drop removes the rule)"
        # (b) parked in the proxy cell
        if why is None:
            for s in mir.calls(b):
                if s.is_("set") and "OnceLock" in s.callee and L._arg_is_field(b, s.args[0], "dest_owner_change_match_rule") \
                        and L.strip_clone(b, s.args[1]) == rl and mir.block_dominates(b, c.b, s.b):
                    why = "rule parked in ProxyInnerStatic.dest_owner_change_match_rule (removed by its Drop; M-PROXY)"
        # (c) constant non-signal type
        if why is None:
            tys = []
            for m in mir.calls(b):
                if m.is_("msg_type") and "match_rule::builder::Builder" in m.callee and len(m.args) == 2 and L.op_in(c.args[1], mir.derives(b, {m.dest[0]})):
                    o = mir.origin(b, m.args[1])
                    tys.append(o[1][3] if o[0] == "rv" and o[1][0] == "agg" and o[1][2] == L.TYPE else None)
            if tys and all(t is not None and t != "Signal" for t in tys):
                why = "rule type is the constant %s: add_match never registers it on the bus" % "/".join(tys)
        ctx.ob("M-CALLERS", key, why is not None, why or
               "add_match(`%s`) registers a signal rule on the bus but nothing here pairs it with a removal: the returned receiver is used bare, "
               "so the registration (and the subscription count) outlives its subscriber" % rname, c.where)


# ------------------------------------------------------------------------------------------ proxy owner-change rule
def rule_proxy(ctx, f):
    sub = L.coroutine_of(ctx, f, "zbus::proxy::ProxyInner::<'a>::subscribe_dest_owner_change")
    adds = mir.calls_to(sub, "Connection::add_match")
    ctx.floor("M-PROXY", "add_match calls in subscribe_dest_owner_change", len(adds), 1)
    gets = [c for c in mir.calls(sub) if c.is_("get") and "OnceLock" in c.callee and L._arg_is_field(sub, c.args[0], "dest_owner_change_match_rule")]
    empty_edges = []
    for g in gets:
        for u in mir.calls(sub):
            if u.is_("is_some", "is_none") and "Option" in u.callee and L.op_in(u.args[0], mir.derives(sub, {g.dest[0]}, through_calls=False)):
                for sb, tt, ft in L.bool_switches_on_call(sub, u):
                    empty_edges.append((sb, ft if u.is_("is_some") else tt))
        for sb, t, place in L.place_switches(sub, g.dest[0]):
            arms = L.discr_arms(sub, f, sb)
            if arms and arms[1] == OPTION:
                empty_edges.append((sb, arms[2].get("None", arms[3])))
    for a in adds:
        ok = any(L.edge_dominates(sub, sb, t, a.b) for sb, t in empty_edges)
        ctx.ob("M-PROXY", "adds-only-when-cell-empty", ok, "the owner-change rule is added only while dest_owner_change_match_rule is unset" if ok else
               "the owner-change rule can be added again although the proxy already holds one", a.where)
        rl = L.strip_clone(sub, a.args[1])
        sets = [s for s in mir.calls(sub) if s.is_("set") and "OnceLock" in s.callee and L._arg_is_field(sub, s.args[0], "dest_owner_change_match_rule")]
        good = False
        for s in sets:
            if L.strip_clone(sub, s.args[1]) != rl or not mir.block_dominates(sub, a.b, s.b):
                continue
            for u in mir.calls(sub):
                if u.is_("is_err", "is_ok") and L.op_in(u.args[0], mir.derives(sub, {s.dest[0]}, through_calls=False)):
                    for sb, tt, ft in L.bool_switches_on_call(sub, u):
                        lost = tt if u.is_("is_err") else ft
                        won = ft if u.is_("is_err") else tt
                        rms = [r for r in mir.calls_to(sub, "Connection::remove_match") if L.strip_clone(sub, r.args[1]) == rl]
                        awaited = L.awaited_calls(f, sub)
                        if rms and all(L.edge_dominates(sub, sb, lost, r.b) and r.b in awaited for r in rms) and \
                                not any(r.b in mir.reachable(sub, [won]) for r in rms):
                            good = True
        ctx.ob("M-PROXY", "lost-race-removes-once", good, "the rule is stored in the cell; only when set() loses the race is the extra add undone by an awaited remove_match"
               if good else "set()/remove_match pairing of the owner-change rule not found", a.where)
    drop = ctx.one(f.find(name="drop", adt=PROXY_STATIC, trait="core::ops::drop::Drop"), "<ProxyInnerStatic as Drop>::drop", "M-PROXY")
    takes = [c for c in mir.calls(drop) if c.is_("take") and "OnceLock" in c.callee and L._arg_is_field(drop, c.args[0], "dest_owner_change_match_rule")]
    qs = mir.calls_to(drop, "Connection::queue_remove_match")
    ok = False
    for t in takes:
        der = mir.derives(drop, {t.dest[0]}, through_calls=False)
        for q in qs:
            if L.op_in(q.args[1], der):
                for sb, tm, place in L.place_switches(drop, t.dest[0]):
                    arms = L.discr_arms(drop, f, sb)
                    if arms and "Some" in arms[2] and mir.block_dominates(drop, arms[2]["Some"], q.b):
                        ok = True
    ctx.ob("M-PROXY", "drop-queues-removal-of-parked-rule", ok, "ProxyInnerStatic::drop take()s the parked rule and queues its removal" if ok else
           "ProxyInnerStatic::drop does not hand the parked rule to queue_remove_match", drop.where)
    touch = L.bodies_touching_field(f, "dest_owner_change_match_rule", PROXY_STATIC)
    okset = {"zbus::proxy::ProxyInner::<'a>::subscribe_dest_owner_change", "<%s as core::ops::drop::Drop>::drop" % PROXY_STATIC,
             "<%s as core::fmt::Debug>::fmt" % PROXY_STATIC, "zbus::proxy::builder::Builder::<'a, T>::build_internal"}
    for root, (b, ln) in sorted(touch.items()):
        ctx.ob("M-PROXY", "cell-user:" + root, root in okset or _only_constructs(b), "confirmed user of dest_owner_change_match_rule" if root in okset else
               "unexpected user of dest_owner_change_match_rule", L.wh(b, ln))


def _only_constructs(b):
    return False
