"""C36 — Well-known name bookkeeping follows the bus (DESIGN §5.C36).

  N-CODES    discriminants of fdo::RequestNameReply / ReleaseNameReply / RequestNameFlags equal the D-Bus
             specification's numeric codes (they are (de)serialized by repr)
  N-TABLE    in Connection::request_name_with_flags the match on the bus reply maps PrimaryOwner|AlreadyOwner to
             NameStatus::Owner, InQueue to NameStatus::Queued (each arm reaches the `registered_names.insert` on every
             normal path, with that status and the requested name), Exists to Err(NameTaken) with no insert reachable;
             the local pre-check maps a recorded Owner to AlreadyOwner and a recorded Queued to InQueue without calling
             the bus; monitor tasks only ever promote to Owner
  N-WHO      operations on the registered_names map (HashMap<WellKnownName, NameStatus>) are exactly the confirmed
             (function, method) table: request (get, insert), its two monitor tasks (remove / get_mut), release
             (remove), the object-server dispatcher (read only), Connection::new (construction)
  N-GUARD    the registered_names MutexGuard is among the locals saved across the `RequestName` await, is not moved
             out / dropped on any path before that await (the witness alone still lists a guard given to `drop()`),
             and is the receiver of the final insert; likewise for the `ReleaseName` await in release_name (R-AWAIT)
  N-SIGNAL   each monitor task's stream comes from the match rule of the right signal (the task that removes listens
             to NameLost, the task that promotes listens to NameAcquired), and its state change happens only on the
             Some(Ok(_)) edge of the awaited stream item
  N-RELEASE  release_name sends `ReleaseName` only on the edge where `remove` returned an entry, and returns
             Ok(false) only on the other edge
  N-SENDER   the monitor tasks' state changes are reached only through the "equal" edge of a comparison of the
             signal's Header::sender() with "org.freedesktop.DBus" (or MatchRule::matches checks well-known senders).
             EXPECTED TO FAIL on the unchanged tree (DESIGN §7 K-C36): one instance per monitor task.

The reply table is read from a `match` (switch on the discriminant of RequestNameReply / NameStatus); an `==` chain
instead of a match is not recognised and fails closed. Sender checks: see C32.

Not decided: the bus's behaviour, reply/serial matching in call_method, the content of the match rules beyond the
member name, task scheduling. Sender comparisons hidden in helper functions are not recognised (reported, fail closed).
"""
from .. import mir, awaits as aw
from .. import lib_asyncflow as af

CONN = "zbus::connection::Connection"
NS = "zbus::connection::NameStatus"
RNR = "zbus::fdo::dbus::RequestNameReply"
KV = "HashMap::<zbus_names::well_known_name::WellKnownName<'_>, zbus::connection::NameStatus>"
GUARD = "MutexGuard<'_, std::collections::hash::map::HashMap<zbus_names::well_known_name::WellKnownName"

META = {
    "technique": "switch-table extraction vs. spec table, writer-set table, coroutine-witness held-across-await, edge control",
    "level": ("Every path of request_name_with_flags / release_name and of the two monitor tasks is covered: reply code -> "
              "recorded status, who touches the map, the map lock spans the bus call, monitors react to the right signal "
              "and only to a received message. Whether that message really came from the bus driver is decided too and is "
              "absent on the unchanged tree (forged unicast NameLost/NameAcquired). Necessary conditions; the bus is assumed."),
}

# D-Bus specification, "Message Bus Messages": RequestName / ReleaseName
SPEC = {
    RNR: {"PrimaryOwner": 1, "InQueue": 2, "Exists": 3, "AlreadyOwner": 4},
    "zbus::fdo::dbus::ReleaseNameReply": {"Released": 1, "NonExistent": 2, "NotOwner": 3},
    "zbus::fdo::dbus::RequestNameFlags": {"AllowReplacement": 1, "ReplaceExisting": 2, "DoNotQueue": 4},
}
EXPECT = {"PrimaryOwner": {"Owner"}, "AlreadyOwner": {"Owner"}, "InQueue": {"Queued"}, "Exists": set()}
MUTATING = {"insert", "remove", "get_mut", "entry", "clear", "retain", "drain", "remove_entry", "extend",
            "values_mut", "iter_mut", "try_insert", "get_or_insert_with", "extract_if"}


def map_calls(body):
    return [c for c in mir.calls(body) if KV in c.fnargs or KV in c.callee]


def method(c):
    return c.callee.rsplit("::", 1)[-1]


def str_args(c):
    out = []
    for a in c.args:
        k = mir.op_const(a)
        if k is not None and isinstance(k.get("v"), str):
            out.append(k["v"])
    return out


def ns_aggs(body, blocks=None):
    out = []
    for b, i, pl, rv, ln in mir.assignments(body):
        if rv[0] == "agg" and rv[1] == "adt" and rv[2] == NS and (blocks is None or b in blocks):
            out.append((b, rv[3], ln))
    return out


def check_not_released(ctx, body, a, held, what):
    """the coroutine witness still lists a guard that was moved into drop() before the await (it is computed before
    drop elaboration): additionally require that no path moves / drops the guard before the await starts"""
    c0 = af.into_future_call(body, a)
    for ty, name, ln in held:
        for g in af.locals_named(body, name, "MutexGuard"):
            rel = c0 is None or af.released_before(body, g, c0.b)
            ctx.ob("N-GUARD", "guard-not-released-before-" + what, not rel,
                   "`%s` is neither moved nor dropped on any path before the %s await" % (name, what) if not rel else
                   "`%s` is moved out / dropped (e.g. drop(%s)) on a path before the %s await" % (name, name, what), a.where)


def check_codes(ctx, f):
    for adt, table in SPEC.items():
        a = f.adts.get(adt)
        ctx.need([a] if a else [], "ADT " + adt)
        got = {v["name"]: int(v["discr"]) for v in a["variants"]}
        ctx.ob("N-CODES", adt.rsplit("::", 1)[-1], got == table,
               "discriminants %s" % got if got == table else "discriminants %s differ from the D-Bus spec %s" % (got, table),
               "%s:%s" % (a.get("file"), a.get("line")))


def check_request(ctx, f):
    root = ctx.one(f.find(name="request_name_with_flags", adt=CONN, trait=""), "Connection::request_name_with_flags")
    req = ctx.one([b for b in f.children.get(root.id, []) if b.kind == "coroutine" and b.d.get("parent") == root.id],
                  "coroutine of request_name_with_flags")
    aws = aw.awaits(f, req)
    calls = [a for a in aws if a.call is not None and a.call.is_("call_method", "call_method_raw", "call")
             and "RequestName" in str_args(a.call)]
    calls += [a for a in aws if a.call is not None and a.call.is_("request_name") and "DBusProxy" in a.call.callee]
    ctx.floor("N-GUARD", "awaits of the RequestName bus call", len(calls), 1)
    inserts = [c for c in map_calls(req) if method(c) == "insert"]
    ctx.floor("N-TABLE", "registered_names.insert calls in request_name_with_flags", len(inserts), 1)

    # ---- N-GUARD
    for a in calls:
        held = a.holds(GUARD)
        ctx.ob("N-GUARD", "guard-live-across-RequestName", bool(held),
               "registered_names guard saved across the RequestName await: %s" % [n for t, n, l in held] if held else
               "no registered_names MutexGuard is live across the RequestName await (saved: %s)" % [n for t, n, l in a.saved],
               a.where)
        names = {n for t, n, l in held}
        check_not_released(ctx, req, a, held, "RequestName")
        after = [c for c in inserts if af.after_await(req, a, c.b)]
        ctx.floor("N-GUARD", "inserts after the RequestName reply", len(after), 1)
        for c in after:
            sl = af.backslice(req, c.args[0])
            recv = {mir.local_name(req, p[0]) for p in sl["places"]} - {None}
            ok = bool(recv & names)
            ctx.ob("N-GUARD", "insert-through-the-held-guard", ok,
                   "the insert after the reply goes through the guard held across the call (%s)" % sorted(recv & names) if ok else
                   "the insert after the reply uses a different guard than the one held across the call", c.where)

    # ---- N-TABLE: bus reply -> status
    tables = []
    for sb, place, adt, arms, other in mir.discr_switches(req, f, RNR):
        sl = af.backslice(req, ["c", [place[0], []]])
        if any(c.is_("deserialize", "request_name", "body") for c in sl["calls"]):
            tables.append((sb, arms, other))
    ctx.floor("N-TABLE", "matches on the RequestName reply", len(tables), 1)
    ins_blocks = {c.b for c in inserts}
    exits = set(mir.exits(req))
    for sb, arms, other in tables:
        where = "%s:%d" % (req.file, mir.term(req, sb)[5])
        for v in EXPECT:
            tgt = arms.get(v)
            if tgt is None:
                # covered by the otherwise edge?
                tgt = other if not mir.otherwise_is_unreachable(req, sb) else None
            if tgt is None:
                ctx.ob("N-TABLE", "reply-arm:" + v, False, "no arm for RequestNameReply::%s" % v, where)
                continue
            before = mir.reachable(req, [tgt], avoid=ins_blocks)
            allr = mir.reachable(req, [tgt])
            got = {n for b, n, ln in ns_aggs(req, before)}
            reaches_insert = bool(allr & ins_blocks)
            skips_insert = bool(before & exits)
            errs = [rv for b, i, pl, rv, ln in mir.assignments(req)
                    if b in before and rv[0] == "agg" and rv[2] == "zbus::error::Error" and rv[3] == "NameTaken"]
            if v == "Exists":
                ok = got == set() and not reaches_insert and bool(errs)
                detail = "Exists: no status recorded, Err(NameTaken) returned" if ok else \
                    "Exists arm: statuses %s, reaches insert=%s, NameTaken=%s" % (sorted(got), reaches_insert, bool(errs))
            else:
                ok = got == EXPECT[v] and reaches_insert and not skips_insert
                detail = "%s -> %s, then inserted" % (v, sorted(got)) if ok else \
                    "%s arm: statuses %s (expected %s), reaches insert=%s, can return without insert=%s" % (
                        v, sorted(got), sorted(EXPECT[v]), reaches_insert, skips_insert)
            ctx.ob("N-TABLE", "reply-arm:" + v, ok, detail, where)
        # the inserted value is the status chosen by the arms, the key is the requested name
        for c in inserts:
            if c.b not in mir.reachable(req, [sb]):
                continue
            vs = af.backslice(req, c.args[2]) if len(c.args) > 2 else None
            arm_aggs = {b for b, n, ln in ns_aggs(req, mir.reachable(req, [sb], avoid=ins_blocks))}
            vl = {p[0] for p in vs["places"]} if vs else set()
            src_ok = False
            for b, i, pl, rv, ln in mir.assignments(req):
                if b in arm_aggs and rv[0] == "agg" and rv[2] == NS and pl[0] in vl:
                    src_ok = True
            ctx.ob("N-TABLE", "insert-records-the-arm's-status", src_ok,
                   "the value inserted is the NameStatus built by the reply arms" if src_ok else
                   "the value inserted does not come from the reply arms", c.where)
            ks = af.param_source(f, req, c.args[1]) if len(c.args) > 1 else None
            kb = af.backslice(req, c.args[1]) if len(c.args) > 1 else None
            tried = kb is not None and any(x.is_("try_into", "to_owned", "clone", "into") for x in kb["calls"])
            ctx.ob("N-TABLE", "insert-key-is-the-requested-name", ks is not None or tried,
                   "the key inserted derives from the well_known_name argument", c.where)

    # ---- N-TABLE: local pre-check
    pre = []
    for sb, place, adt, arms, other in mir.discr_switches(req, f, NS):
        sl = af.backslice(req, ["c", [place[0], []]])
        if any(method(c) == "get" and c in map_calls(req) for c in sl["calls"]):
            pre.append((sb, arms, other))
    ctx.floor("N-TABLE", "pre-check on the recorded status", len(pre), 1)
    call_blocks = {a.call.b for a in calls}
    for sb, arms, other in pre:
        where = "%s:%d" % (req.file, mir.term(req, sb)[5])
        for st, rep in (("Owner", "AlreadyOwner"), ("Queued", "InQueue")):
            tgt = arms.get(st)
            if tgt is None:
                ctx.ob("N-TABLE", "recorded-arm:" + st, False, "no arm for a recorded NameStatus::%s" % st, where)
                continue
            reach = mir.reachable(req, [tgt])
            got = {rv[3] for b, i, pl, rv, ln in mir.assignments(req)
                   if b in reach and rv[0] == "agg" and rv[1] == "adt" and rv[2] == RNR}
            ok = got == {rep} and not (reach & call_blocks) and not (reach & ins_blocks)
            ctx.ob("N-TABLE", "recorded-arm:" + st, ok,
                   "recorded %s -> Ok(%s) without calling the bus" % (st, rep) if ok else
                   "recorded %s arm: replies %s, reaches bus call=%s, reaches insert=%s" % (
                       st, sorted(got), bool(reach & call_blocks), bool(reach & ins_blocks)), where)
    return root, req


def check_monitors(ctx, f, root, req):
    mons = [b for b in f.children.get(root.id, []) if b.kind == "coroutine" and b.id != req.id]
    alt = af.matches_checks_wellknown_sender(f)
    seen_kinds = {}
    for m in mons:
        ops = [c for c in map_calls(m) if method(c) in MUTATING]
        if not ops:
            continue
        aws = aw.awaits(f, m)
        nexts = [a for a in aws if a.call is not None and a.call.is_("next") and a.call.args]
        ctx.floor("N-SIGNAL", "stream awaits in " + m.id, len(nexts), 1)
        # which signal does the stream carry: constants behind the captured stream in the parent
        members = set()
        for a in nexts:
            sl = af.backslice(m, a.call.args[0])
            for pl in sl["places"]:
                if pl[0] == 1 and pl[1] and isinstance(pl[1][0], list) and str(pl[1][0][3]).startswith("upvar:"):
                    parent = f.byid(m.d.get("parent"))
                    cons = [rv for b, i, p2, rv, ln in mir.assignments(parent)
                            if rv[0] == "agg" and rv[1] == "coroutine" and rv[2] == m.id] if parent else []
                    for rv in cons:
                        idx = pl[1][0][1]
                        if idx < len(rv[4]):
                            ps = af.backslice(parent, rv[4][idx])
                            for k in ps["consts"]:
                                if k.get("v") in ("NameLost", "NameAcquired", "NameOwnerChanged"):
                                    members.add(k["v"])
        kinds = {method(c) for c in ops}
        aggs = {n for b, n, ln in ns_aggs(m)}
        if kinds <= {"remove", "remove_entry"}:
            want, role = {"NameLost"}, "lost"
            tbl_ok = aggs == set()
        else:
            want, role = {"NameAcquired"}, "acquired"
            tbl_ok = kinds <= {"get_mut"} and aggs == {"Owner"}
        seen_kinds[role] = seen_kinds.get(role, 0) + 1
        ctx.ob("N-SIGNAL", "monitor-listens-to:" + role, members == want,
               "the task that %s listens to %s" % ("removes the name" if role == "lost" else "promotes to Owner", sorted(want))
               if members == want else "monitor performing %s listens to %s (expected %s)" % (sorted(kinds), sorted(members), sorted(want)),
               m.where)
        ctx.ob("N-TABLE", "monitor-effect:" + role, tbl_ok,
               "monitor effect: %s, statuses built %s" % (sorted(kinds), sorted(aggs)), m.where)
        # message locals: results of the stream awaits
        seeds = {l for a in nexts for b, i, l in af.ready_points(m, a)}
        msg_locals = mir.derives(m, seeds, through_calls=False) if seeds else set()
        checks = af.driver_checks(m, msg_locals)
        bad_sender = []
        for c in ops:
            # Some(Ok(_)) control
            some_ok = ok_ok = False
            for sb, place, adt, arms, other in mir.discr_switches(m, f):
                if place[0] not in msg_locals:
                    continue
                # core::option::Option { None = 0, Some = 1 }, core::result::Result { Ok = 0, Err = 1 }
                s_t = arms.get("Some", arms.get("1"))
                o_t = arms.get("Ok", arms.get("0"))
                if adt.endswith("option::Option") and s_t is not None and af.edge_dominates(m, sb, s_t, c.b):
                    some_ok = True
                if adt.endswith("result::Result") and o_t is not None and af.edge_dominates(m, sb, o_t, c.b):
                    ok_ok = True
            ctx.ob("N-SIGNAL", "change-only-on-received-signal:" + role, some_ok and ok_ok,
                   "the state change is reached only on the Some(Ok(_)) edge of the stream item" if (some_ok and ok_ok) else
                   "the state change can be reached without a successfully received signal (Some edge=%s, Ok edge=%s)" % (some_ok, ok_ok),
                   c.where)
            ok = alt or any(af.edge_dominates(m, sb, eq_t, c.b) for sb, eq_t, ne_t in checks)
            if not ok:
                bad_sender.append(c.where)
        ctx.ob("N-SENDER", "driver-sender-checked:" + m.id, not bad_sender,
               "state changes of this monitor are preceded by a driver-sender check" if not bad_sender else
               "registered_names is changed on receipt of a %s signal whose sender was never compared with %s (a peer can "
               "send the signal unicast; MatchRule::matches does not check well-known senders) at %s" % (
                   "/".join(sorted(want)), af.DRIVER, ", ".join(bad_sender)), (bad_sender or [m.where])[0])
    ctx.floor("N-SIGNAL", "monitor tasks removing on NameLost", seen_kinds.get("lost", 0), 1)
    ctx.floor("N-SIGNAL", "monitor tasks promoting on NameAcquired", seen_kinds.get("acquired", 0), 1)


def check_release(ctx, f):
    root = ctx.one(f.find(name="release_name", adt=CONN, trait=""), "Connection::release_name")
    rel = ctx.one([b for b in f.children.get(root.id, []) if b.kind == "coroutine"], "coroutine of release_name")
    aws = aw.awaits(f, rel)
    calls = [a for a in aws if a.call is not None and a.call.is_("call_method", "call_method_raw", "call")
             and "ReleaseName" in str_args(a.call)]
    calls += [a for a in aws if a.call is not None and a.call.is_("release_name") and "DBusProxy" in a.call.callee]
    ctx.floor("N-RELEASE", "awaits of the ReleaseName bus call", len(calls), 1)
    for a in calls:
        held = a.holds(GUARD)
        ctx.ob("N-GUARD", "guard-live-across-ReleaseName", bool(held),
               "registered_names guard saved across the ReleaseName await" if held else
               "no registered_names MutexGuard is live across the ReleaseName await", a.where)
        check_not_released(ctx, rel, a, held, "ReleaseName")
    removes = [c for c in map_calls(rel) if method(c) == "remove"]
    ctx.floor("N-RELEASE", "registered_names.remove in release_name", len(removes), 1)
    for r in removes:
        der = mir.derives(rel, {r.dest[0]}, through_calls=False)
        some_edges, none_edges = [], []
        for sb, cc, tt, ft, neg in mir.call_bool_switches(rel):
            if cc.is_("is_none", "is_some") and cc.args and (mir.op_local(cc.args[0]) in der or
                                                            r.dest[0] in {p[0] for p in af.backslice(rel, cc.args[0])["places"]}):
                if tt is None or ft is None or tt == ft:
                    continue
                if cc.is_("is_none"):
                    some_edges.append((sb, ft)); none_edges.append((sb, tt))
                else:
                    some_edges.append((sb, tt)); none_edges.append((sb, ft))
        for sb, place, adt, arms, other in mir.discr_switches(rel, f):
            if place[0] in der and adt.endswith("option::Option") and not place[1]:
                s_t = arms.get("Some", arms.get("1", other))
                n_t = arms.get("None", arms.get("0", other))
                if s_t is not None and n_t is not None and s_t != n_t:
                    some_edges.append((sb, s_t)); none_edges.append((sb, n_t))
        ctx.floor("N-RELEASE", "tests of remove's result", len(some_edges), 1)
        for a in calls:
            ok = any(af.edge_dominates(rel, sb, t, a.call.b) for sb, t in some_edges)
            ctx.ob("N-RELEASE", "ReleaseName-only-if-recorded", ok,
                   "ReleaseName is sent only when the name was recorded" if ok else
                   "ReleaseName can be sent although the name was not recorded", a.where)
        n = 0
        for b, i, pl, rv, ln in mir.assignments(rel):
            if pl[0] == mir.RET and not pl[1] and rv[0] == "agg" and rv[3] == "Ok" and rv[4]:
                k = mir.resolve_const(rel, rv[4][0])
                if k is not None and k.get("v") in (False, 0):
                    n += 1
                    ok = any(af.edge_dominates(rel, sb, t, b) for sb, t in none_edges)
                    ctx.ob("N-RELEASE", "Ok(false)-only-if-not-recorded", ok,
                           "Ok(false) is returned only when the name was not recorded" if ok else
                           "Ok(false) can be returned for a recorded name", "%s:%d" % (rel.file, ln))
        ctx.floor("N-RELEASE", "Ok(false) returns", n, 1)
    return root


def check_who(ctx, f, req_root, rel_root):
    allowed = {
        (req_root.id, "get"): "pre-check under the guard",
        (req_root.id, "insert"): "record the bus reply / p2p",
        (req_root.id, "remove"): "NameLost monitor",
        (req_root.id, "get_mut"): "NameAcquired monitor",
        (rel_root.id, "remove"): "release",
        (CONN + "::start_object_server", "is_empty"): "dispatcher destination check (read only)",
        (CONN + "::start_object_server", "contains_key"): "dispatcher destination check (read only)",
        (CONN + "::new", "new"): "construction",
    }
    n = 0
    for body in f.all_bodies("zbus"):
        for c in map_calls(body):
            n += 1
            key = (body.root, method(c))
            ctx.ob("N-WHO", "map-op:%s:%s" % key, key in allowed,
                   allowed.get(key, "unexpected operation on the registered_names map"), c.where)
    ctx.floor("N-WHO", "operations on the registered_names map", n, 5)
    # every function touching the field
    touch_allowed = {req_root.id, rel_root.id, CONN + "::start_object_server", CONN + "::new",
                     "<zbus::connection::ConnectionInner as core::fmt::Debug>::fmt"}
    for body in f.all_bodies("zbus"):
        hit = None
        for b, i, pl, rv, ln in mir.assignments(body):
            for op in mir.rvalue_operands(rv) + [["c", pl]]:
                p = mir.op_place(op)
                if p and any(isinstance(x, list) and x[0] == "." and x[2] == "registered_names" and
                             x[3] == "zbus::connection::ConnectionInner" for x in p[1]):
                    hit = ln
            if rv[0] == "agg" and rv[1] == "adt" and rv[2] == "zbus::connection::ConnectionInner":
                hit = ln
        if hit is not None:
            ctx.ob("N-WHO", "field-user:" + body.root, body.root in touch_allowed,
                   "confirmed user of ConnectionInner.registered_names" if body.root in touch_allowed else
                   "unexpected user of ConnectionInner.registered_names", "%s:%d" % (body.file, hit))
    # NameStatus values are built only by the request function family
    for body in f.all_bodies("zbus"):
        for b, nme, ln in ns_aggs(body):
            ctx.ob("N-WHO", "status-built-in:" + body.root, body.root == req_root.id,
                   "NameStatus::%s built in %s" % (nme, body.id), "%s:%d" % (body.file, ln))


def run(ctx):
    ctx.explanation = ("MIR rules over zbus (K1): numeric reply/flag codes equal the spec; the reply match of "
                       "request_name_with_flags records Owner/Queued/nothing as the spec demands and always inserts on the "
                       "granted arms; the recorded status short-cuts to AlreadyOwner/InQueue; the map is touched only by the "
                       "confirmed (function, method) table; the map guard is saved across the RequestName and ReleaseName "
                       "awaits; monitor tasks listen to the right signal, act only on Some(Ok(_)), and must be preceded by a "
                       "driver-sender check; release_name calls the bus only for a recorded name.")
    ctx.not_decided = ("behaviour of the bus and of call_method's reply matching; match-rule contents beyond the member "
                       "name; sender comparisons hidden in helper functions (reported, fail closed).")
    f = ctx.facts("K1")
    check_codes(ctx, f)
    root, req = check_request(ctx, f)
    check_monitors(ctx, f, root, req)
    rel_root = check_release(ctx, f)
    check_who(ctx, f, root, rel_root)
