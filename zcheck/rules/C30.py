"""C30 — Object server use from handlers and right after setup does not hang (DESIGN §5.C30).

  NO-TREE-GUARD     at no suspension point of zbus code is a guard of the object tree lock
                    (RwLock{Read,Write,UpgradableRead}Guard<Node>) among the locals rustc saves across the
                    await while the awaited future runs user interface code: the futures of
                    Interface::{get,get_all,set_mut}, the `DispatchResult::Async` future of
                    Interface::{call,call_mut,set}, or (transitively) a zbus `async fn` that awaits one of
                    those.  A handler that calls `ObjectServer::{at,remove}` (tree write lock) would never
                    return.  One instance per (acquiring function, awaited future) pair; a tree-lock
                    acquisition under which nothing is awaited is an instance that holds.  (R-AWAIT)
  NO-IFACE-LOCK-UNDER-TREE
                    same suspension points: the awaited future must not (transitively) acquire an interface
                    instance lock (`RwLock<dyn Interface>::{read,write}`).  A `&mut self` handler holds that
                    lock for its whole run; if it asks for the tree write lock while another task waits for
                    the instance lock under a tree read guard, neither proceeds (lock-order inversion).
                    Added while reading; reported under its own rule name so it can be triaged separately.
  TREE-WHO          the tree lock (`RwLock<Node>::{read,write}`) is acquired only in zbus functions this
                    module analyses (every acquisition is inside a coroutine so that R-AWAIT sees it).
  IFACE-LOCK-MODE   the `&self` entry points of Interface (call, get, get_all, set) are invoked through a *read*
                    guard of the instance lock, call_mut / set_mut through the write guard (a `&self` handler may
                    re-enter its own interface through ObjectServer::interface(), which takes the read lock)
  START-EVENT       every way of reaching `Connection::start_object_server` (through parameter passing and
                    closure captures, at most 4 frames) either passes `Some(event)` or is dead because the
                    `start` flag on that chain is the constant `false`.  A chain that starts the dispatcher
                    task with `None` hands the server to the caller before the dispatcher has subscribed to
                    method calls.  Instance = the outermost function of the chain.
  START-AWAITED     where `Some(event)` is passed: the event comes from `Event::new`, a listener is taken
                    (`Event::listen`) before the start call, and every path from the start call to a normal
                    return or to `init_socket_reader` awaits that listener.  (R-ORDER)
  START-NOTIFY      inside the dispatcher task: `Event::notify` happens only after the `add_match` await,
                    and the message loop (`StreamExt::next`) is reached from the `Some(started_event)` edge
                    only through `notify`.  (R-ORDER)

Thorough tier repeats everything on K3 (tokio backend: tokio::sync::RwLock guards), keys prefixed `K3:`.

Dropped / not decided: whether an arbitrary third-party future awaited under the tree guard can run
interface code (only resolved calls and the DispatchResult future are classified; a future of unknown origin
awaited under the tree guard is reported as a violation, fail closed); fairness of async-lock.
"""
import re
from .. import mir, awaits as aw

NODE = "zbus::object_server::node::Node"
IFACE_TRAIT = "zbus::object_server::interface::Interface"
DYN_IFACE = "dyn " + IFACE_TRAIT
DISPATCH_ASYNC = "zbus::object_server::interface::dispatch_result::DispatchResult::Async"
CONN = "zbus::connection::Connection"
ASYNC_IFACE_METHODS = ("get", "get_all", "set_mut")

META = {
    "technique": "held-across-await query on rustc coroutine layouts + interprocedural constant tracing of the started-event argument",
    "level": ("Decides, for every suspension point rustc computed in zbus, that no object-tree guard is saved across an await "
              "of user interface code or of an interface instance lock (directly or through zbus async fns), and that every "
              "call chain reaching the dispatcher start passes an event that the caller awaits before returning the "
              "connection. Not decided: scheduling/fairness of the third-party lock, futures of unknown provenance "
              "(reported, fail closed), deadlocks that involve only user locks."),
}


# ------------------------------------------------------------------------------------------- helpers
def is_tree_guard(ty):
    # async_lock::rwlock::RwLockReadGuard<'_, Node> (K1) / tokio::sync::rwlock::read_guard::RwLockReadGuard<'_, Node> (K3)
    if ty.startswith("impl ") or "Future<" in ty:
        return False
    return re.search(r"RwLock\w*Guard<[^<>]*" + re.escape(NODE) + ">", ty) is not None


def rwlock_target(c):
    """'node' / 'iface' / None for a call acquiring an async RwLock"""
    if not (c.is_("read", "write", "upgradable_read", "try_read", "try_write", "read_arc", "write_arc")
            and "rwlock::RwLock" in c.callee):
        return None
    tys = " ".join(c.c.get("argtys") or []) + " " + " ".join(c.c.get("gargs") or [])
    if DYN_IFACE in tys:
        return "iface"
    if NODE in tys:
        return "node"
    return None


def short(name):
    return name.replace("zbus::object_server::", "").replace("zbus::", "")


class Classifier:
    """What an awaited future may do: {'code'} runs interface code, {'lock'} acquires an interface
    instance lock, {'unknown'} cannot be classified."""

    def __init__(self, f):
        self.f = f
        self.memo = {}

    def coroutine_children(self, fn_id):
        return [b for b in self.f.children.get(fn_id, []) if b.kind == "coroutine" and b.d.get("parent") == fn_id]

    def of_coroutine(self, co, stack=()):
        if co.id in self.memo:
            return self.memo[co.id]
        if co.id in stack:
            return set()
        eff = set()
        for a in aw.awaits(self.f, co):
            eff |= self.of_await(co, a, stack + (co.id,)) - {"unknown"}
        self.memo[co.id] = eff
        return eff

    def of_await(self, co, a, stack=()):
        """effects of the future awaited at `a`, with a description"""
        if a.call is not None:
            return self.of_call(co, a.call, stack)
        o = a.origin
        if o is None:
            return {"unknown"}
        if o[0] in ("place", "ref"):
            for p in o[1][1]:
                if isinstance(p, list) and p[0] == "." and p[3] == DISPATCH_ASYNC:
                    return {"code"}
            # a local holding a coroutine / future built earlier
            return {"unknown"}
        if o[0] == "rv" and o[1][0] == "agg" and o[1][1] == "coroutine":
            inner = self.f.byid(o[1][2])
            if inner is not None:
                return self.of_coroutine(inner, stack)
        return {"unknown"}

    def of_call(self, co, c, stack):
        tgt = rwlock_target(c)
        if tgt == "iface":
            return {"lock"}
        if tgt == "node":
            return set()
        if c.declared.startswith(IFACE_TRAIT + "::") or (" as " + IFACE_TRAIT + ">::") in c.callee:
            m = c.callee.rsplit("::", 1)[-1]
            if m in ASYNC_IFACE_METHODS or c.c.get("resk") == "virtual":
                return {"code"}
        callee = c.c.get("res") or c.c.get("fn") or ""
        if callee.startswith("zbus::") or callee.startswith("<zbus::"):
            kids = self.coroutine_children(callee)
            eff = set()
            for k in kids:
                eff |= self.of_coroutine(k, stack)
            if not kids:
                body = self.f.byid(callee)
                if body is None:
                    # unresolved zbus trait method (generic): cannot see the future
                    return {"unknown"}
                # a plain fn returning a future: any coroutine nested in it may be the returned future
                for k in self.f.children.get(callee, []):
                    if k.kind == "coroutine":
                        eff |= self.of_coroutine(k, stack)
            # futures passed in as arguments are polled by the callee
            return eff | self.of_args(co, c, stack)
        # third-party leaf future (async-lock, event-listener, ...): may poll futures handed to it
        return self.of_args(co, c, stack)

    def of_args(self, co, c, stack):
        eff = set()
        for a in c.args:
            o = mir.origin(co, a)
            if o[0] == "call" and o[1] is not c and o[1].b != c.b:
                cal = o[1]
                if cal.declared.startswith(IFACE_TRAIT + "::") and cal.callee.rsplit("::", 1)[-1] in ASYNC_IFACE_METHODS:
                    eff.add("code")
            elif o[0] in ("place", "ref"):
                for p in o[1][1]:
                    if isinstance(p, list) and p[0] == "." and p[3] == DISPATCH_ASYNC:
                        eff.add("code")
        return eff


def into_future_block(body, a):
    for c in mir.calls(body):
        if c.c["sp"] == a.sp and c.is_("into_future"):
            return c.b
    return None


# ------------------------------------------------------------------------------------------- guard rules
def guard_rules(ctx, f, tag=""):
    cl = Classifier(f)
    acquirers = {}
    for b in f.all_bodies("zbus"):
        for c in mir.calls(b):
            if rwlock_target(c) == "node":
                acquirers.setdefault(b.id, (b, []))[1].append(c)
    ctx.floor("TREE-WHO", tag + "functions acquiring the object tree lock", len(acquirers), 4)
    for bid, (b, cs) in sorted(acquirers.items()):
        ctx.ob("TREE-WHO", tag + "acquirer-is-coroutine:" + b.root, b.kind == "coroutine",
               "tree lock acquired in %s (%s); R-AWAIT sees guards only in coroutines" % (bid, b.kind), cs[0].where)

    n_points = 0
    for b in f.all_bodies("zbus"):
        if b.kind != "coroutine":
            continue
        under = []
        for a in aw.awaits(f, b):
            held = [s for s in a.saved if s[1] != "__awaitee" and is_tree_guard(s[0])]
            if held:
                under.append((a, held))
        if not under:
            if b.id in acquirers:
                ctx.ob("NO-TREE-GUARD", tag + "%s:nothing-awaited-under-guard" % b.root, True,
                       "tree guard acquired and released without an await in between", b.where)
                ctx.ob("NO-IFACE-LOCK-UNDER-TREE", tag + "%s:nothing-awaited-under-guard" % b.root, True,
                       "tree guard acquired and released without an await in between", b.where)
            continue
        for a, held in under:
            n_points += 1
            eff = cl.of_await(b, a)
            if a.call is not None:
                tgt = rwlock_target(a.call)
                what = short(a.call.callee)
                if tgt == "iface":
                    what = "RwLock<dyn Interface>::" + a.call.callee.rsplit("::", 1)[-1]
            else:
                what = "DispatchResult::Async future" if "code" in eff else "future of unknown origin"
            gname = ",".join(sorted({"%s: %s" % (h[1], (re.search(r"RwLock\w*Guard", h[0]) or [h[0]])[0]) for h in held}))
            key = "%s%s:await:%s" % (tag, b.root, what)
            ctx.ob("NO-TREE-GUARD", key, "code" not in eff and "unknown" not in eff,
                   ("tree guard (%s) is saved across an await of %s, which %s" % (
                       gname, what, "runs user interface code" if "code" in eff else "cannot be classified"))
                   if ("code" in eff or "unknown" in eff) else
                   "awaited under the tree guard (%s): %s — runs no interface code" % (gname, what), a.where)
            ctx.ob("NO-IFACE-LOCK-UNDER-TREE", key, "lock" not in eff,
                   "tree guard (%s) is saved across an await of %s, which waits for an interface instance lock "
                   "(a `&mut self` handler holding that lock and calling ObjectServer::at/remove deadlocks with this task)" % (gname, what)
                   if "lock" in eff else "awaited under the tree guard (%s): %s — takes no interface lock" % (gname, what), a.where)
    ctx.floor("NO-TREE-GUARD", tag + "tree-lock acquisition sites classified", len(acquirers), 4)
    return n_points


# ------------------------------------------------------------------------------------------- start rules
def param_index(body, local):
    return local if 0 < local <= body.d["argc"] else None


def callers_of(f, body):
    """[(caller body, [operand per parameter index 1..])] for fn items and closures"""
    out = []
    if body.kind in ("Closure", "closure"):
        for b in f.all_bodies("zbus"):
            for bi, i, pl, rv, ln in mir.assignments(b):
                if rv[0] == "agg" and rv[1] == "closure" and rv[2] == body.id:
                    out.append((b, ("upvars", rv[4])))
        return out
    for b in f.all_bodies("zbus"):
        for c in mir.calls(b):
            if (c.c.get("res") or c.c.get("fn")) == body.id:
                out.append((b, ("args", c.args)))
    return out


def eval_op(f, frames, depth, op):
    """Evaluate an operand in frame `depth` of `frames` ([(body, binding)], innermost first).
    -> ('const', v) | ('none',) | ('some', body, payload_op) | ('param', depth) | ('unknown', why)"""
    body, binding = frames[depth]
    k = mir.resolve_const(body, op)
    if k is not None and "v" in k:
        return ("const", k["v"])
    o = mir.origin(body, op)
    if o[0] == "const":
        return ("const", o[1].get("v")) if "v" in o[1] else ("unknown", "constant without value")
    if o[0] == "rv" and o[1][0] == "agg" and o[1][2] == "core::option::Option":
        if o[1][3] == "None":
            return ("none",)
        if o[1][3] == "Some":
            return ("some", body, o[1][4][0])
    if o[0] == "place":
        l, proj = o[1]
        # closure upvar: _1.name
        if l == 1 and proj and isinstance(proj[-1], list) and proj[-1][0] == "." and str(proj[-1][3]).startswith("upvar:"):
            return ("param", depth, ("upvar", proj[-1][1]))
        if not proj and param_index(body, l):
            return ("param", depth, ("arg", l))
    return ("unknown", "origin %s" % (o[0],))


def needs_params(f, body, site, evt_op):
    """parameters/upvars of `body` that the event operand or a gating flag depend on"""
    deps = []
    v = eval_op(f, [(body, None)], 0, evt_op)
    if v[0] == "param":
        deps.append(("evt", v[2]))
    for sb, t in mir.switches(body):
        if t[2] != "bool":
            continue
        sv = eval_op(f, [(body, None)], 0, t[1])
        if sv[0] != "param":
            continue
        tt, ft = mir.bool_switch_edges(t)
        live_t = site.b in mir.reachable(body, [tt]) if tt is not None else False
        live_f = site.b in mir.reachable(body, [ft]) if ft is not None else False
        if live_t != live_f:
            deps.append(("gate", sv[2], live_t))
    return deps


def start_rules(ctx, f, tag=""):
    start = ctx.one(f.find(name="start_object_server", adt=CONN, trait=""), "Connection::start_object_server")
    sites = []
    for b in f.all_bodies("zbus"):
        for c in mir.calls(b):
            if (c.c.get("res") or c.c.get("fn")) == start.id:
                sites.append((b, c))
    ctx.floor("START-EVENT", tag + "call sites of start_object_server", len(sites), 1)

    results = []   # (outermost fn, verdict, detail, where, some_info)

    def walk(body, evt, gates, chain, where, depth):
        """evt: evaluated event value or ('param', spec); gates: [(spec, live_when_true)] pending in this frame"""
        pend_evt = evt if evt[0] == "param" else None
        pend_g = list(gates)
        if pend_evt is None and not pend_g:
            results.append((chain, evt, where))
            return
        if depth >= 4:
            results.append((chain, ("unknown", "call chain deeper than 4 frames"), where))
            return
        cs = callers_of(f, body)
        if not cs:
            results.append((chain, ("unknown", "no caller of %s supplies the value" % body.id), where))
            return
        for cb, (kind, ops) in cs:
            def supplied(spec):
                if spec[0] == "upvar" and kind == "upvars":
                    return ops[spec[1]] if spec[1] < len(ops) else None
                if spec[0] == "arg" and kind == "args":
                    return ops[spec[1] - 1] if spec[1] - 1 < len(ops) else None
                return None
            dead = False
            new_gates = []
            for spec, live_when_true in pend_g:
                op = supplied(spec)
                gv = eval_op(f, [(cb, None)], 0, op) if op is not None else ("unknown", "flag not supplied")
                if gv[0] == "const" and isinstance(gv[1], (bool, int)):
                    if bool(gv[1]) != live_when_true:
                        dead = True
                elif gv[0] == "param":
                    new_gates.append((gv[2], live_when_true))
                # unknown flag value: the chain may be live
            new_evt = evt
            if pend_evt is not None:
                op = supplied(pend_evt[2])
                new_evt = eval_op(f, [(cb, None)], 0, op) if op is not None else ("unknown", "event not supplied")
            new_chain = chain + [cb.id]
            if dead:
                results.append((new_chain, ("dead",), cb.where))
                continue
            walk(cb, new_evt, new_gates, new_chain, cb.where, depth + 1)

    for b, c in sites:
        evt_op = c.args[1] if len(c.args) > 1 else None
        ctx.need([evt_op] if evt_op is not None else [], "started_event argument of start_object_server")
        deps = needs_params(f, b, c, evt_op)
        evt = eval_op(f, [(b, None)], 0, evt_op)
        gates = [(d[1], d[2]) for d in deps if d[0] == "gate"]
        walk(b, evt, gates, [b.id], c.where, 0)
        if evt[0] == "some":
            awaited_rule(ctx, f, b, c, evt, tag)

    n_some = 0
    for chain, val, where in results:
        top = f.byid(chain[-1]).root if f.byid(chain[-1]) is not None else chain[-1]
        via = " <- ".join(short(x) for x in chain)
        key = tag + top
        if val[0] == "dead":
            ctx.ob("START-EVENT", key + ":not-started-here", True,
                   "chain %s passes the constant start=false: the dispatcher is not started on this chain" % via, where)
        elif val[0] == "some":
            n_some += 1
            ctx.ob("START-EVENT", key, True, "chain %s passes Some(event)" % via, where)
        elif val[0] == "none":
            ctx.ob("START-EVENT", key, False,
                   "chain %s starts the dispatcher task with started_event = None: the ObjectServer is handed to the caller "
                   "before the dispatcher has subscribed to method calls (calls arriving in between are dropped)" % via, where)
        else:
            ctx.ob("START-EVENT", key, False, "chain %s: started_event cannot be resolved (%s)" % (via, val[1:]), where)
    ctx.floor("START-EVENT", tag + "chains passing Some(event)", n_some, 1)

    notify_rule(ctx, f, start, tag)
    reader_after_start(ctx, f, "START-AWAITED", tag)


def awaited_rule(ctx, f, body, call, evt, tag):
    key = tag + body.root
    payload = evt[2]
    o = mir.origin(body, payload)
    ev_local = None
    ok_new = False
    if o[0] == "call" and o[1].is_("new") and "event_listener::Event" in o[1].callee:
        ok_new = True
        ev_local = o[1].dest[0]
    elif o[0] == "place":
        ev_local = o[1][0]
        d = mir.defs_of(body, ev_local)
        ok_new = bool(d) and all(x[0] == "call" and x[1].is_("new") and "event_listener::Event" in x[1].callee for x in d)
    ctx.ob("START-AWAITED", key + ":event-is-fresh", ok_new,
           "the event passed to start_object_server comes from Event::new" if ok_new else "event of unknown provenance", call.where)
    if ev_local is None:
        return
    # listeners taken from that event
    listens = []
    for c in mir.calls(body):
        if c.is_("listen") and "event_listener::Event" in c.callee and c.args:
            ro = mir.origin(body, c.args[0])
            if ro[0] in ("ref", "place") and ro[1][0] == ev_local:
                listens.append(c)
    before = [c for c in listens if mir.block_dominates(body, c.b, call.b) and c.b != call.b]
    ctx.ob("START-AWAITED", key + ":listen-before-start", bool(before),
           "Event::listen on the started event dominates the start call" if before else
           "no listener is registered on the started event before start_object_server is called "
           "(a notification sent before `listen` is lost)", call.where)
    if not before:
        return
    # awaits of such a listener
    pts = set()
    if body.kind == "coroutine":
        for a in aw.awaits(f, body):
            if a.call is not None and any(a.call.b == l.b for l in before):
                ib = into_future_block(body, a)
                if ib is not None:
                    pts.add(ib)
    ctx.ob("START-AWAITED", key + ":listener-awaited", bool(pts),
           "the listener is awaited" if pts else "the listener taken before the start call is never awaited", call.where)
    if not pts:
        return
    nxt = [s for s in mir.succs(body)[call.b]]
    reach = mir.reachable(body, nxt, avoid=pts)
    rets = [r for r in mir.exits(body) if r in reach]
    ctx.ob("START-AWAITED", key + ":await-before-return", not rets,
           "every path from the start call to a normal return awaits the listener" if not rets else
           "a path from start_object_server to the return skips the listener await", call.where)
    readers = [c for c in mir.calls(body) if c.is_("init_socket_reader")]
    for r in readers:
        # only constrained when the reader start is reachable from the start call at all
        if r.b in mir.reachable(body, nxt):
            ctx.ob("START-AWAITED", key + ":await-before-socket-reader", r.b not in reach,
                   "the socket reader is started only after the dispatcher reported its subscription" if r.b not in reach else
                   "init_socket_reader is reachable from start_object_server without awaiting the listener", r.where)


def reader_after_start(ctx, f, rule, tag=""):
    """The socket reader of a freshly built connection is started only after every `start_object_server` of the same
    constructor: a method call read before the dispatcher has subscribed goes to the unfiltered stream only and is
    never answered (seeded change C26b moved `init_socket_reader` above the object-server block)."""
    start = ctx.one(f.find(name="start_object_server", adt=CONN, trait=""), "Connection::start_object_server")
    n = 0
    for b in f.all_bodies("zbus"):
        readers = [c for c in mir.calls(b) if c.is_("init_socket_reader") and CONN in c.callee]
        starts = [c for c in mir.calls(b) if (c.c.get("res") or c.c.get("fn")) == start.id
]
        if not readers or not starts:
            continue
        for r in readers:
            after = mir.reachable(b, list(mir.succs(b)[r.b]))
            for st in starts:
                n += 1
                bad = st.b in after and st.b != r.b
                ctx.ob(rule, "%sreader-not-before-object-server-start:%s" % (tag, b.root), not bad,
                       "init_socket_reader cannot precede start_object_server" if not bad else
                       "start_object_server is reachable after init_socket_reader: the reader runs before the dispatcher "
                       "has subscribed, a call already in the transport is never dispatched nor answered", r.where)
    ctx.floor(rule, tag + "constructors that start both the object server and the socket reader", n, 1)


def notify_rule(ctx, f, start, tag):
    cos = [b for b in f.children.get(start.id, []) if b.kind == "coroutine"]
    task = [b for b in cos if any(c.is_("add_match") for c in mir.calls(b))]
    co = ctx.one(task, "dispatcher task coroutine inside start_object_server")
    key = tag + start.id
    adds = [c for c in mir.calls(co) if c.is_("add_match") and CONN in c.callee]
    notifies = [c for c in mir.calls(co) if c.is_("notify", "notify_additional", "notify_relaxed") and
                ("event_listener" in c.callee or "event_listener" in c.fnargs)]
    nexts = [c for c in mir.calls(co) if c.is_("next") and "Stream" in c.callee]
    ctx.floor("START-NOTIFY", tag + "notify calls in the dispatcher task", len(notifies), 1)
    ctx.need(adds, "add_match call in the dispatcher task")
    ctx.need(nexts, "stream.next() in the dispatcher task")
    # the awaited add_match: its await point
    add_pts = set()
    for a in aw.awaits(f, co):
        if a.call is not None and any(a.call.b == x.b for x in adds):
            # the block where the await completes: successors of the into_future .. use Ready edge; the
            # into_future block is enough for ordering since the body is straight-line up to the result test
            ib = into_future_block(co, a)
            if ib is not None:
                add_pts.add(ib)
    for n in notifies:
        ok = bool(add_pts) and n.b not in mir.reachable(co, [0], avoid=add_pts)
        ctx.ob("START-NOTIFY", key + ":notify-after-subscription", ok,
               "Event::notify is reachable only through the awaited add_match" if ok else
               "Event::notify can run before the add_match await (the caller is released before the dispatcher is subscribed)", n.where)
        # must be on the Ok path of add_match: the stream produced by add_match is defined there; check that
        # the error-return of the add_match result cannot reach notify is implied by `return` in that arm.
    # Some(started_event) edge reaches the loop only through notify
    found = False
    for sb, pl, adt, arms, other in mir.discr_switches(co, None):
        if adt != "core::option::Option":
            continue
        ty = co.locals[pl[0]][0] if pl[0] < len(co.locals) else ""
        base = mir.origin(co, ["c", pl])
        is_evt = False
        if base[0] in ("place", "ref"):
            for p in base[1][1]:
                if isinstance(p, list) and p[0] == "." and "event_listener::Event" in str(p[4]) and "Option" in str(p[4]):
                    is_evt = True
            if "Option<event_listener::Event>" in (co.locals[base[1][0]][0] or ""):
                is_evt = True
        if "Option<event_listener::Event>" in ty:
            is_evt = True
        if not is_evt:
            continue
        found = True
        some_edge = arms.get("1")
        if some_edge is None:
            some_edge = other
        nblocks = {n.b for n in notifies}
        reach = mir.reachable(co, [some_edge], avoid=nblocks)
        bad = [c for c in nexts if c.b in reach]
        ctx.ob("START-NOTIFY", key + ":some-edge-notifies", not bad,
               "from the Some(started_event) edge the message loop is reached only through Event::notify" if not bad else
               "the message loop is reachable from the Some(started_event) edge without notifying", "%s:%d" % (co.file, mir.term(co, sb)[5]))
    ctx.ob("START-NOTIFY", key + ":event-tested", found,
           "the dispatcher task tests its started_event" if found else "no test of started_event found in the dispatcher task", co.where)


IFACE_T = "zbus::object_server::interface::Interface"
SHARED_METHODS = ("call", "get", "get_all", "set", "introspect_to_writer")
EXCL_METHODS = ("call_mut", "set_mut")


def lock_mode_rule(ctx, f, tag=""):
    """IFACE-LOCK-MODE (added after seeded change C30b): a `&self` handler may look its own interface up through the
    object server (`ObjectServer::interface` then takes the instance's *read* lock), so the `&self` entry points of
    `Interface` must run under a shared guard of the instance lock; only `call_mut` / `set_mut` may run under the
    exclusive one. Decided per call site from the guard type the receiver is dereferenced from."""
    n = 0
    for b in f.all_bodies("zbus"):
        for c in mir.calls(b):
            if not c.declared.startswith(IFACE_T + "::") or not c.args:
                continue
            m = c.declared.rsplit("::", 1)[1]
            if m not in SHARED_METHODS + EXCL_METHODS:
                continue
            o = mir.origin(b, c.args[0])
            guard = None
            if o[0] == "call" and o[1].is_("deref", "deref_mut"):
                guard = o[1].callee
            if guard is None or "Guard" not in guard:
                # not called through a lock guard (e.g. on a freshly built instance): no lock is held here
                continue
            n += 1
            excl = "WriteGuard" in guard or "UpgradableReadGuard" in guard or "MutexGuard" in guard
            if m in SHARED_METHODS:
                ctx.ob("IFACE-LOCK-MODE", "%s%s:%s-under-shared-lock" % (tag, b.root, m), not excl,
                       "Interface::%s runs under a read guard of the instance lock" % m if not excl else
                       "Interface::%s (a `&self` entry point) runs under the exclusive instance lock: a handler that reaches "
                       "its own interface through ObjectServer::interface() waits for itself" % m, c.where)
            else:
                ctx.ob("IFACE-LOCK-MODE", "%s%s:%s-under-exclusive-lock" % (tag, b.root, m), excl,
                       "Interface::%s runs under the write guard" % m, c.where)
    ctx.floor("IFACE-LOCK-MODE", tag + "Interface entry points called through an instance-lock guard", n, 6)


def run(ctx):
    ctx.explanation = (
        "R-AWAIT on rustc's coroutine layouts (K1): for every suspension point in zbus at which a guard of the object tree lock "
        "is saved, the awaited future is classified (interface code / interface instance lock / neither) directly or through "
        "zbus async fns; interprocedural constant tracing of the started-event argument of Connection::start_object_server "
        "through parameters and closure captures; R-ORDER for listen/start/await in the caller and add_match/notify/loop in "
        "the dispatcher task.")
    ctx.not_decided = ("fairness and wake-up behaviour of async-lock / event-listener; deadlocks through locks owned by user "
                       "handlers; futures of unknown provenance awaited under the tree guard are reported rather than classified.")
    f = ctx.facts("K1")
    guard_rules(ctx, f)
    start_rules(ctx, f)
    lock_mode_rule(ctx, f)
    if ctx.tier == "thorough":
        f3 = ctx.facts("K3")
        guard_rules(ctx, f3, "K3:")
        start_rules(ctx, f3, "K3:")
        lock_mode_rule(ctx, f3, "K3:")
