"""C35 — Every supported feature combination builds (DESIGN §5.C35).

The type checker is the analyser: every enumerated feature configuration of every workspace crate,
and every generated downstream crate combining workspace crates with different feature selections,
is type-checked with `cargo check --offline` against /repo's current working tree (scratch target
directories under /tmp, removed afterwards). No zbus code is executed.

  F-CRATE   <crate>[features]            the crate type-checks with exactly that feature selection
            (the quick matrix is interaction-directed: the feature sets of all multi-feature `cfg(..)` predicates
            in the crate's sources are enumerated, closed under the crate's own feature implications)
  F-DOWN    downstream:<name>            a generated downstream crate (path deps on /repo) type-checks;
                                         its lib.rs uses the derive / proxy / interface macros so that the
                                         macro expansions are type-checked under that feature unification
"""
import itertools, os, shutil, subprocess, tempfile, threading, time, tomllib
from .. import facts as factsmod

META = {
    "engine": "zfeat (cargo check matrix)",
    "technique": "static analysis: rustc type checker over an enumerated feature-configuration matrix and generated downstream manifests (cargo check --offline; nothing is run)",
    "level": "Every enumerated feature configuration (quick: the code-gating features gvariant, option-as-array, p2p, bus-impl, both zbus backends, and "
             "every on/off assignment of the features that occur together in one cfg predicate of the sources, re-read on every run; "
             "thorough: every single feature, all, and feature powersets) and each generated downstream crate is type-checked. Decides 'builds' up to type checking; "
             "codegen/link errors after type checking are not decided. Platform-only code is checked for the host only.",
}

ZBUS_BACKENDS = ["async-io", "tokio"]


def crate_features(repo, crate):
    d = tomllib.load(open(os.path.join(repo, crate, "Cargo.toml"), "rb"))
    feats = dict(d.get("features") or {})
    opt = [k for k, v in (d.get("dependencies") or {}).items() if isinstance(v, dict) and v.get("optional")]
    # optional deps not mentioned with `dep:` syntax are implicit features
    explicit_dep = set()
    for vs in feats.values():
        for v in vs:
            if v.startswith("dep:"):
                explicit_dep.add(v[4:])
    names = [f for f in feats if f != "default"]
    for o in opt:
        if o not in explicit_dep and o not in feats:
            names.append(o)
    return sorted(set(names)), feats


def cfg_feature_sets(repo, crate):
    """feature sets that occur together inside one `cfg(..)` / `cfg_attr(..)` predicate of the crate's sources:
    the places where two features interact in the code, i.e. where a combination can fail that each feature alone
    does not (read from the source on every run)"""
    import glob, re
    sets = set()
    for fn in glob.glob(os.path.join(repo, crate, "src", "**", "*.rs"), recursive=True):
        try:
            src = open(fn, encoding="utf-8", errors="replace").read()
        except OSError:
            continue
        for m in re.finditer(r"cfg(?:_attr)?\s*\(", src):
            i, d = m.end(), 1
            while i < len(src) and d > 0:
                d += src[i] == "("
                d -= src[i] == ")"
                i += 1
            fs = frozenset(re.findall(r'feature\s*=\s*"([^"]+)"', src[m.end():i - 1]))
            if 2 <= len(fs) <= 4:
                sets.add(fs)
    return sorted(sets, key=sorted)


def interaction_configs(repo, crate, names, feats, cfg):
    """every consistent on/off assignment of the features of each multi-feature cfg predicate (closed under the
    crate's own feature implications; zbus always gets exactly the backend the assignment implies)"""
    import itertools
    out, seen = [], set()

    def closure(fs):
        fs = set(fs)
        changed = True
        while changed:
            changed = False
            for f_ in list(fs):
                for v in feats.get(f_, []):
                    if v in feats and v not in fs:
                        fs.add(v)
                        changed = True
        return fs
    for S in cfg_feature_sets(repo, crate):
        S = [x for x in S if x in names]
        for r in range(0, len(S) + 1):
            for sub in itertools.combinations(sorted(S), r):
                fs = closure(sub)
                if crate == "zbus" and not (fs & set(ZBUS_BACKENDS)):
                    fs = closure(fs | {"async-io"})
                # an assignment must not switch on a member of S it was meant to leave off (implied features)
                if any(x in fs and x not in sub and x in S for x in S) and not (crate == "zbus" and set(fs) - set(sub) <= {"async-io"} | set(feats.get("async-io", []))):
                    continue
                key = frozenset(fs)
                if key in seen:
                    continue
                seen.add(key)
                out.append(cfg(sorted(sub if crate != "zbus" else (set(sub) | (set() if set(sub) & set(ZBUS_BACKENDS) or "tokio-vsock" in sub else {"async-io"})))))
    return out


def workspace_members(repo):
    d = tomllib.load(open(os.path.join(repo, "Cargo.toml"), "rb"))
    return d["workspace"]["members"]


def configs_for(repo, crate, tier):
    """list of (label, cargo args)"""
    names, feats = crate_features(repo, crate)
    out = []

    def cfg(fs, default=False):
        fs = sorted(set(fs))
        label = "%s[%s%s]" % (crate, "default+" if default else "", ",".join(fs))
        args = ["-p", crate]
        if not default:
            args.append("--no-default-features")
        if fs:
            args += ["--features", ",".join(fs)]
        return (label, args)

    if tier == "quick":
        # the every-change matrix (kept small: it is run on every change): the features that gate code paths
        # (gvariant, option-as-array, p2p, bus-impl), both zbus backends, and -- read from the sources on every run --
        # every on/off assignment of the features that occur together in one cfg predicate (where a combination can
        # fail although each feature alone builds; added after seeded change C35b: `vsock` + `tokio`).
        # Every single feature, "all" and the powersets run in the thorough tier.
        if crate == "zbus":
            out.append(cfg([], default=True))
            out.append(cfg(["tokio"]))
            out.append(cfg(["async-io", "p2p", "bus-impl"]))
            out.append(cfg(["tokio", "p2p", "option-as-array"]))
        elif crate == "zvariant":
            out.append(cfg([]))
            out.append(cfg(["gvariant"]))
            out.append(cfg(["option-as-array"]))
            out.append(cfg(["gvariant", "option-as-array"]))
        elif crate in ("zvariant_utils", "zvariant_derive", "zbus_macros"):
            out.append(cfg([]))
            out.append(cfg(names))
        else:
            out.append(cfg([]))
        have = {lab for lab, _ in out}
        for c in interaction_configs(repo, crate, names, feats, cfg):
            if c[0] not in have:
                have.add(c[0])
                out.append(c)
        return out
    if crate == "zbus":
        others = [n for n in names if n not in ZBUS_BACKENDS and n != "async-fs"]
        # features that imply or need a particular backend
        for be in ZBUS_BACKENDS:
            out.append(cfg([be]))
            for n in others:
                if n == "tokio-vsock" and be != "tokio":
                    continue
                out.append(cfg([be, n]))
        out.append(cfg([], default=True))
        out.append(cfg(names))  # all features
        out.append(cfg([n for n in names if n not in ("tokio", "tokio-vsock")]))
        out.append(cfg([n for n in names if n not in ("async-io", "vsock", "async-fs")]))
        if tier == "thorough":
            core = ["p2p", "bus-impl", "blocking-api", "option-as-array"]
            for be in ZBUS_BACKENDS:
                for r in range(2, len(core) + 1):
                    for sub in itertools.combinations(core, r):
                        out.append(cfg([be] + list(sub)))
                rest = [n for n in others if n not in core and n not in ("vsock", "tokio-vsock")]
                for a, b in itertools.combinations(rest, 2):
                    out.append(cfg([be, a, b]))
    else:
        out.append(cfg([]))
        if "default" in feats and feats["default"]:
            out.append(cfg([], default=True))
        for n in names:
            out.append(cfg([n]))
        if len(names) > 1:
            out.append(cfg(names))
        if tier == "thorough":
            if crate == "zvariant":
                core = ["gvariant", "option-as-array"]
                rest = [n for n in names if n not in core and n != "ostree-tests"]
                for r in range(1, len(core) + 1):
                    for sub in itertools.combinations(core, r):
                        for o in rest:
                            out.append(cfg(list(sub) + [o]))
                        out.append(cfg(list(sub) + rest))
                out.append(cfg(core))
            elif len(names) <= 5:
                for r in range(2, len(names)):
                    for sub in itertools.combinations(names, r):
                        out.append(cfg(list(sub)))
    # dedupe by label
    seen, res = set(), []
    for l, a in out:
        if l not in seen:
            seen.add(l)
            res.append((l, a))
    return res


DOWNSTREAM_LIB = '''
#![allow(dead_code, unused)]
use zvariant::{Type, Value, OwnedValue, serialized::Context, to_bytes, LE};
use serde::{Serialize, Deserialize};

#[derive(Type, Serialize, Deserialize, Debug, PartialEq)]
pub struct Rec { a: u8, b: String, c: Vec<(u32, i64)>, }

#[derive(Type, Serialize, Deserialize, Value, OwnedValue, Debug, Clone, PartialEq)]
pub struct Pair { x: i32, y: String }

pub fn roundtrip(r: &Pair) -> zvariant::Result<Pair> {
    let ctx = Context::new_dbus(LE, 0);
    let enc = to_bytes(ctx, r)?;
    let (v, _) = enc.deserialize::<Pair>()?;
    Ok(v)
}
__ZBUS__
'''

DOWNSTREAM_ZBUS = '''
use zbus::{interface, proxy, Connection};

pub struct Greeter { count: u64 }

#[interface(name = "org.zbus.Verif1")]
impl Greeter {
    fn say_hello(&mut self, name: &str) -> String { self.count += 1; format!("hi {name} {}", self.count) }
    #[zbus(property)]
    fn count(&self) -> u64 { self.count }
    #[zbus(signal)]
    async fn greeted(emitter: &zbus::object_server::SignalEmitter<'_>, name: &str) -> zbus::Result<()>;
}

#[proxy(interface = "org.zbus.Verif1", default_service = "org.zbus.Verif", default_path = "/org/zbus/Verif")]
pub trait Verif1 {
    fn say_hello(&self, name: &str) -> zbus::Result<String>;
    #[zbus(property)]
    fn count(&self) -> zbus::Result<u64>;
    #[zbus(signal)]
    fn greeted(&self, name: &str) -> zbus::Result<()>;
}

pub async fn use_it(c: &Connection) -> zbus::Result<String> {
    let p = Verif1Proxy::new(c).await?;
    p.say_hello("x").await
}
'''


def downstream_specs(tier):
    """name -> (deps dict crate -> (default_features, [features]), with_zbus_code)"""
    s = {
        "zbus+zvariant[gvariant]": ({"zbus": (True, []), "zvariant": (False, ["gvariant"])}, True),
        "zbus+zvariant[option-as-array]": ({"zbus": (True, []), "zvariant": (False, ["option-as-array"])}, True),
        "zbus+zvariant[gvariant,option-as-array]": ({"zbus": (True, []), "zvariant": (False, ["gvariant", "option-as-array"])}, True),
        "zbus[tokio]+zvariant[gvariant]": ({"zbus": (False, ["tokio"]), "zvariant": (False, ["gvariant"])}, True),
        "zbus+zbus_macros[gvariant]": ({"zbus": (True, []), "zbus_macros": (True, ["gvariant"]), "zvariant": (False, [])}, True),
        "zbus[option-as-array]+zvariant": ({"zbus": (True, ["option-as-array"]), "zvariant": (False, [])}, True),
        "zbus[p2p,bus-impl]+zvariant[enumflags2]": ({"zbus": (True, ["p2p", "bus-impl"]), "zvariant": (False, ["enumflags2"])}, True),
        "zvariant[gvariant]+zvariant_derive[gvariant]": ({"zvariant": (False, ["gvariant"]), "zvariant_derive": (True, ["gvariant"])}, False),
        "zvariant+zvariant_derive[gvariant]": ({"zvariant": (False, []), "zvariant_derive": (True, ["gvariant"])}, False),
        "zvariant[gvariant]+zbus_names": ({"zvariant": (False, ["gvariant"]), "zbus_names": (True, [])}, False),
        "zvariant+zvariant_utils[gvariant]": ({"zvariant": (False, []), "zvariant_utils": (True, ["gvariant"])}, False),
    }
    if tier == "quick":
        keep = ("zbus+zvariant[gvariant]", "zbus+zvariant[option-as-array]", "zbus+zbus_macros[gvariant]",
                "zvariant+zvariant_derive[gvariant]", "zvariant+zvariant_utils[gvariant]")
        s = {k: v for k, v in s.items() if k in keep}
    if tier == "thorough":
        s.update({
            "zbus[tokio,p2p]+zvariant[gvariant,option-as-array]": ({"zbus": (False, ["tokio", "p2p"]), "zvariant": (False, ["gvariant", "option-as-array"])}, True),
            "zbus+zbus_xml+zvariant[gvariant]": ({"zbus": (True, []), "zbus_xml": (True, []), "zvariant": (False, ["gvariant"])}, True),
            "zbus[blocking-api off]+zvariant[gvariant]": ({"zbus": (False, ["async-io"]), "zvariant": (False, ["gvariant"])}, True),
            "zbus_names+zvariant[option-as-array]": ({"zbus_names": (True, []), "zvariant": (False, ["option-as-array"])}, False),
        })
    return s


def make_downstream(root, repo, idx, spec):
    deps, with_zbus = spec
    d = os.path.join(root, "ds%d" % idx)
    os.makedirs(os.path.join(d, "src"))
    lines = ["[package]", 'name = "zfeat_ds%d"' % idx, 'version = "0.0.0"', 'edition = "2021"', "", "[workspace]", "", "[dependencies]",
             'serde = { version = "1", features = ["derive"] }']
    for c, (df, fs) in deps.items():
        lines.append('%s = { path = "%s/%s", default-features = %s, features = [%s] }' % (
            c, repo, c, "true" if df else "false", ", ".join('"%s"' % f for f in fs)))
    open(os.path.join(d, "Cargo.toml"), "w").write("\n".join(lines) + "\n")
    lib = DOWNSTREAM_LIB.replace("__ZBUS__", DOWNSTREAM_ZBUS if with_zbus else "")
    if "zvariant" not in deps:
        lib = "#![allow(unused)]\n" + (DOWNSTREAM_ZBUS if with_zbus else "")
    open(os.path.join(d, "src", "lib.rs"), "w").write(lib)
    shutil.copy(os.path.join(repo, "Cargo.lock"), os.path.join(d, "Cargo.lock"))
    return d


def run(ctx):
    repo = factsmod.REPO
    tier = ctx.tier
    ctx.explanation = ("cargo check --offline (rustc type checker) over an enumerated matrix of feature configurations of each "
                       "workspace crate and over generated downstream crates that combine workspace crates with different "
                       "feature selections and expand the derive/proxy/interface macros. Each configuration is one obligation.")
    ctx.not_decided = "codegen/link errors after type checking; non-host platforms (Windows/macOS cfg arms)."
    ctx.trusted = ["cargo + rustc (stable toolchain of the repository) type checking", "zfeat configuration enumerator (/verif/zcheck/rules/C35.py)"]
    jobs = []  # (kind, label, cwd, args)
    for crate in workspace_members(repo):
        for label, args in configs_for(repo, crate, tier):
            jobs.append(("F-CRATE", label, repo, args))
    root = tempfile.mkdtemp(prefix="zfeat.", dir="/tmp")
    try:
        for i, (name, spec) in enumerate(downstream_specs(tier).items()):
            d = make_downstream(root, repo, i, spec)
            jobs.append(("F-DOWN", "downstream:" + name, d, []))
        nworkers = 1 if tier == "quick" else 3
        results = {}
        lock = threading.Lock()
        queue = list(enumerate(jobs))
        # group by crate so that a worker reuses its target dir for similar graphs
        queue.sort(key=lambda x: (x[1][0], x[1][1].split("[")[0]))

        def worker(wi):
            tgt = os.path.join(root, "target%d" % wi)
            env = dict(os.environ)
            env["CARGO_TARGET_DIR"] = tgt
            env["CARGO_NET_OFFLINE"] = "true"
            env["RUSTFLAGS"] = env.get("RUSTFLAGS", "") + " -Awarnings"
            while True:
                with lock:
                    if not queue:
                        return
                    ji, (kind, label, cwd, args) = queue.pop(0)
                t = time.time()
                p = subprocess.run(["cargo", "check", "--offline", "-q", "-j", "16" if tier == "quick" else "6"] + args, cwd=cwd, env=env,
                                   stdout=subprocess.PIPE, stderr=subprocess.STDOUT, text=True)
                with lock:
                    results[ji] = (p.returncode, p.stdout[-3000:], time.time() - t)

        ths = [threading.Thread(target=worker, args=(i,)) for i in range(nworkers)]
        [t.start() for t in ths]
        [t.join() for t in ths]
        samples = []
        for ji, (kind, label, cwd, args) in enumerate(jobs):
            rc, out, secs = results[ji]
            detail = "type-checks (%.1fs)" % secs if rc == 0 else "cargo check failed: " + _first_error(out)
            ctx.ob(kind, label, rc == 0, detail, "cargo check --offline " + " ".join(args) if args else cwd.replace(root, "<scratch>"))
        ctx.floor("F-CRATE", "crate feature configurations", sum(1 for j in jobs if j[0] == "F-CRATE"), 12 if tier == "quick" else 60)
        ctx.floor("F-DOWN", "downstream crates", sum(1 for j in jobs if j[0] == "F-DOWN"), 4 if tier == "quick" else 10)
        ctx.extra["evaluations"] = len(jobs)
        ctx.extra["distinct_nontrivial"] = len({j[1] for j in jobs})
        ctx.extra["exhaustive"] = False
    finally:
        shutil.rmtree(root, ignore_errors=True)


def _first_error(out):
    lines = out.splitlines()
    for i, l in enumerate(lines):
        if l.startswith("error"):
            return " | ".join(x.strip() for x in lines[i:i + 4])[:400]
    return out[-300:]
