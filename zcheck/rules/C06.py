"""C06 — Signature strings parse exactly per the D-Bus type grammar (DESIGN §5.C06).

All rules run on zvariant_utils::signature in K1 (D-Bus only) and K2 (+ `Maybe`). Variants are taken
from the ADT facts, so a new variant must appear in every table. Keys carry no configuration tag.

  T-CODES    three tables extracted from MIR agree row by row and cover every variant:
               P  parser: the `dispatch!` byte switch (char -> fieldless variant built in that arm), the
                  `b'h'.map(..)` row, the `(b'a'|b'm', child).map(..)` rows, `(b'a', delimited(b'{', .., b'}'))`
                  and `delimited(b'(', .., b')')`
               W  write_as_string: variant -> the literal pieces and `{}` child placeholders it writes
               L  string_len: variant -> constant part of the length and number of child lengths added
             simple codes: P and W are mutually inverse (hence bijective); containers: same prefix /
             brackets, one `{}` per child; L = total length of W's literals, one child length per `{}`
  T-EQSTR    PartialEq<&str> (the fourth table): each fieldless arm compares `other` with exactly the text W
             writes for that variant (Unit: is_empty); each container arm tests (starts_with / ends_with /
             strip_*) every literal W writes for that variant.   Structure arm violated on the pinned tree.
  FMT        <Signature as Display>::fmt and to_string write with outer parentheses (`true`),
             to_string_no_parens / write_as_string_no_parens with `false`; children inside
             write_as_string are formatted through Display
  EQ         PartialEq::eq evaluated for every ordered pair of variants: different variants -> false on
             every path; same fieldless variant -> true; same container variant -> compares every child
  F-CMP      Ord::cmp evaluated for every ordered pair of variants: a pair of *different* variants never
             yields the constant Ordering::Equal (else cmp == Equal while == is false); same fieldless
             variant -> Equal; same container -> compares every child.   Violated on the pinned tree (F3).
  HASH       Hash::hash: every variant arm feeds a tag; every child of a container is fed; all `hash`
             calls are on integers or on `Signature` itself (through Deref / Fields::iter), never on the
             representation types Child / Fields / Box (Static and Dynamic forms must hash alike). Same
             representation rule for eq and cmp. Tags are pairwise distinct (design clause T-HASH; this is
             hash quality — Hash/Eq consistency itself only needs the clauses above).
  GRAMMAR    `many` repeats with a lower bound >= 1 (no empty struct); `parse` runs the top-level parser
             with `Parser::parse` (whole input must be consumed) and maps failure to an Err
  LIMITS     presence of the three limits in the parser (closure of `parse` inside the signature module):
             total length 255 (constant 254..256 or a checked conversion to u8), nesting depth 32 (constant
             31..33), dict key restricted to a basic type (key slot fed by a non-recursive parser, or the
             dict parser chain contains verify/try_map).   All three violated on the pinned tree (K-C06a/b/c).
"""
from .. import mir
from .. import lib_pathsim as ps

META = {
    "technique": "switch-table extraction and sibling comparison; exhaustive evaluation of eq/cmp over variant pairs",
    "level": ("The char<->variant tables of the parser, the formatter and string_len are extracted from MIR and must agree "
              "row by row over every variant of the enum; eq and cmp are evaluated symbolically for all ordered variant "
              "pairs; hash/eq/cmp are representation independent and cover every child; presence of the grammar's numeric "
              "limits is decided. Not decided: the combinator grammar beyond these clauses; that a limit, once present, uses "
              "the right comparison."),
}

SIG = "zvariant_utils::signature::Signature"
MOD = "zvariant_utils::signature::"
PARSE = "zvariant_utils::signature::parse"


def where(body, line=None):
    return "%s:%d" % (body.file, line if line is not None else body.span[0])


# ------------------------------------------------------------------------------------- enum facts
def variants(ctx, f):
    adt = f.adts.get(SIG)
    ctx.need([adt] if adt else [], "ADT " + SIG)
    out = {}
    for v in adt["variants"]:
        out[v["name"]] = {"discr": int(v["discr"]), "fields": [x[0] for x in v["fields"]]}
    return out


def self_switch(ctx, f, body, what):
    """the switch on the discriminant of `*self` (arg 1): returns (block, {variant: target}, otherwise)"""
    c = []
    for sb, place, adt, arms, other in mir.discr_switches(body, f, SIG):
        if arg_root(body, place) == 1:
            c.append((sb, arms, other))
    c = [x for x in c if mir.block_dominates(body, x[0], x[0])]
    ctx.need(c, "match on self in " + what)
    # the outermost one: dominates the others
    c.sort(key=lambda x: sum(1 for y in c if mir.block_dominates(body, x[0], y[0])), reverse=True)
    return c[0]


def arg_root(body, place, depth=0):
    """argument (1-based local) a place is rooted in, looking through tuple packing `(self, other)`,
    copies and re-borrows; None when not rooted in an argument"""
    l, proj = place[0], list(place[1])
    if depth > 12:
        return None
    if 0 < l <= body.d["argc"]:
        return l
    d = mir.single_def(body, l)
    if d is None or d[0] != "assign":
        return None
    rv = d[4]
    if rv[0] == "agg" and rv[1] == "tuple" and proj and isinstance(proj[0], list) and proj[0][0] == ".":
        op = rv[4][proj[0][1]]
        if op[0] == "k":
            return None
        return arg_root(body, [op[1][0], list(op[1][1]) + proj[1:]], depth + 1)
    if rv[0] == "use" and rv[1][0] != "k":
        return arg_root(body, [rv[1][1][0], list(rv[1][1][1]) + proj], depth + 1)
    if rv[0] == "ref":
        return arg_root(body, [rv[2][0], list(rv[2][1]) + proj], depth + 1)
    return None


def const_pv(body, op):
    """value of a constant operand, looking through temporaries and `&literal` promoteds (`pv`)"""
    o = mir.origin(body, op)
    if o[0] != "const":
        return None
    k = o[1]
    if "pv" in k:
        return k["pv"]
    v = k.get("v")
    return None if isinstance(v, dict) else v


def rpo_index(body):
    s = mir.succs(body)
    seen, order = set(), []
    stack = [(0, iter(s[0]))]
    seen.add(0)
    while stack:
        b, it = stack[-1]
        for x in it:
            if x not in seen:
                seen.add(x)
                stack.append((x, iter(s[x])))
                break
        else:
            order.append(b)
            stack.pop()
    order.reverse()
    return {b: i for i, b in enumerate(order)}


def arm_blocks(body, arms, other, name):
    """blocks of the arm of variant `name`: reachable from its target; blocks shared with *every* other
    arm (the join / return) are removed"""
    tgt = arms[name]
    mine = mir.reachable(body, [tgt])
    others = [mir.reachable(body, [t]) for n, t in arms.items() if t != tgt]
    if others:
        join = {b for b in mine if others and all(b in o for o in others)}
        mine = mine - join
    return mine


# ------------------------------------------------------------------------------------- W table
def decode_template(bs):
    """rustc's compact format_args template: <n><n literal bytes> | 0xC0 placeholder | 0 end"""
    out, i = [], 0
    while i < len(bs):
        b = bs[i]
        if b == 0:
            return out
        if b == 0xC0:
            out.append(None)
            i += 1
        elif b < 0x80:
            out.append(bytes(bs[i + 1:i + 1 + b]).decode("utf-8", "replace"))
            i += 1 + b
        else:
            raise ValueError("unknown format template byte %d" % b)
    return out


def written_pieces(body, blocks):
    """ordered pieces written inside `blocks`: str literal or None for a `{}` placeholder, with the
    display type of each placeholder"""
    idx = rpo_index(body)
    items = []
    disp = []
    for c in mir.calls(body):
        if c.b not in blocks:
            continue
        if c.is_("from_str") and "fmt::Arguments" in c.callee and c.args:
            k = mir.resolve_const(body, c.args[0])
            items.append((idx.get(c.b, 0), [k.get("v") if k else "?"]))
        elif c.callee.startswith("core::fmt::Arguments") and c.is_("new", "new_v1", "new_const") and c.args:
            o = mir.origin(body, c.args[0])
            k = o[1] if o[0] == "const" else None
            v = k.get("v") if k else None
            if isinstance(v, dict) and "bytes" in v:
                items.append((idx.get(c.b, 0), decode_template(v["bytes"])))
            else:
                items.append((idx.get(c.b, 0), ["?"]))
        elif c.is_("write_str") and len(c.args) > 1:
            k = mir.resolve_const(body, c.args[1])
            items.append((idx.get(c.b, 0), [k.get("v") if k and isinstance(k.get("v"), str) else "?"]))
        elif c.is_("write_char") and len(c.args) > 1:
            k = mir.resolve_const(body, c.args[1])
            items.append((idx.get(c.b, 0), [k.get("v") if k and isinstance(k.get("v"), str) else "?"]))
        elif c.is_("new_display", "new_debug"):
            disp.append(c.fnargs)
    items.sort(key=lambda x: x[0])
    out = []
    for _, ps_ in items:
        out.extend(ps_)
    return out, disp


# ------------------------------------------------------------------------------------- L table
def static_len(body, blocks):
    """constant part of the value returned from `blocks` (sum of constant leaves of the additions that
    feed the return place) and the number of call results added; None if not a sum"""
    sites = {}
    calls = set()
    bad = []
    seen = set()

    def from_local(l):
        if l in seen:
            return
        seen.add(l)
        for d in mir.defs_of(body, l):
            if d[0] == "call":
                if d[1].b in blocks:
                    calls.add(d[1].b)
                continue
            _, b, i, pl, rv = d
            if b not in blocks:
                continue
            from_rv(rv, (b, i))

    def from_op(op, site):
        if op[0] == "k":
            v = op[1].get("v")
            if isinstance(v, int) and not isinstance(v, bool):
                sites[site] = v
            else:
                bad.append("non-integer constant")
            return
        from_local(op[1][0])

    def from_rv(rv, site):
        if rv[0] == "use":
            from_op(rv[1], site)
        elif rv[0] == "bin" and rv[1] in ("Add", "AddWithOverflow", "AddUnchecked"):
            from_op(rv[2], site + (0,))
            from_op(rv[3], site + (1,))
        elif rv[0] == "cast":
            from_op(rv[2], site)
        else:
            bad.append(rv[0] + (":" + rv[1] if rv[0] == "bin" else ""))

    from_local(mir.RET)
    if bad:
        return None, 0, bad
    return sum(sites.values()), len(calls), []


# ------------------------------------------------------------------------------------- P table
def closure_of_operand(body, f, op):
    """body id of the closure an operand holds (closure aggregate, possibly copied through locals)"""
    o = mir.origin(body, op)
    for _ in range(6):
        if o[0] == "rv" and o[1][0] == "agg" and o[1][1] == "closure":
            return o[1][2]
        if o[0] in ("place", "ref"):
            l = o[1][0]
            ds = mir.defs_of(body, l)
            aggs = [d for d in ds if d[0] == "assign" and d[4][0] == "agg" and d[4][1] == "closure"]
            if len(ds) == 1 and aggs:
                return aggs[0][4][2]
        return None
    return None


def returned_variants(body):
    out = set()
    for b, i, pl, rv, ln in mir.assignments(body):
        if pl[0] == mir.RET and not pl[1] and rv[0] == "agg" and rv[1] == "adt" and rv[2] == SIG:
            out.add(rv[3])
    return out


def const_byte(body, op):
    k = mir.resolve_const(body, op)
    if k is not None and isinstance(k.get("v"), int) and not isinstance(k.get("v"), bool) and k.get("ty") == "u8":
        return chr(k["v"])
    return None


def parser_tables(ctx, f, cfg):
    fam = [b for b in f.all_bodies("zvariant_utils") if b.root == PARSE or b.root.startswith(PARSE + "::")]
    ctx.need(fam, "bodies of signature::parse")
    simple = {}
    dup = []
    n_sw = 0
    for b in fam:
        for sb, t in mir.switches(b):
            if t[2] != "u8" or len(t[3]) < 3:
                continue
            n_sw += 1
            reach = {tg: mir.reachable(b, [tg]) for v, tg in t[3]}
            reach[t[4]] = mir.reachable(b, [t[4]])
            for v, tg in t[3]:
                excl = set(reach[tg])
                for tg2, r in reach.items():
                    if tg2 != tg:
                        excl -= r
                vs = {rv[3] for bb, i, pl, rv, ln in mir.assignments(b) if bb in excl and rv[0] == "agg" and rv[1] == "adt" and rv[2] == SIG}
                ch = chr(int(v))
                if ch in simple:
                    dup.append(ch)
                simple[ch] = (vs, b, t[5])
            # fall-through must fail
            oth = mir.reachable(b, [t[4]])
            built = [rv[3] for bb, i, pl, rv, ln in mir.assignments(b) if bb in (oth - set().union(*[reach[tg] for v, tg in t[3]])) and rv[0] == "agg" and rv[2] == SIG]
            fails = any(bb in oth and any((mir.op_const(x) or {}).get("fn") == "winnow::combinator::core::fail" for x in mir.rvalue_operands(rv))
                        for bb, i, pl, rv, ln in mir.assignments(b)) or \
                any(c.b in oth and any((mir.op_const(a) or {}).get("fn") == "winnow::combinator::core::fail" for a in c.args) for c in mir.calls(b))
            ctx.ob("T-CODES", "parser:unknown-code-fails", fails and not built,
                   "[%s] the otherwise arm of the code switch runs winnow's `fail` (%s) and builds no signature (%s)" % (cfg, fails, built),
                   where(b, t[5]))
    ctx.floor("T-CODES", "byte switches in the signature parser", n_sw, 1)
    ctx.ob("T-CODES", "parser:codes-unique", not dup, "[%s] codes dispatched twice: %s" % (cfg, dup), "-")
    # rows built with combinators in parse_signature
    rows = []   # (prefix, suffix, variants, body, line, key_parser_operand, map_call)
    for b in fam:
        if b.kind not in ("Fn", "AssocFn"):
            continue
        for c in mir.calls(b):
            if c.is_("map") and "winnow::parser::Parser" in c.declared and len(c.args) == 2:
                clo = closure_of_operand(b, f, c.args[1])
                cb = f.byid(clo) if clo else None
                vs = returned_variants(cb) if cb is not None else set()
                recv = mir.origin(b, c.args[0])
                pre = suf = None
                keyop = None
                if recv[0] == "const":
                    pre = const_byte(b, c.args[0])
                elif recv[0] == "rv" and recv[1][0] == "agg" and recv[1][1] == "tuple" and recv[1][4]:
                    pre = const_byte(b, recv[1][4][0])
                    if len(recv[1][4]) > 1:
                        inner = mir.origin(b, recv[1][4][1])
                        if inner[0] == "call" and inner[1].is_("delimited") and len(inner[1].args) == 3:
                            o, cl = const_byte(b, inner[1].args[0]), const_byte(b, inner[1].args[2])
                            if o and cl:
                                pre = (pre or "") + o
                                suf = cl
                            mid = mir.origin(b, inner[1].args[1])
                            if mid[0] == "rv" and mid[1][0] == "agg" and mid[1][1] == "tuple" and mid[1][4]:
                                keyop = (mid[1][4][0], inner[1])
                if pre is not None:
                    rows.append((pre, suf, vs, b, c.line, keyop, c))
            elif c.is_("delimited") and len(c.args) == 3:
                o, cl = const_byte(b, c.args[0]), const_byte(b, c.args[2])
                # a bare delimited (not the payload of a `(prefix, delimited)` tuple)
                used_in_tuple = False
                for bb, i, pl, rv, ln in mir.assignments(b):
                    if rv[0] == "agg" and rv[1] == "tuple" and any(mir.op_local(x) == c.dest[0] for x in rv[4]):
                        first = rv[4][0]
                        if const_byte(b, first) is not None:
                            used_in_tuple = True
                if o and cl and not used_in_tuple:
                    rows.append((o, cl, None, b, c.line, None, c))
    return simple, rows, fam


# ------------------------------------------------------------------------------------- T-CODES
def check_tables(ctx, f, cfg):
    V = variants(ctx, f)
    was = ctx.one(f.find(name="write_as_string", adt=SIG, trait=""), "Signature::write_as_string")
    sl = ctx.one(f.find(name="string_len", adt=SIG, trait=""), "Signature::string_len")
    wsb, warms, wother = self_switch(ctx, f, was, "write_as_string")
    lsb, larms, lother = self_switch(ctx, f, sl, "string_len")
    simple, rows, fam = parser_tables(ctx, f, cfg)

    W, L = {}, {}
    for name in V:
        if name not in warms:
            ctx.ob("T-CODES", "writer:covers:" + name, False, "[%s] write_as_string has no arm for %s" % (cfg, name), where(was))
            continue
        try:
            pieces, disp = written_pieces(was, arm_blocks(was, warms, wother, name))
        except ValueError as e:
            ctx.ob("T-CODES", "writer:template-decodable", False, "[%s] %s" % (cfg, e), where(was))
            continue
        W[name] = pieces
        ok_disp = all(("<%s>" % SIG) in d or ("<&%s>" % SIG) in d for d in disp)
        if disp:
            ctx.ob("FMT", "write_as_string:children-through-Display:" + name, ok_disp,
                   "[%s] placeholders of %s display %s" % (cfg, name, disp), where(was))
    for name in V:
        if name not in larms:
            ctx.ob("T-CODES", "string_len:covers:" + name, False, "[%s] string_len has no arm for %s" % (cfg, name), where(sl))
            continue
        L[name] = static_len(sl, arm_blocks(sl, larms, lother, name))

    # simple codes: W and P mutually inverse
    n_rows = 0
    fieldless = [n for n, v in V.items() if not v["fields"]]
    p_simple = {}
    for ch, (vs, b, ln) in simple.items():
        ok = len(vs) == 1
        ctx.ob("T-CODES", "parser:code:" + ch, ok, "[%s] code %r builds %s" % (cfg, ch, sorted(vs)), where(b, ln))
        if ok:
            p_simple[ch] = next(iter(vs))
    for pre, suf, vs, b, ln, keyop, c in rows:
        if suf is None and vs and len(pre) == 1 and all(not V.get(x, {"fields": [1]})["fields"] for x in vs):
            # e.g. b'h'.map(|_| Signature::Fd)
            if pre in p_simple:
                ctx.ob("T-CODES", "parser:codes-unique", False, "[%s] code %r parsed twice" % (cfg, pre), where(b, ln))
            ok = len(vs) == 1
            ctx.ob("T-CODES", "parser:code:" + pre, ok, "[%s] code %r builds %s" % (cfg, pre, sorted(vs)), where(b, ln))
            if ok:
                p_simple[pre] = next(iter(vs))
    for ch, name in sorted(p_simple.items()):
        n_rows += 1
        w = W.get(name)
        ctx.ob("T-CODES", "parser->writer:" + ch, w == [ch],
               "[%s] parser maps %r to %s, which is written as %r" % (cfg, ch, name, w), where(was))
    for name in fieldless:
        w = W.get(name)
        if name == "Unit":
            ctx.ob("T-CODES", "writer->parser:Unit", w in ([""], []), "[%s] Unit is written as %r" % (cfg, w), where(was))
            continue
        n_rows += 1
        ok = w is not None and len(w) == 1 and isinstance(w[0], str) and len(w[0]) == 1 and p_simple.get(w[0]) == name
        ctx.ob("T-CODES", "writer->parser:" + name, ok,
               "[%s] %s is written as %r, which the parser maps to %s" % (cfg, name, w, p_simple.get(w[0]) if w and isinstance(w[0], str) else None),
               where(was))
    ctx.floor("T-CODES", "simple code rows compared", n_rows, 26)

    # containers
    containers = [n for n, v in V.items() if v["fields"]]
    for name in containers:
        w = W.get(name)
        if w is None:
            continue
        lits = [x for x in w if isinstance(x, str)]
        holes = sum(1 for x in w if x is None)
        nchild = len(V[name]["fields"])
        if name == "Structure":
            shape = lits == ["(", ")"] and holes >= 1
            ctx.ob("T-CODES", "writer:Structure", shape, "[%s] Structure is written as %r" % (cfg, w), where(was))
            prow = [r for r in rows if r[0] == "(" and r[1] == ")"]
            ctx.ob("T-CODES", "parser:Structure", len(prow) == 1, "[%s] delimited('(' .. ')') rows: %d" % (cfg, len(prow)), where(was))
            continue
        ctx.ob("T-CODES", "writer:children:" + name, holes == nchild,
               "[%s] %s has %d child field(s) and writes %d placeholder(s): %r" % (cfg, name, nchild, holes, w), where(was))
        pre = lits[0] if lits else None
        suf = lits[-1] if len(lits) > 1 else None
        prow = [r for r in rows if r[2] is not None and name in r[2]]
        ok = len(prow) == 1 and prow[0][0] == pre and prow[0][1] == suf and prow[0][2] == {name} and len(lits) <= 2
        ctx.ob("T-CODES", "writer<->parser:" + name, ok,
               "[%s] %s is written as %r; parser rows building it: %s" % (cfg, name, w, [(r[0], r[1], sorted(r[2])) for r in prow]),
               where(prow[0][3], prow[0][4]) if prow else where(was))
    # every parser row builds a known container and no two rows share prefix+suffix
    seen = {}
    for pre, suf, vs, b, ln, keyop, c in rows:
        if vs is not None and len(pre) == 1 and suf is None and vs and all(not V.get(x, {"fields": [1]})["fields"] for x in vs):
            continue
        k = (pre, suf)
        ctx.ob("T-CODES", "parser:row-unique:%s%s" % (pre, suf or ""), k not in seen, "[%s] bracket/prefix row %r" % (cfg, k), where(b, ln))
        seen[k] = 1
    # coverage: every variant is produced by the parser
    produced = set(p_simple.values()) | {x for r in rows if r[2] for x in r[2]}
    if any(r[0] == "(" and r[1] == ")" for r in rows):
        produced.add("Structure")
    for name in V:
        if name == "Unit":
            continue
        ctx.ob("T-CODES", "parser:covers:" + name, name in produced, "[%s] variant %s %s by the parser" % (
            cfg, name, "is produced" if name in produced else "is never produced"), "-")

    # L against W
    for name in V:
        if name not in L or name not in W:
            continue
        const, ncalls, bad = L[name]
        w = W[name]
        want = sum(len(x) for x in w if isinstance(x, str))
        if "?" in w:
            ctx.ob("T-CODES", "string_len:" + name, False, "[%s] written text of %s not constant: %r" % (cfg, name, w), where(sl))
            continue
        if name == "Structure":
            ok = const == want and not bad
            ctx.ob("T-CODES", "string_len:" + name, ok, "[%s] constant part %s vs literals %r (%d)%s" % (cfg, const, w, want, bad or ""), where(sl))
            continue
        holes = sum(1 for x in w if x is None)
        ok = const == want and ncalls == holes and not bad
        ctx.ob("T-CODES", "string_len:" + name, ok,
               "[%s] string_len = %s + %d child length(s); written text %r has %d literal byte(s), %d child(ren)%s" % (
                   cfg, const, ncalls, w, want, holes, " " + str(bad) if bad else ""), where(sl))
    return V, W, rows, fam


# ------------------------------------------------------------------------------------- T-EQSTR
def check_eq_str(ctx, f, cfg, V, W):
    eqs = ctx.one(f.find(name="eq", adt=SIG, trait="core::cmp::PartialEq<&str>") or
                  [b for b in f.find(name="eq", adt=SIG) if "PartialEq<&str>" in b.id], "<Signature as PartialEq<&str>>::eq")
    sb, arms, other = self_switch(ctx, f, eqs, "PartialEq<&str>::eq")
    for name, v in V.items():
        if name not in arms:
            ctx.ob("T-EQSTR", "covers:" + name, False, "[%s] no arm for %s" % (cfg, name), where(eqs))
            continue
        blocks = arm_blocks(eqs, arms, other, name)
        if not v["fields"]:
            want = "".join(x for x in W.get(name, ["?"]) if isinstance(x, str))
            lits, empties = [], 0
            for c in mir.calls(eqs):
                if c.b not in blocks:
                    continue
                if c.is_("eq", "ne") and len(c.args) == 2:
                    for a in c.args:
                        pv = const_pv(eqs, a)
                        if isinstance(pv, str):
                            lits.append(pv)
                if c.is_("is_empty"):
                    empties += 1
            if want == "":
                ok = (empties >= 1 and not lits) or lits == [""]
            else:
                ok = lits == [want] and not empties
            ctx.ob("T-EQSTR", "simple-literal:" + name, ok,
                   "[%s] %s is written as %r; eq(&str) compares with %s" % (cfg, name, want, lits if lits else ("is_empty()" if empties else "nothing recognisable")),
                   where(eqs))
            continue
        tested = []
        for c in mir.calls(eqs):
            if c.b in blocks and c.is_("starts_with", "ends_with", "strip_prefix", "strip_suffix") and len(c.args) > 1:
                tested.append((c.callee.rsplit("::", 1)[-1], const_pv(eqs, c.args[1])))
        lits = [x for x in W.get(name, []) if isinstance(x, str)]
        pre = lits[0] if lits else None
        suf = lits[-1] if len(lits) > 1 else None
        okp = pre is None or any(t[0] in ("starts_with", "strip_prefix") and t[1] == pre for t in tested)
        oks = suf is None or any(t[0] in ("ends_with", "strip_suffix") and t[1] == suf for t in tested)
        ctx.ob("T-EQSTR", "container-literals:" + name, okp and oks,
               "[%s] %s is written with prefix %r / suffix %r; eq(&str) tests %s%s" % (
                   cfg, name, pre, suf, tested or "no literal at all",
                   "" if okp and oks else " — a string with other characters in those positions compares equal"), where(eqs))


# ------------------------------------------------------------------------------------- FMT
def check_fmt(ctx, f, cfg):
    table = (("fmt", "core::fmt::Display", True), ("to_string", "", True), ("to_string_no_parens", "", False),
             ("write_as_string_no_parens", "", False))
    for name, trait, want in table:
        b = ctx.one(f.find(name=name, adt=SIG, trait=trait), "Signature::%s" % name)
        cs = [c for c in mir.calls(b) if c.is_("write_as_string") and c.callee.startswith(MOD)]
        ok = bool(cs)
        got = []
        for c in cs:
            k = mir.resolve_const(b, c.args[2]) if len(c.args) > 2 else None
            got.append(k.get("v") if k else None)
            if k is None or k.get("v") is not want:
                ok = False
        ctx.ob("FMT", "outer-parens:" + name, ok, "[%s] %s calls write_as_string with outer_parens = %s (want %s)" % (cfg, name, got, want), where(b))


# ------------------------------------------------------------------------------------- EQ / F-CMP
def pair_eval(body, V, i, j):
    di, dj = V[i]["discr"], V[j]["discr"]

    def discr_of(place):
        a = arg_root(body, place)
        if a == 1:
            return di
        if a == 2:
            return dj
        return None

    def event(c, vals):
        if c.is_("eq", "ne", "cmp", "partial_cmp", "hash", "all", "any"):
            return ("call", c.callee.rsplit("::", 1)[-1])
        return None
    return ps.simulate(body, 0, {}, event, discr_of)


def child_uses(body, f, blocks, fam_bodies):
    """payload fields of the matched variant whose value flows into a comparison/hash call in `blocks`"""
    used = set()
    for b, i, pl, rv, ln in mir.assignments(body):
        if b in blocks and rv[0] in ("ref", "use"):
            src = rv[2] if rv[0] == "ref" else (rv[1][1] if rv[1][0] != "k" else None)
            if src is None:
                continue
            downs = [p for p in src[1] if isinstance(p, list) and p[0] == "as"]
            names = mir.place_fields(src)
            if downs and names:
                a = arg_root(body, [src[0], [p for p in src[1] if p == "*" or (isinstance(p, list) and p[0] == ".")][:1]]) \
                    if not (0 < src[0] <= body.d["argc"]) else src[0]
                fwd = mir.derives(body, {pl[0]})
                sink = any(c.b in blocks and c.is_("eq", "ne", "cmp", "partial_cmp", "hash", "for_each", "all", "any")
                           and any(l in fwd for x in c.args for l in mir.operand_locals(x)) for c in mir.calls(body))
                if sink:
                    used.add((a, downs[0][1], names[-1]))
    return used


def check_eq_cmp(ctx, f, cfg, V):
    eq = ctx.one([b for b in f.find(name="eq", adt=SIG, trait="core::cmp::PartialEq") if "PartialEq<" not in b.id],
                 "<Signature as PartialEq>::eq")
    cmp_ = ctx.one(f.find(name="cmp", adt=SIG, trait="core::cmp::Ord"), "<Signature as Ord>::cmp")
    names = list(V)
    # ---- eq
    bad_diff, bad_same = [], []
    try:
        for i in names:
            for j in names:
                outs = pair_eval(eq, V, i, j)
                rets = [o for o in outs if o[0] == "ret"]
                vals = {o[1].get(mir.RET, "dynamic") if not o[2] else "dynamic" for o in rets}
                if i != j and vals != {False}:
                    bad_diff.append((i, j, sorted(map(str, vals))))
                if i == j and not V[i]["fields"] and vals != {True}:
                    bad_same.append((i, sorted(map(str, vals))))
                if i == j and V[i]["fields"] and False in vals and len(vals) == 1:
                    bad_same.append((i, ["always false"]))
        ctx.ob("EQ", "eq:different-variants-unequal", not bad_diff,
               "[%s] %d ordered pairs of different variants evaluated; %s" % (cfg, len(names) * (len(names) - 1),
                                                                             "all return false" if not bad_diff else "NOT false for %s" % bad_diff[:3]), where(eq))
        ctx.ob("EQ", "eq:same-fieldless-variant-equal", not bad_same,
               "[%s] %s" % (cfg, "every fieldless variant equals itself" if not bad_same else "not true for %s" % bad_same[:3]), where(eq))
        # ---- cmp
        EQUAL = ("agg", "core::cmp::Ordering", "Equal")
        cd, cs = [], []
        for i in names:
            for j in names:
                outs = pair_eval(cmp_, V, i, j)
                rets = [o for o in outs if o[0] == "ret"]
                for kind, env, tags in rets:
                    r = env.get(mir.RET)
                    const_equal = isinstance(r, ps.Agg) and tuple(r) == EQUAL
                    if i != j and const_equal:
                        cd.append((i, j))
                    if i == j and not V[i]["fields"] and not const_equal:
                        cs.append(i)
        ctx.ob("F-CMP", "cmp:different-variants-never-Equal", not cd,
               "[%s] %s" % (cfg, "no pair of different variants compares Equal" if not cd else
                            "%d ordered pairs of different variants return the constant Ordering::Equal (e.g. %s.cmp(&%s)) "
                            "although == is false" % (len(set(cd)), cd[0][0], cd[0][1])), where(cmp_))
        ctx.ob("F-CMP", "cmp:same-fieldless-variant-Equal", not cs,
               "[%s] %s" % (cfg, "every fieldless variant compares Equal to itself" if not cs else "not Equal: %s" % sorted(set(cs))[:4]), where(cmp_))
    except ps.TooManyStates:
        ctx.ob("EQ", "evaluable", False, "[%s] state space exceeded" % cfg, where(eq))

    # ---- children and representation independence (eq, cmp, hash)
    hs = ctx.one(f.find(name="hash", adt=SIG, trait="core::hash::Hash"), "<Signature as Hash>::hash")
    tags = {}
    for body, rule, what, two in ((eq, "EQ", "eq", True), (cmp_, "F-CMP", "cmp", True), (hs, "HASH", "hash", False)):
        sb, arms, other = self_switch(ctx, f, body, what)
        fam = f.family(body)
        for name, v in V.items():
            if name not in arms:
                # a fieldless variant may legitimately be handled by a catch-all (its behaviour is decided by the
                # pair evaluation above); a container must have its own arm to look at its children
                if v["fields"]:
                    ctx.ob(rule, "%s:covers:%s" % (what, name), False, "[%s] no arm for container %s" % (cfg, name), where(body))
                continue
            blocks = arm_blocks(body, arms, other, name)
            if what == "hash":
                tag = [c for c in mir.calls(body) if c.b in blocks and c.is_("hash", "write_u8", "write_u32", "write_i32", "write_usize") and
                       ("core::hash::impls" in c.callee or "Hasher" in c.callee)]
                vals = [const_pv(body, c.args[0] if c.is_("hash") else c.args[1]) for c in tag]
                ctx.ob("HASH", "hash:tag:" + name, len(tag) >= 1 and all(isinstance(x, int) for x in vals),
                       "[%s] %s arm feeds integer tag(s) %s" % (cfg, name, vals), where(body))
                tags[name] = tuple(vals)
            if not v["fields"]:
                continue
            used = child_uses(body, f, blocks, fam)
            for fld in v["fields"]:
                sides = {a for a, var, fn in used if var == name and fn == fld}
                need = {1, 2} if two else {1}
                ctx.ob(rule, "%s:child:%s.%s" % (what, name, fld), need <= sides,
                       "[%s] %s arm of %s uses field `%s` of %s" % (cfg, name, what, fld, "both operands" if two and need <= sides else
                                                                    ("self" if need <= sides else "only %s" % sorted(sides))), where(body))
        n = nrep = 0
        for b in fam:
            for c in mir.calls(b):
                if not c.is_("eq", "ne", "cmp", "partial_cmp", "hash"):
                    continue
                n += 1
                tgt = c.fnargs or c.callee
                rep = any(x in tgt.split(" as ")[0] for x in ("signature::child::Child", "signature::fields::Fields", "alloc::boxed::Box"))
                if rep:
                    nrep += 1
                    ctx.ob(rule, "%s:representation-independent:%s" % (what, tgt.split(" as ")[0]), False,
                           "[%s] %s is called in %s: Static and Dynamic forms of the same signature behave differently" % (cfg, tgt[:120], what), c.where)
        ctx.floor(rule, "comparison/hash calls in " + what, n, 3)
        ctx.ob(rule, "%s:representation-independent" % what, nrep == 0,
               "[%s] %d eq/cmp/hash call(s) in %s, %d on Child/Fields/Box" % (cfg, n, what, nrep), where(body))
    by_tag = {}
    for name, t in tags.items():
        by_tag.setdefault(t, []).append(name)
    shared = sorted(v for v in by_tag.values() if len(v) > 1)
    ctx.ob("HASH", "hash:tags-distinct", not shared,
           "[%s] %s" % (cfg, "%d of %d variants have an arm of their own; they feed %d distinct tags" % (len(tags), len(V), len(by_tag))
                        if not shared else "variants sharing a tag: %s" % shared), where(hs))
    ctx.floor("HASH", "variant arms with a tag in hash", len(tags), 4)


# ------------------------------------------------------------------------------------- GRAMMAR / LIMITS
def check_grammar(ctx, f, cfg, rows, fam):
    many = ctx.one([b for b in fam if b.id == PARSE + "::many"], "signature::parse::many")
    reps = [c for c in mir.calls(many) if c.is_("repeat") and "winnow::combinator" in c.callee]
    ctx.floor("GRAMMAR", "repeat combinators in many", len(reps), 1)
    for c in reps:
        o = mir.origin(many, c.args[0])
        lo = None
        if o[0] == "rv" and o[1][0] == "agg" and "range::Range" in o[1][2]:
            k = mir.resolve_const(many, o[1][4][0]) if o[1][4] else None
            lo = k.get("v") if k else None
        elif o[0] == "const":
            lo = o[1].get("v")
        ctx.ob("GRAMMAR", "many:at-least-one-type", isinstance(lo, int) and lo >= 1,
               "[%s] repeat lower bound is %s" % (cfg, lo), c.where)
    parse = ctx.one([b for b in fam if b.id == PARSE], "signature::parse")
    whole = [c for c in mir.calls(parse) if c.declared == "winnow::parser::Parser::parse"]
    partial = [c for c in mir.calls(parse) if c.is_("parse_next", "parse_peek")]
    ctx.ob("GRAMMAR", "parse:whole-input", bool(whole) and not partial,
           "[%s] top-level parser run with Parser::parse (%d) / parse_next (%d)" % (cfg, len(whole), len(partial)), where(parse))
    oks = [(b, i) for b, i, pl, rv, ln in mir.assignments(parse) if pl[0] == mir.RET and rv[0] == "agg" and rv[3] == "Ok"]
    for c in whole:
        src_ok = True
        for b, i in oks:
            if not mir.block_dominates(parse, c.b, b):
                src_ok = False
        ctx.ob("GRAMMAR", "parse:ok-only-after-parser", src_ok and bool(oks), "[%s] every Ok result is dominated by the parser run" % cfg, c.where)


def int_operands(body):
    """(value, kind, line) for every integer constant operand: comparisons, call arguments, aggregates"""
    for b, i, pl, rv, ln in mir.assignments(body):
        for op in mir.rvalue_operands(rv):
            k = mir.op_const(op)
            if k is not None and isinstance(k.get("v"), int) and not isinstance(k.get("v"), bool):
                yield k["v"], rv[0] + (":" + rv[1] if rv[0] == "bin" else ""), ln
    for c in mir.calls(body):
        for a in c.args:
            k = mir.op_const(a)
            if k is not None and isinstance(k.get("v"), int) and not isinstance(k.get("v"), bool):
                yield k["v"], "arg:" + c.callee.rsplit("::", 1)[-1], c.line


def local_reach(f, fam, start):
    """body ids of the parse family reachable from `start` through direct calls and closure construction"""
    ids = {b.id: b for b in fam}
    seen, work = set(), [start]
    while work:
        x = work.pop()
        if x in seen or x not in ids:
            continue
        seen.add(x)
        b = ids[x]
        for c in mir.calls(b):
            if c.callee in ids:
                work.append(c.callee)
        for bb, i, pl, rv, ln in mir.assignments(b):
            if rv[0] == "agg" and rv[1] == "closure":
                work.append(rv[2])
    return seen


def check_limits(ctx, f, cfg, rows, fam):
    parse = [b for b in fam if b.id == PARSE][0]
    callers = {b.id for b in f.all_bodies("zvariant_utils") if b.id.startswith(MOD) and any(c.callee == PARSE for c in mir.calls(b))}
    scope = {b.id: b for b in fam}
    len_sites, depth_sites = [], []
    for b in fam:
        for v, kind, ln in int_operands(b):
            if v in (254, 255, 256):
                len_sites.append((b, kind, ln, v))
            if v in (31, 32, 33):
                depth_sites.append((b, kind, ln, v))
        for c in mir.calls(b):
            if c.is_("try_from", "try_into") and ("<u8 as" in c.fnargs or "TryInto<u8>" in c.fnargs):
                len_sites.append((b, "checked u8 conversion", c.line, 255))
    # the length check may equally sit in every caller of parse
    caller_ok = bool(callers)
    for cid in callers:
        cb = f.byid(cid)
        if not any(v in (254, 255, 256) for v, k, l in int_operands(cb)):
            caller_ok = False
    ctx.ob("LIMITS", "parse:max-length-255", bool(len_sites) or caller_ok,
           "[%s] %s" % (cfg, ("length limit operand(s): %s" % [(b.id.rsplit("::", 1)[-1], k, v) for b, k, l, v in len_sites[:3]]) if len_sites or caller_ok else
                        "no constant 255 (254..256) and no checked u8 conversion anywhere in signature::parse or its callers: "
                        "a 256-byte signature is accepted"), where(parse))
    ctx.ob("LIMITS", "parse:nesting-depth-32", bool(depth_sites),
           "[%s] %s" % (cfg, ("depth limit operand(s): %s" % [(b.id.rsplit("::", 1)[-1], k, v) for b, k, l, v in depth_sites[:3]]) if depth_sites else
                        "no constant 32 (31..33) anywhere in signature::parse: array/struct nesting is unbounded (33 nested arrays parse)"),
           where(parse))
    # dict key
    dict_rows = [r for r in rows if r[5] is not None]
    ctx.floor("LIMITS", "dict rows `a{kv}` in the parser", len(dict_rows), 1)
    for pre, suf, vs, b, ln, keyop, mapcall in dict_rows:
        kop, delim = keyop
        clo = closure_of_operand(b, f, kop)
        recursive = None
        if clo is not None:
            recursive = b.id in local_reach(f, fam, clo)
        else:
            o = mir.origin(b, kop)
            if o[0] == "call":
                # e.g. `trace("dispatch", closure)`: look at the closure arguments
                cl2 = [closure_of_operand(b, f, a) for a in o[1].args]
                cl2 = [x for x in cl2 if x]
                recursive = any(b.id in local_reach(f, fam, x) for x in cl2) if cl2 else None
        fwd = mir.derives(b, {mapcall.dest[0], delim.dest[0]})
        verified = any(c.is_("verify", "try_map", "verify_map") and any(l in fwd for a in c.args for l in mir.operand_locals(a))
                       for c in mir.calls(b))
        ok = (recursive is False) or verified
        ctx.ob("LIMITS", "parse_signature:dict-key-basic", ok,
               "[%s] %s" % (cfg, "dict key parser cannot produce containers" if ok else
                            "the key slot of `a{..}` is fed by the recursive type parser (%s) and nothing verifies the key afterwards: "
                            "`a{vs}` / `a{(i)s}` parse" % (clo or "unresolved")), where(b, ln))


def check_config(ctx, f, cfg):
    from ..core import AnchorMissing
    V = W = rows = fam = None
    try:
        V, W, rows, fam = check_tables(ctx, f, cfg)
    except AnchorMissing:
        pass
    steps = []
    if V is not None:
        steps = [lambda: check_eq_str(ctx, f, cfg, V, W), lambda: check_fmt(ctx, f, cfg), lambda: check_eq_cmp(ctx, f, cfg, V),
                 lambda: check_grammar(ctx, f, cfg, rows, fam), lambda: check_limits(ctx, f, cfg, rows, fam)]
    for s in steps:
        try:
            s()
        except AnchorMissing:
            pass


def run(ctx):
    ctx.explanation = (
        "Static rules over the MIR of zvariant_utils::signature (K1 and K2). The parser's code table (dispatch switch and "
        "combinator rows), the formatter's variant->text table and string_len's variant->length table are extracted and must be "
        "mutually inverse / equal for every variant of the enum, and PartialEq<&str> compares with the same text; PartialEq and Ord are evaluated for all ordered pairs of variants "
        "(different variants: eq false, cmp never the constant Equal; same fieldless variant: true / Equal; containers compare every "
        "child); Hash feeds a tag and every child and, like eq and cmp, only ever looks at `Signature` values (never at the "
        "Static/Dynamic representation); Display writes outer parentheses; the struct repeat has lower bound 1 and the whole input "
        "must be consumed; the numeric limits (255 bytes, depth 32, basic dict key) must be present in the parser.")
    ctx.not_decided = ("the combinator grammar beyond these clauses (e.g. `{}` only directly after `a` follows from the row shape, "
                       "alternatives' order); that the limits, once present, use the right comparison.")
    for cfg in ("K1", "K2"):
        check_config(ctx, ctx.facts(cfg), cfg)
