"""C14 — The byte stream is framed into exactly the messages that were sent (DESIGN §5.C14).

Rules over the default `ReadHalf::receive_message` coroutine, `SocketReader`, `Message::from_raw_parts` and the
handshake → reader hand-off (K1):

  SIZE      the `> MAX_MESSAGE_SIZE` (= 134217728) comparison is applied to MIN_MESSAGE_SIZE + fields_len + padding +
            body_len (fields_len from `PrimaryHeader::read`, body_len from `PrimaryHeader::body_len`); it dominates every
            allocation of a non-constant size and every `recvmsg` issued after the header was parsed; its over-limit
            edge returns Err and can reach neither.
  EOF       each `recvmsg` result count is compared with 0 on every iteration before the loop can repeat; the zero edge
            constructs an Err, returns, and cannot reach that `recvmsg` again.
  LOOP      each `recvmsg` fills `bytes[pos..]`, `pos` is only ever `bytes.len()` or `pos + <count of that recvmsg>`, and
            the loop runs under `pos < K` for the K the buffer was resized to.
  SEQ       `SocketReader.prev_seq` is written only in `read_socket`, with the value `prev_seq + 1` that was passed to
            `receive_message`, and only on the success edge of that call; `receive_message` hands its `seq` to
            `Message::from_raw_parts`, which stores it as `Inner.recv_seq`; every workspace implementation of
            `ReadHalf::receive_message` uses the `seq` it is given (stamps or forwards it).
  HANDOFF   every link of `Common.recv_buffer/received_fds → into_components → Authenticated.already_received_* →
            connection builder → init_socket_reader → SocketReader::new → SocketReader.already_received_* →
            receive_message` is present (field-to-argument flow facts; client and server handshakes); leftover bytes are
            consumed from the front (`drain(..n)`) into the message buffer before any socket read of the second loop.
  FDS-FIRST when fds were left over from the handshake, the fd list handed to the message is <left-over fds> followed by
            <fds received with this message> (symbolic execution of the drain/collect/swap/extend statements).
  FDS-COUNT when left-over fds exist and the message's declared fd count is already met by the fds received with it
            (`required - received == 0`), the message must still be completed (the left-over fds belong to a later message).
  AUDIT     every range-indexing / `drain(range)` site of `receive_message` is discharged by a recognised guard on the
            same container (resize-to-K + `pos < K`; `len < k` test; `min(_, len)`; part of the sum the buffer was
            resized to).  Overflow asserts of the length arithmetic are not audited here.

Unchanged tree: AUDIT reports `already_received_fds.drain(..num_pending)` (num_pending comes from the message header and
is never compared with the number of left-over fds — DESIGN §7 K-C14), FDS-COUNT reports that `num_pending == 0`
returns `MissingParameter` (an fd-less message that precedes the owner of the left-over fds is rejected), and SEQ reports
that the in-process `channel::Reader::receive_message` ignores `seq`.

Not decided: that the loops copy the right byte counts; arithmetic overflow; behaviour of transports' `recvmsg`.
"""
import re
from .. import mir
from .. import lib_flow as fl
from ..lib_flow import sources

META = {
    "technique": "dominance / reachability + backward value slices on the receive_message coroutine, who-writes on prev_seq, field-to-argument flow along the handshake hand-off, small symbolic execution of the fd list, guard recognition for range sites",
    "level": "Decides the structural premises of correct framing: the size limit is checked on the declared total before anything "
             "of that size is allocated or read; both read loops fail on end-of-stream; the receive sequence is the incremented "
             "counter and is stored only on success; handshake left-overs reach the reader through every link and go first; "
             "each slicing site is guarded. It does not decide byte counts or arithmetic.",
}

SR = "zbus::connection::socket_reader::SocketReader"
PH = "zbus::message::header::PrimaryHeader"
AUTH = "zbus::connection::handshake::Authenticated"
COMMON = "zbus::connection::handshake::common::Common"
TRAIT = "zbus::connection::socket::ReadHalf"
INNER = "zbus::message::Inner"
AWAIT = ("poll", "new_unchecked", "get_context")


def asrc(body, op, **kw):
    """sources() that also looks through the await desugaring (poll of the pinned awaitee)"""
    return sources(body, op, extra_transparent=AWAIT + tuple(kw.pop("extra", ())), **kw)


def place_id(body, op):
    """identity of the container an operand refers to: (base local, (field names...)); None if not a place"""
    o = mir.origin(body, op)
    if o[0] in ("ref", "place"):
        return (o[1][0], tuple(p[2] for p in o[1][1] if isinstance(p, list) and p[0] == "."))
    if o[0] == "call" and o[1].is_("deref", "deref_mut", "as_mut", "as_ref", "as_slice", "as_mut_slice") and o[1].args:
        return place_id(body, o[1].args[0])
    return None


def pid_str(body, pid):
    if pid is None:
        return "?"
    nm = mir.local_name(body, pid[0]) or "_%d" % pid[0]
    return ".".join((nm,) + pid[1]) if not (pid[1] and nm.startswith("_")) else ".".join(pid[1])


def range_of(body, op):
    """('RangeFrom'|'RangeTo'|'Range'|'RangeFull'|'RangeInclusive'|.., [bound operands]) for a range argument"""
    o = mir.origin(body, op)
    if o[0] == "rv" and o[1][0] == "agg" and "::range::Range" in o[1][2]:
        return o[1][2].rsplit("::", 1)[-1], list(o[1][4])
    if o[0] == "const" and "RangeFull" in (o[1].get("ty") or ""):
        return "RangeFull", []
    return None, []


def const_val(body, op):
    k = mir.resolve_const(body, op)
    return k.get("v") if k is not None else None


def is_recvmsg(c):
    return c.declared == TRAIT + "::recvmsg" or (c.is_("recvmsg") and "ReadHalf" in (c.fnargs or c.callee))


def cmp_with_const(body, want=None):
    """yield (sb, op, var_operand, const_value, var_on_left, true_t, false_t, line)"""
    for sb, op, l, r, tt, ft, ln in mir.cmp_switches(body):
        kl, kr = const_val(body, l), const_val(body, r)
        if kr is not None and kl is None:
            yield sb, op, l, kr, True, tt, ft, ln
        elif kl is not None and kr is None:
            yield sb, op, r, kl, False, tt, ft, ln


# ------------------------------------------------------------------------------------------ receive_message
def rules_receive(ctx, f):
    root = ctx.one([b for b in f.find(name="receive_message") if b.id == TRAIT + "::receive_message"], "default ReadHalf::receive_message")
    recv = ctx.one([b for b in f.children.get(root.id, []) if b.kind == "coroutine"], "coroutine of default receive_message")
    cs = mir.calls(recv)
    MAXV = (f.consts.get("zbus::message::header::MAX_MESSAGE_SIZE") or {}).get("v")
    MINV = (f.consts.get("zbus::message::header::MIN_MESSAGE_SIZE") or {}).get("v")
    ctx.ob("SIZE", "constant", MAXV == 134217728, "MAX_MESSAGE_SIZE = %s (spec: 128 MiB = 134217728)" % MAXV, "zbus/src/message/header.rs")
    errs = fl.err_blocks(recv)
    rets = set(mir.exits(recv))
    recvs = [c for c in cs if is_recvmsg(c)]
    ctx.floor("EOF", "recvmsg calls in receive_message", len(recvs), 2)
    reads = [c for c in cs if c.callee == PH + "::read"]
    ctx.ob("SIZE", "header-parsed-once", len(reads) == 1, "%d PrimaryHeader::read call(s)" % len(reads), recv.where)
    if len(reads) != 1:
        return recv
    rd = reads[0]
    after_hdr = mir.reachable(recv, mir.succs(recv)[rd.b])

    # ---- SIZE
    found = 0
    for sb, op, var, k, left, tt, ft, ln in cmp_with_const(recv):
        if k != MAXV:
            continue
        where = "%s:%d" % (recv.file, ln)
        if left:
            over = tt if op == "Gt" else (ft if op == "Le" else None)
        else:
            over = tt if op == "Lt" else (ft if op == "Ge" else None)
        if over is None:
            ctx.ob("SIZE", "strict", False, "size limit compared with `%s` (exactly 128 MiB must pass, anything larger must not)" % op, where)
            continue
        found += 1
        s = asrc(recv, var)
        parts = {
            "fields_len": rd in s.calls,
            "padding": bool([c for c in s.calls if c.is_("padding_for_8_bytes")]),
            "body_len": bool([c for c in s.calls if c.callee == PH + "::body_len"]),
            "MIN_MESSAGE_SIZE": MINV in s.const_values(),
        }
        extra = [c.callee for c in s.calls if c is not rd and not c.is_("padding_for_8_bytes") and c.callee != PH + "::body_len"]
        ctx.ob("SIZE", "total", all(parts.values()) and not extra and set(s.binops) <= {"Add", "AddWithOverflow"},
               "compared value = sum of %s%s" % ([k_ for k_, v in parts.items() if v], (" and " + str(extra)) if extra else ""), where)
        reach = mir.reachable(recv, [over])
        allocs = [c for c in cs if c.is_("resize", "reserve", "reserve_exact", "with_capacity", "resize_with") and "Vec" in c.callee
                  and const_val(recv, c.args[1] if len(c.args) > 1 else c.args[0]) is None]
        late_reads = [c for c in recvs if c.b in after_hdr]
        ctx.floor("SIZE", "allocations of a computed size", len(allocs), 1)
        ctx.floor("SIZE", "recvmsg calls after the header", len(late_reads), 1)
        ctx.ob("SIZE", "over-limit-is-error", bool(errs & reach) and bool(rets & reach) and not any(c.b in reach for c in allocs + late_reads),
               "the over-limit edge returns Err without allocating or reading", where)
        for c in allocs:
            ctx.ob("SIZE", "check-before-%s" % c.callee.rsplit("::", 1)[-1], mir.block_dominates(recv, sb, c.b), "size check dominates the allocation", c.where)
        for c in late_reads:
            ctx.ob("SIZE", "check-before-read", mir.block_dominates(recv, sb, c.b), "size check dominates the body read loop", c.where)
        ctx.ob("SIZE", "check-after-header", mir.block_dominates(recv, rd.b, sb), "size check uses the parsed header", where)
    ctx.ob("SIZE", "present", found == 1, "%d comparison(s) with MAX_MESSAGE_SIZE in receive_message" % found, recv.where)

    # ---- EOF / LOOP per recvmsg
    for n, c in enumerate(sorted(recvs, key=lambda x: (x.b in after_hdr, x.b))):
        tag = "body" if c.b in after_hdr else "header"
        zero = []
        for sb, op, var, k, left, tt, ft, ln in cmp_with_const(recv):
            if k != 0 or op not in ("Eq", "Ne"):
                continue
            s = asrc(recv, var)
            if c not in s.calls or len([x for x in s.calls if is_recvmsg(x)]) != 1:
                continue
            zero.append((sb, tt if op == "Eq" else ft, ln))
        ctx.ob("EOF", "%s:zero-test" % tag, len(zero) >= 1, "the byte count returned by recvmsg is compared with 0", c.where)
        for sb, ze, ln in zero:
            where = "%s:%d" % (recv.file, ln)
            reach = mir.reachable(recv, [ze])
            ctx.ob("EOF", "%s:zero-is-error" % tag, bool(errs & reach) and bool(rets & reach) and c.b not in reach and
                   not [x for x in recvs if x.b in reach], "a 0-byte read returns Err and never reads again", where)
            again = mir.reachable(recv, mir.succs(recv)[c.b], avoid={sb})
            ctx.ob("EOF", "%s:tested-every-iteration" % tag, c.b not in again and mir.block_dominates(recv, c.b, sb),
                   "the loop cannot repeat the read without passing the zero test", where)
        # LOOP
        bo = mir.origin(recv, c.args[1])
        pos = cont = None
        if bo[0] == "call" and bo[1].is_("index_mut", "index") and len(bo[1].args) > 1:
            kind, bounds = range_of(recv, bo[1].args[1])
            if kind == "RangeFrom":
                pos = mir.root_local(recv, bounds[0])
                cont = place_id(recv, bo[1].args[0])
        ctx.ob("LOOP", "%s:buffer-is-bytes[pos..]" % tag, pos is not None and cont is not None,
               "recvmsg fills %s[%s..]" % (pid_str(recv, cont), mir.local_name(recv, pos)) if pos is not None else "recvmsg buffer is not a `[pos..]` slice", c.where)
        if pos is None:
            continue
        okp, why = True, []
        for d in mir.defs_of(recv, pos):
            if d[0] == "call":
                good = d[1].is_("len") and place_id(recv, d[1].args[0]) == cont
                why.append("%s.len()" % pid_str(recv, place_id(recv, d[1].args[0])) if d[1].is_("len") else d[1].callee)
                okp = okp and good
            else:
                rv = d[4]
                rb = None
                if rv[0] == "use":
                    pl = mir.op_place(rv[1])
                    src = mir.single_def(recv, pl[0]) if pl else None
                    if src and src[0] == "assign" and src[4][0] == "bin":
                        rb = src[4]
                if rb is not None and rb[1] in ("Add", "AddWithOverflow"):
                    a, b_ = rb[2], rb[3]
                    other = b_ if mir.root_local(recv, a) == pos else (a if mir.root_local(recv, b_) == pos else None)
                    so = asrc(recv, other) if other is not None else None
                    good = so is not None and c in so.calls and len([x for x in so.calls if is_recvmsg(x)]) == 1
                    why.append("pos + count" if good else "pos + <other>")
                    okp = okp and good
                else:
                    why.append("other assignment")
                    okp = False
        ctx.ob("LOOP", "%s:pos-advances-by-count" % tag, okp and len(why) >= 2, "definitions of pos: %s" % why, c.where)
        heads = []
        for sb, op, l, r, tt, ft, ln in mir.cmp_switches(recv):
            if op == "Lt" and mir.root_local(recv, l) == pos and mir.block_dominates(recv, tt, c.b):
                heads.append((sb, r, ln))
            elif op == "Gt" and mir.root_local(recv, r) == pos and mir.block_dominates(recv, tt, c.b):
                heads.append((sb, l, ln))
        rz = [x for x in cs if x.is_("resize") and place_id(recv, x.args[0]) == cont and mir.block_dominates(recv, x.b, c.b)]
        ok = False
        for sb, K, ln in heads:
            for x in rz:
                kk, kr = const_val(recv, K), const_val(recv, x.args[1])
                if (kk is not None and kk == kr) or (kk is None and kr is None and mir.root_local(recv, K) == mir.root_local(recv, x.args[1])):
                    ok = True
        ctx.ob("LOOP", "%s:while-pos<K" % tag, ok, "the read is issued under `pos < K` for the K the buffer was resized to", c.where)
    return recv


# ------------------------------------------------------------------------------------------ AUDIT
def audit(ctx, f, recv):
    cs = mir.calls(recv)
    sites = []
    for c in cs:
        if c.is_("drain", "index", "index_mut", "split_at", "split_off", "split_at_mut") and c.args and len(c.args) > 1:
            if not ("Vec" in c.callee or "slice" in c.callee or "[" in c.fnargs):
                continue
            sites.append(c)
    ctx.floor("AUDIT", "range sites in receive_message", len(sites), 5)
    for c in sites:
        cont = place_id(recv, c.args[0])
        kind, bounds = range_of(recv, c.args[1])
        name = "%s(%s)" % (c.callee.rsplit("::", 1)[-1], pid_str(recv, cont))
        if kind is None:
            k = const_val(recv, c.args[1])
            ctx.ob("AUDIT", "%s[?]" % name, False, "unrecognised index expression", c.where)
            continue
        if kind == "RangeFull":
            ctx.ob("AUDIT", "%s[..]" % name, True, "full range", c.where)
            continue
        lens = [x for x in cs if x.is_("len") and place_id(recv, x.args[0]) == cont]
        resizes = [x for x in cs if x.is_("resize") and place_id(recv, x.args[0]) == cont and mir.block_dominates(recv, x.b, c.b)]

        def desc(op):
            k = const_val(recv, op)
            if k is not None:
                return str(k)
            return mir.local_name(recv, mir.root_local(recv, op)) or "_"
        key = "%s[%s]" % (name, {"RangeFrom": "%s..", "RangeTo": "..%s", "Range": "%s..%s", "RangeToInclusive": "..=%s", "RangeInclusive": "%s..=%s"}.get(kind, kind) % tuple(desc(b) for b in bounds))
        ok, why = False, "no recognised guard relates the bound to the length of %s" % pid_str(recv, cont)
        if kind == "RangeFrom":
            start = bounds[0]
            sl = mir.root_local(recv, start)
            for sb, op, l, r, tt, ft, ln in mir.cmp_switches(recv):
                K = None
                if op in ("Lt", "Le") and mir.root_local(recv, l) == sl and mir.block_dominates(recv, tt, c.b):
                    K = r
                elif op in ("Gt", "Ge") and mir.root_local(recv, r) == sl and mir.block_dominates(recv, tt, c.b):
                    K = l
                if K is None:
                    continue
                for x in resizes:
                    kk, kr = const_val(recv, K), const_val(recv, x.args[1])
                    if (kk is not None and kk == kr) or (kk is None and kr is None and mir.root_local(recv, K) == mir.root_local(recv, x.args[1])):
                        ok, why = True, "start < K on the dominating loop test and the buffer was resized to K"
        elif kind in ("RangeTo", "Range"):
            end = bounds[-1]
            ke = const_val(recv, end)
            se = asrc(recv, end, extra=("min",), follow_all_args=True)
            # G3 / G5: end is min(_, len(cont)) or len(cont)
            if [x for x in se.through if x.is_("min")] and [x for x in se.calls if x in lens]:
                ok, why = True, "bound is min(_, %s.len())" % pid_str(recv, cont)
            elif [x for x in sources(recv, end).calls if x in lens] and not sources(recv, end).binops and len(sources(recv, end).calls) == 1:
                ok, why = True, "bound is the container's own length"
            # G2: constant bound under a `len < k` test (false edge)
            if not ok and ke is not None:
                for sb, op, var, k, left, tt, ft, ln in cmp_with_const(recv):
                    sv = sources(recv, var)
                    if not [x for x in sv.calls if x in lens] or sv.binops:
                        continue
                    ge_edge = None
                    if left:
                        ge_edge = ft if op == "Lt" else (tt if op == "Ge" else None)
                    else:
                        ge_edge = ft if op == "Gt" else (tt if op == "Le" else None)
                    if ge_edge is not None and k >= ke and mir.block_dominates(recv, ge_edge, c.b):
                        ok, why = True, "under the `len >= %d` edge of a test of the same container" % k
            # G6: a dominating comparison of the bound with the container's own length implies bound <= len
            if not ok and ke is None:
                el = mir.root_local(recv, end)
                for sb, op, l, r, tt, ft, ln in mir.cmp_switches(recv):
                    edge = None
                    if mir.root_local(recv, l) == el and [x for x in sources(recv, r).calls if x in lens] and not sources(recv, r).binops:
                        edge = {"Gt": ft, "Le": tt, "Lt": tt, "Ge": None, "Eq": tt}.get(op)
                    elif mir.root_local(recv, r) == el and [x for x in sources(recv, l).calls if x in lens] and not sources(recv, l).binops:
                        edge = {"Lt": ft, "Ge": tt, "Gt": tt, "Le": None, "Eq": tt}.get(op)
                    if edge is not None and mir.block_dominates(recv, edge, c.b):
                        ok, why = True, "under the `bound <= %s.len()` edge of a dominating comparison (line %d)" % (pid_str(recv, cont), ln)
            # G4: bound is a summand of the total the buffer was resized to
            if not ok and ke is None:
                el = mir.root_local(recv, end)
                for x in resizes:
                    st = asrc(recv, x.args[1])
                    if el in st.locals and set(st.binops) <= {"Add", "AddWithOverflow"}:
                        lo_ok = True
                        if kind == "Range":
                            ks = const_val(recv, bounds[0])
                            sm = asrc(recv, end)
                            lo_ok = ks is not None and any(isinstance(v, int) and v >= ks for v in sm.const_values()) and set(sm.binops) <= {"Add", "AddWithOverflow"}
                        if lo_ok:
                            ok, why = True, "bound is a summand of the length the buffer was resized to"
        ctx.ob("AUDIT", key, ok, why + ("" if ok else "; the bound comes from %s" % sorted({x.callee.rsplit("::", 2)[-2] + "::" + x.callee.rsplit("::", 1)[-1]
               for x in asrc(recv, bounds[-1]).calls}) if bounds else ""), c.where)


# ------------------------------------------------------------------------------------------ HS-FDS
def handshake_fds_kept(ctx, f):
    """HANDOFF:handshake-fds-kept (added after seeded change C14b): the read that delivers the last handshake line can
    also deliver the first bytes of the first message and the fds attached to them. Whatever `recvmsg` returns during
    the handshake must therefore reach `Common.received_fds`: the `extend` may depend on the fd list being empty and
    on nothing else (not on negotiated state that is only set after the line has been parsed)."""
    rc = [b for b in f.all_bodies("zbus") if b.root == "zbus::connection::handshake::common::Common::read_commands" and b.kind == "coroutine"]
    n = 0
    for b in rc:
        recvs = [c for c in mir.calls(b) if is_recvmsg(c)]
        for ex in mir.calls(b):
            if not (ex.is_("extend", "append", "extend_from_slice") and ex.args):
                continue
            o = mir.origin(b, ex.args[0])
            if not (o[0] in ("place", "ref") and "received_fds" in mir.place_fields(o[1])):
                continue
            n += 1
            bad = None
            for sb, t in mir.switches(b):
                if t[2] != "bool":
                    continue
                tt, ft = mir.bool_switch_edges(t)
                doms = [e for e in (tt, ft) if e is not None and mir.block_dominates(b, e, ex.b)]
                both = all(e is not None and mir.block_dominates(b, e, ex.b) for e in (tt, ft))
                if not doms or both:
                    continue
                # only tests made after the read matter
                if not any(sb in mir.reachable(b, [r.b]) for r in recvs):
                    continue
                co = mir.origin(b, t[1])
                if co[0] == "rv" and co[1][0] == "un" and co[1][1] == "Not":
                    co = mir.origin(b, co[1][2])
                if co[0] == "call" and co[1].is_("is_empty"):
                    continue
                # tracing-macro conditions sit in expansions
                if (t[6] or "").find("event!") >= 0 or (t[6] or "").find("trace!") >= 0 or (t[6] or "").find("Await") >= 0 or (t[6] or "").find("QuestionMark") >= 0:
                    continue
                bad = (sb, t[5])
            ctx.ob("HANDOFF", "read_commands:handshake-fds-kept", bad is None,
                   "fds returned by recvmsg during the handshake are appended to received_fds whenever there are any" if bad is None else
                   "keeping the fds read during the handshake also depends on a condition tested at line %d: fds that arrive with the tail of the "
                   "handshake are dropped and the first message loses them" % bad[1], ex.where)
    ctx.floor("HANDOFF", "appends to Common.received_fds in read_commands", n, 1)


# ------------------------------------------------------------------------------------------ NO-TRUNC
def no_trunc(ctx, f, recv):
    """NO-TRUNC (added after seeded change C14): bytes moved from the handshake left-over into the message buffer must
    not be dropped by the following `resize(total)`. For every `extend` of the buffer that is later resized to a
    computed length T, the number of bytes taken (`drain(..k)`) is `min(T - buffer.len(), ..)`: the bound derives
    from a subtraction of the buffer's current length from T. Otherwise surplus bytes (the start of the next
    pipelined message) are taken out of the left-over and truncated away."""
    cs = mir.calls(recv)
    resizes = [c for c in cs if c.is_("resize") and "Vec" in c.callee and const_val(recv, c.args[1]) is None]
    n = 0
    for rz in resizes:
        cont = place_id(recv, rz.args[0])
        T = mir.root_local(recv, rz.args[1])
        for ex in cs:
            if not (ex.is_("extend", "extend_from_slice", "append") and place_id(recv, ex.args[0]) == cont):
                continue
            if rz.b not in mir.reachable(recv, [ex.b]):
                continue
            # what is extended from: a drain of another container
            src = mir.origin(recv, ex.args[1])
            if not (src[0] == "call" and src[1].is_("drain")):
                continue
            n += 1
            kind, bounds = range_of(recv, src[1].args[1])
            ok, why = False, "the drained range is not `..k`"
            if kind == "RangeTo":
                k = bounds[0]
                se = asrc(recv, k, extra=("min",), follow_all_args=True)
                ok = False
                why = "k is not bounded by `%s - buffer.len()`" % (mir.local_name(recv, T) or "total")
                # look for Sub(T, len(cont)) among the binary operations feeding k
                work, seen = [k], set()
                while work:
                    op = work.pop()
                    o = mir.origin(recv, op)
                    key = repr(o)[:200]
                    if key in seen:
                        continue
                    seen.add(key)
                    if o[0] == "call" and o[1].is_("min") and "cmp" in o[1].callee:
                        work.extend(o[1].args)
                    elif o[0] == "rv" and o[1][0] == "bin" and o[1][1] in ("Sub", "SubWithOverflow"):
                        a, b_ = o[1][2], o[1][3]
                        lb = mir.origin(recv, b_)
                        if mir.root_local(recv, a) == T and lb[0] == "call" and lb[1].is_("len") and place_id(recv, lb[1].args[0]) == cont:
                            ok, why = True, "k = min(%s - buffer.len(), ..)" % (mir.local_name(recv, T) or "total")
                    elif o[0] == "place" and not o[1][1]:
                        d = mir.single_def(recv, o[1][0])
                        if d and d[0] == "assign" and d[4][0] == "bin" and d[4][1] in ("Sub", "SubWithOverflow"):
                            a, b_ = d[4][2], d[4][3]
                            lb = mir.origin(recv, b_)
                            if mir.root_local(recv, a) == T and lb[0] == "call" and lb[1].is_("len") and place_id(recv, lb[1].args[0]) == cont:
                                ok, why = True, "k = min(%s - buffer.len(), ..)" % (mir.local_name(recv, T) or "total")
                        elif d and d[0] == "assign" and d[4][0] == "use":
                            work.append(d[4][1])
                    elif o[0] == "place" and o[1][1]:
                        # `.0` of a checked subtraction
                        d = mir.single_def(recv, o[1][0])
                        if d and d[0] == "assign" and d[4][0] == "bin" and d[4][1] in ("Sub", "SubWithOverflow"):
                            a, b_ = d[4][2], d[4][3]
                            lb = mir.origin(recv, b_)
                            if mir.root_local(recv, a) == T and lb[0] == "call" and lb[1].is_("len") and place_id(recv, lb[1].args[0]) == cont:
                                ok, why = True, "k = min(%s - buffer.len(), ..)" % (mir.local_name(recv, T) or "total")
            ctx.ob("NO-TRUNC", "extend(%s)<-drain(%s)" % (pid_str(recv, cont), pid_str(recv, place_id(recv, src[1].args[0]))), ok,
                   why if ok else why + ": bytes beyond the end of this message are taken from the left-over and then cut off by resize(%s)" % (mir.local_name(recv, T) or "total"), ex.where)
    ctx.floor("NO-TRUNC", "left-over drains feeding a buffer that is resized afterwards", n, 1)


# ------------------------------------------------------------------------------------------ FDS-FIRST
def fds_first(ctx, f, recv):
    cs = mir.calls(recv)
    datas = [c for c in cs if c.is_("new_fds") and "serialized::data::Data" in c.callee]
    ctx.ob("FDS-FIRST", "one-data", len(datas) == 1, "%d Data::new_fds call(s)" % len(datas), recv.where)
    if len(datas) != 1:
        return
    data = datas[0]
    F = mir.root_local(recv, data.args[2])
    recvs = [c for c in cs if is_recvmsg(c)]
    # the `!already_received_fds.is_empty()` branch
    gates = []
    for sb, call, tt, ft, neg in mir.call_bool_switches(recv):
        if call.is_("is_empty"):
            pid = place_id(recv, call.args[0])
            if pid and "already_received_fds" in pid[1]:
                gates.append((sb, ft, tt, pid))
    if not ctx.ob("FDS-FIRST", "gate", len(gates) == 1, "one `already_received_fds.is_empty()` test", recv.where):
        return
    sb, nonempty, empty, arf = gates[0]
    ctx.ob("FDS-FIRST", "gate-after-reads", all(mir.block_dominates(recv, c.b, sb) or c.b not in mir.reachable(recv, [sb]) for c in recvs) and
           not [c for c in recvs if c.b in mir.reachable(recv, [sb])], "the fd list is assembled after the last socket read", "%s:%d" % (recv.file, mir.term(recv, sb)[5]))
    ctx.ob("FDS-FIRST", "gate-before-data", mir.block_dominates(recv, sb, data.b), "the fd list is assembled before the message data is built", data.where)
    # symbolic state: F holds the fds received with this message ('new'); run the statements of the non-empty branch
    region = mir.region(recv, nonempty)
    state = {("L", F): ["new"]}
    seq_calls = sorted([c for c in cs if c.b in region], key=lambda c: sum(1 for d in cs if d.b in region and mir.block_dominates(recv, d.b, c.b)))

    def key_of(op):
        pid = place_id(recv, op)
        if pid is None:
            return None
        if pid[1]:
            return ("P",) + pid
        return ("L", mir.root_local(recv, ["c", [pid[0], []]]) if mir.local_name(recv, pid[0]) is None else pid[0])

    state[("P",) + arf] = ["old"]
    unknown = []
    for c in seq_calls:
        if not c.args:
            continue
        if c.is_("drain") and "Vec" in c.callee:
            k = key_of(c.args[0])
            kind, _ = range_of(recv, c.args[1])
            if k in state and kind in ("RangeTo", "RangeFull", "Range"):
                state[("L", c.dest[0])] = list(state[k])   # front part (order preserved)
            continue
        if c.is_("collect", "into_iter", "rev") and not c.is_("rev"):
            k = ("L", mir.root_local(recv, c.args[0]))
            if k in state:
                state[("L", c.dest[0])] = list(state[k])
            continue
        if c.is_("swap") and c.callee.startswith("core::mem::"):
            a, b = key_of(c.args[0]), key_of(c.args[1])
            if a is not None and b is not None:
                state[a], state[b] = state.get(b, ["?"]), state.get(a, ["?"])
            continue
        if c.is_("extend", "append") and "Vec" in c.callee:
            a = key_of(c.args[0])
            b = key_of(c.args[1]) or ("L", mir.root_local(recv, c.args[1]))
            if a in state:
                state[a] = state[a] + state.get(b, ["?"])
                continue
        k0 = key_of(c.args[0])
        if k0 in state and c.is_("insert", "splice", "push", "truncate", "clear", "reverse", "sort", "retain", "remove", "swap_remove", "rotate_left", "rotate_right", "split_off"):
            unknown.append(c.callee)
            state[k0] = ["?"]
    got = state.get(("L", F))
    ctx.ob("FDS-FIRST", "old-then-new", got == ["old", "new"] and not unknown,
           "with left-over fds the message gets [%s]" % ", ".join({"old": "left-over fds", "new": "fds received with the message"}.get(x, x) for x in (got or ["?"])),
           data.where)
    # FDS-COUNT: a message whose declared fd count is already satisfied by the fds received with it must pass
    # even though left-over fds (of a later message) exist
    lens_F = [c for c in cs if c.is_("len") and key_of(c.args[0]) == ("L", F)]
    for sb2, op, var, k, left, tt, ft, ln in cmp_with_const(recv):
        if k != 0 or op not in ("Eq", "Ne") or sb2 not in region:
            continue
        sv = asrc(recv, var, extra=("checked_sub", "saturating_sub", "wrapping_sub"), follow_all_args=True)
        if not ([c for c in sv.calls if c in lens_F] and "unix_fds" in sv.field_names()):
            continue
        ze = tt if op == "Eq" else ft
        reach = mir.reachable(recv, [ze])
        ctx.ob("FDS-COUNT", "no-leftover-fd-needed-is-accepted", data.b in reach,
               "declared fd count == fds received with the message, while left-over fds exist: " +
               ("the message is completed" if data.b in reach else
                "receive_message returns Err — a valid fd-less (or already satisfied) message that precedes the owner of the left-over fds is rejected"),
               "%s:%d" % (recv.file, ln))
    # on the empty path nothing touches the list
    ctx.ob("FDS-FIRST", "empty-path-untouched", not [c for c in cs if c.b in (mir.reachable(recv, [empty], avoid={data.b}) - region) and c.args and key_of(c.args[0]) == ("L", F)],
           "without left-overs the received fds are passed through unchanged", data.where)
    # every fd received by recvmsg is collected into F
    for c in recvs:
        ext = [x for x in cs if x.is_("extend") and key_of(x.args[0]) == ("L", F) and c in asrc(recv, x.args[1]).calls]
        ctx.ob("FDS-FIRST", "collect-received-fds", bool(ext) and all(mir.block_dominates(recv, c.b, x.b) for x in ext),
               "fds returned by recvmsg are appended to the message's fd list", c.where)


# ------------------------------------------------------------------------------------------ SEQ
def seq_rules(ctx, f, recv):
    # who writes prev_seq
    writers = []
    for b in f.all_bodies("zbus"):
        for w in fl.field_writes(b, SR, "prev_seq"):
            writers.append((b, w))
    ctx.floor("SEQ", "writes of SocketReader.prev_seq", len(writers), 1)
    rs_root = ctx.one(f.find(name="read_socket", adt=SR, trait=""), "SocketReader::read_socket")
    for b, w in writers:
        ctx.ob("SEQ", "writer:%s" % b.root, b.root == rs_root.id, "prev_seq is written in %s" % b.root, "%s:%d" % (b.file, w[4]))
    new = ctx.one(f.find(name="new", adt=SR, trait=""), "SocketReader::new")
    for b_, i, rv, ln in fl.adt_aggregates(new, SR):
        k = mir.resolve_const(new, fl.agg_field(rv, "prev_seq"))
        ctx.ob("SEQ", "starts-at-0", k is not None and k.get("v") == 0, "prev_seq starts at %s" % (k.get("v") if k else "?"), "%s:%d" % (new.file, ln))
    aggs_elsewhere = [b for b in f.all_bodies("zbus") if b.id != new.id and fl.adt_aggregates(b, SR)]
    ctx.ob("SEQ", "one-constructor", not aggs_elsewhere, "SocketReader is built only by SocketReader::new", new.where)
    bodies = [b for b in f.family(rs_root) if [c for c in mir.calls(b) if c.is_("receive_message") and "ReadHalf" in c.callee]]
    rs = ctx.one(bodies, "coroutine of read_socket that calls receive_message")
    rm = ctx.one([c for c in mir.calls(rs) if c.is_("receive_message") and "ReadHalf" in c.callee], "receive_message call in read_socket")
    seq = mir.root_local(rs, rm.args[1])
    rb = fl.resolve_bin(rs, ["c", [seq, []]]) if seq is not None else None
    ok = False
    detail = "seq passed to receive_message is not prev_seq + 1"
    if fl.is_add(rb):
        for a, b_ in ((rb[2], rb[3]), (rb[3], rb[2])):
            if const_val(rs, b_) == 1:
                oa = mir.origin(rs, a)
                last = [p for p in oa[1][1] if isinstance(p, list) and p[0] == "."][-1:] if oa[0] == "place" else []
                if last and last[0][2] == "prev_seq" and last[0][3] == SR:
                    ok, detail = True, "receive_message gets `%s` = prev_seq + 1" % mir.local_name(rs, seq)
    ctx.ob("SEQ", "seq=prev_seq+1", ok, detail, rm.where)
    for w in fl.field_writes(rs, SR, "prev_seq"):
        b_, i, pl, rv, ln, _ = w
        where = "%s:%d" % (rs.file, ln)
        ctx.ob("SEQ", "stores-passed-seq", rv[0] == "use" and mir.root_local(rs, rv[1]) == seq, "prev_seq := the seq that was passed to receive_message", where)
        # success edge only: dominated by the Continue arm of the `?` on the awaited result
        okc = False
        for sb, place, adt, arms, other in mir.discr_switches(rs, f):
            if not adt.endswith("ControlFlow"):
                continue
            s = asrc(rs, ["c", place])
            if rm not in s.calls:
                continue
            cont = arms.get("Continue", arms.get("0"))
            brk = arms.get("Break", arms.get("1"))
            if cont is not None and mir.block_dominates(rs, cont, b_) and (brk is None or b_ not in mir.reachable(rs, [brk])):
                okc = True
        ctx.ob("SEQ", "stored-on-success-only", okc, "prev_seq is advanced only when receive_message returned Ok", where)
    # receive_message -> from_raw_parts -> Inner.recv_seq
    frp = [c for c in mir.calls(recv) if c.callee == "zbus::message::Message::from_raw_parts"]
    ctx.floor("SEQ", "from_raw_parts calls in receive_message", len(frp), 1)
    for c in frp:
        s = sources(recv, c.args[1])
        ctx.ob("SEQ", "receive_message-stamps-seq", "seq" in [n for n, o in s.fields if str(o).startswith("upvar:")] and not s.calls and not s.binops and not s.consts,
               "the message is built with the `seq` parameter", c.where)
    fr = ctx.one(f.find(name="from_raw_parts", adt="zbus::message::Message", trait=""), "Message::from_raw_parts")
    for b_, i, rv, ln in fl.adt_aggregates(fr, INNER):
        s = sources(fr, fl.agg_field(rv, "recv_seq"))
        ctx.ob("SEQ", "from_raw_parts-stores-seq", s.args == {2} and not s.calls and not s.binops and not s.consts, "Inner.recv_seq is the recv_seq argument", "%s:%d" % (fr.file, ln))
    # every implementation uses its seq
    impls = [b for b in f.find(name="receive_message") if b.d.get("impl_trait") == TRAIT or b.id == TRAIT + "::receive_message"]
    ctx.floor("SEQ", "implementations of ReadHalf::receive_message", len(impls), 2)
    for im in impls:
        fam = f.family(im)
        used = False
        for b in fam:
            for c in mir.calls(b):
                if c.callee == "zbus::message::Message::from_raw_parts" or (c.is_("receive_message") and "ReadHalf" in c.callee):
                    s = sources(b, c.args[1])
                    if 2 in s.args or "seq" in [n.lstrip("_") for n, o in s.fields if str(o).startswith("upvar:")]:
                        used = True
        who = im.d.get("impl_self") or "default"
        ctx.ob("SEQ", "impl-uses-seq:%s" % who, used,
               ("%s::receive_message stamps/forwards the seq it is given" % who) if used else
               ("%s::receive_message ignores `seq`: messages it returns keep whatever recv_position they were built with (0), so positions are not increasing on this transport" % who), im.where)


# ------------------------------------------------------------------------------------------ HANDOFF
def handoff(ctx, f, recv):
    # L1 into_components returns the two buffers
    ic = ctx.one(f.find(name="into_components"), "Common::into_components")
    got = set()
    for b_, i, pl, rv, ln in mir.assignments(ic):
        if rv[0] == "agg" and rv[1] == "tuple":
            for op in rv[4]:
                got |= set(sources(ic, op).field_names(COMMON))
    for nm in ("recv_buffer", "received_fds"):
        ctx.ob("HANDOFF", "into_components:%s" % nm, nm in got, "into_components returns Common.%s" % nm, ic.where)
    # L2 handshakes: Authenticated.already_received_* <- into_components
    n = 0
    for b in f.all_bodies("zbus"):
        aggs = fl.adt_aggregates(b, AUTH)
        if not aggs:
            continue
        ics = [c for c in mir.calls(b) if c.is_("into_components") and "handshake::common::Common" in c.callee]
        who = b.root
        for b_, i, rv, ln in aggs:
            where = "%s:%d" % (b.file, ln)
            if ics:
                n += 1
                for fld in ("already_received_bytes", "already_received_fds"):
                    op = fl.agg_field(rv, fld)
                    s = asrc(b, op) if op else None
                    ctx.ob("HANDOFF", "%s:%s" % (who, fld), s is not None and [c for c in s.calls if c in ics] and all(c in ics for c in s.calls),
                           "Authenticated.%s comes from into_components()" % fld, where)
            else:
                uses_common = [c for c in mir.calls(b) if "handshake::common::Common" in c.callee]
                ctx.ob("HANDOFF", "%s:no-handshake" % who, not uses_common, "Authenticated built without left-overs only where no SASL exchange was read", where)
    ctx.floor("HANDOFF", "handshakes handing over left-overs", n, 2)
    callers = [b.root for b in f.all_bodies("zbus") for c in mir.calls(b) if c.is_("into_components") and "handshake::common::Common" in c.callee]
    ctx.floor("HANDOFF", "callers of into_components", len(callers), 2)
    # L3 connection builder: init_socket_reader(args) <- auth.already_received_*
    n = 0
    for b in f.all_bodies("zbus"):
        for c in mir.calls(b):
            if c.callee == "zbus::connection::Connection::init_socket_reader":
                n += 1
                isr = f.byid(c.callee)
                for idx in range(1, len(c.args)):
                    ty = isr.locals[idx + 1][0] if isr else ""
                    want = "already_received_bytes" if ty == "alloc::vec::Vec<u8>" else ("already_received_fds" if "OwnedFd" in ty else None)
                    if want is None:
                        continue
                    s = asrc(b, c.args[idx], extra=("drain", "take"))
                    ctx.ob("HANDOFF", "%s:init_socket_reader:%s" % (b.root, want), want in s.field_names(AUTH) and not [x for x in s.calls if not x.is_("connect")] or
                           (want in s.field_names(AUTH) and all("Builder" in x.callee for x in s.calls)),
                           "init_socket_reader receives Authenticated.%s" % want, c.where)
    ctx.floor("HANDOFF", "calls of init_socket_reader", n, 1)
    # L4 init_socket_reader -> SocketReader::new ; L5 new -> fields
    isr = ctx.one(f.find(name="init_socket_reader", adt="zbus::connection::Connection", trait=""), "Connection::init_socket_reader")
    new = ctx.one(f.find(name="new", adt=SR, trait=""), "SocketReader::new")
    news = [c for c in mir.calls(isr) if c.callee == new.id]
    ctx.floor("HANDOFF", "SocketReader::new in init_socket_reader", len(news), 1)
    for c in news:
        for idx, a in enumerate(c.args):
            pname = mir.local_name(new, idx + 1)
            if pname not in ("already_received_bytes", "already_received_fds"):
                continue
            s = sources(isr, a)
            ty_new = new.locals[idx + 1][0]
            ok = len(s.args) == 1 and not s.calls and not s.consts and isr.locals[next(iter(s.args))][0] == ty_new
            ctx.ob("HANDOFF", "init_socket_reader→new:%s" % pname, ok, "SocketReader::new(%s) is init_socket_reader's own parameter" % pname, c.where)
    for b_, i, rv, ln in fl.adt_aggregates(new, SR):
        for fld in ("already_received_bytes", "already_received_fds"):
            s = sources(new, fl.agg_field(rv, fld))
            ok = len(s.args) == 1 and mir.local_name(new, next(iter(s.args))) == fld and not s.calls and not s.consts
            ctx.ob("HANDOFF", "new→field:%s" % fld, ok, "SocketReader.%s is the like-named parameter" % fld, "%s:%d" % (new.file, ln))
    # L6 read_socket passes &mut self.already_received_* to receive_message
    rs_root = ctx.one(f.find(name="read_socket", adt=SR, trait=""), "SocketReader::read_socket")
    for b in f.family(rs_root):
        for c in mir.calls(b):
            if c.is_("receive_message") and "ReadHalf" in c.callee:
                for idx, fld in ((2, "already_received_bytes"), (3, "already_received_fds")):
                    s = sources(b, c.args[idx]) if len(c.args) > idx else None
                    ctx.ob("HANDOFF", "read_socket→receive_message:%s" % fld, s is not None and set(s.field_names(SR)) == {fld} and not s.calls,
                           "receive_message gets &mut self.%s" % fld, c.where)
    # L7 consumption from the front, before the socket is read for the rest
    cs = mir.calls(recv)
    drains = [c for c in cs if c.is_("drain") and (place_id(recv, c.args[0]) or (0, ()))[1][-1:] == ("already_received_bytes",)]
    ctx.floor("HANDOFF", "drains of already_received_bytes in receive_message", len(drains), 2)
    reads = [c for c in cs if c.callee == PH + "::read"]
    late = [c for c in cs if is_recvmsg(c) and reads and c.b in mir.reachable(recv, mir.succs(recv)[reads[0].b])]
    for c in drains:
        kind, bounds = range_of(recv, c.args[1])
        ctx.ob("HANDOFF", "consume-from-front", kind in ("RangeTo", "RangeFull", "RangeToInclusive") or (kind == "Range" and const_val(recv, bounds[0]) == 0),
               "left-over bytes are taken from the front (%s)" % kind, c.where)
        if reads and c.b in mir.reachable(recv, mir.succs(recv)[reads[0].b]):
            ctx.ob("HANDOFF", "leftover-before-socket", all(c.b not in mir.reachable(recv, [x.b]) for x in late) and
                   bool([x for x in cs if x.is_("extend") and c in sources(recv, x.args[1]).calls + sources(recv, x.args[1]).through]),
                   "left-over body bytes are appended to the message before the socket is read", c.where)
    # the swap idiom for the header part: whole left-over buffer becomes the start of the message when shorter than a header
    sw = [c for c in cs if c.is_("swap") and c.callee.startswith("core::mem::") and
          "already_received_bytes" in ((place_id(recv, c.args[0]) or (0, ()))[1] + (place_id(recv, c.args[1]) or (0, ()))[1])]
    taken = [c for c in drains if reads and mir.block_dominates(recv, c.b, reads[0].b) is False and c.b not in mir.reachable(recv, mir.succs(recv)[reads[0].b])]
    ctx.ob("HANDOFF", "short-leftover-kept", bool(sw) or len(taken) >= 2, "a left-over shorter than a header is moved into the message buffer (not dropped)", sw[0].where if sw else recv.where)


def run(ctx):
    ctx.explanation = (
        "Static rules over MIR of zbus (K1) for the default ReadHalf::receive_message coroutine, SocketReader, Message::from_raw_parts and the "
        "handshake hand-off: dominance and reachability give 'size check before allocation/read, over-limit edge is Err', 'zero-byte read is Err "
        "on every iteration'; backward value slices give what the compared total, the stored sequence number, pos and the hand-off arguments are "
        "made of; who-writes gives the single writer of prev_seq; a small symbolic execution of the drain/swap/extend statements gives the order "
        "of the fd list; each range-indexing site must be discharged by a recognised guard on the same container.")
    ctx.not_decided = ("that the loops copy the right byte counts; overflow of the length arithmetic; what a transport's recvmsg returns; "
                       "ReadHalf implementations outside the workspace.")
    f = ctx.facts("K1")
    recv = rules_receive(ctx, f)
    audit(ctx, f, recv)
    no_trunc(ctx, f, recv)
    handshake_fds_kept(ctx, f)
    fds_first(ctx, f, recv)
    seq_rules(ctx, f, recv)
    handoff(ctx, f, recv)
