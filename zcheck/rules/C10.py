"""C10 — Names, object paths and GUIDs are validated exactly per the spec (DESIGN §5.C10).

Validated *leaf* types (a newtype over a string): InterfaceName, MemberName, ErrorName, PropertyName, UniqueName,
WellKnownName (zbus_names), ObjectPath (zvariant), Guid (zbus). *Holders* only ever contain a leaf value and are
therefore valid when their content is: Owned* wrappers, BusName, OwnedBusName, OwnedObjectPath, OwnedGuid.
The validator set of a leaf type is found structurally: the functions of shape `fn(&str | &[u8]) -> Result<(), _>`
reached from `<T as TryFrom<&str>>::try_from`.

  CTOR       every construction of a leaf type in the workspace — MIR aggregate `T(..)`, or the tuple constructor
             used as a function value (`.map(T)`) — is justified by one idiom of R-CTOR:
               validated   dominated by the Ok edge of a validator of T applied to the same data
               from-T      the wrapped string derives (through projections/clones only) from an existing T
               unchecked   the enclosing function is T's own `*_unchecked` constructor (callers: UNCHECKED)
               generated   `Guid::generate`: the string is `Uuid::new_v4().as_simple()` (32 hex digits)
  UNCHECKED  every call of a `*_unchecked` constructor of a leaf type is justified: validated (as above, also by a
             validating constructor such as `BusName::try_from(..)?`), from-T (argument derives from an existing T
             or holder of T), or the argument is a string literal that matches the reference grammar of T
             (D-Bus specification, "Valid names" / "Valid object paths"; transcribed below)
  DESER      every `Deserialize` impl of a leaf or holder type (and the serde `Visitor` it delegates to) obtains its
             value through a validating constructor from a string (`<T as TryFrom<S>>::try_from`, S a string
             type), and through no conversion from a non-string source
  LIMIT      the validator closure of every name type compares the input length with 255 so that 255 is accepted
             and 256 rejected; the GUID validator compares the length with 32
  API        no leaf/holder type has a public field or an infallible `From<string-like>` impl, and every public
             inherent function that makes a leaf type from a string without returning `Result` is named `*_unchecked`

Not decided: the character grammars inside the validators (winnow combinators / uuid crate).
"""
import re
from .. import mir, callgraph

META = {
    "technique": "construction-discipline audit (R-CTOR) over all MIR aggregates / constructor uses + dominance by validator Ok edge",
    "level": ("Static who-may-construct audit over rustc MIR of zbus, zbus_names, zvariant (K1): every site that can create a "
              "validated name / object path / GUID value is enumerated and must be dominated by the type's validator, derive from "
              "an existing valid value, or pass a literal that matches the spec grammar; every Deserialize impl goes through a "
              "validating constructor; the 255-byte and 32-digit length tests are present with the right strictness; no public "
              "back door. The character-class grammars themselves are not decided."),
}

LEAF = [
    "zbus_names::interface_name::InterfaceName", "zbus_names::member_name::MemberName",
    "zbus_names::error_name::ErrorName", "zbus_names::property_name::PropertyName",
    "zbus_names::unique_name::UniqueName", "zbus_names::well_known_name::WellKnownName",
    "zvariant::object_path::ObjectPath", "zbus::guid::Guid",
]
NAME_TYPES = LEAF[:6]
GUID = "zbus::guid::Guid"
STRINGS = {"str", "alloc::string::String", "alloc::borrow::Cow", "alloc::sync::Arc", "zvariant::str::Str", "[u8]",
           "alloc::vec::Vec", "alloc::boxed::Box"}
# calls that only project / copy / re-wrap a value (vocabulary taken from the repository's own from-T sites)
PROJ = ("as_str", "as_ref", "as_bytes", "deref", "borrow", "clone", "to_owned", "into_owned", "into", "from",
        "inner", "into_inner", "from_static", "from_utf8_unchecked")

# Reference grammars (D-Bus specification: message-protocol-names, marshaling-object-path; uuids).
_EL = r"[A-Za-z_][A-Za-z0-9_]*"
_BEL = r"[A-Za-z_\-][A-Za-z0-9_\-]*"
GRAMMAR = {
    "zbus_names::interface_name::InterfaceName": re.compile(r"^%s(\.%s)+$" % (_EL, _EL)),
    "zbus_names::error_name::ErrorName": re.compile(r"^%s(\.%s)+$" % (_EL, _EL)),
    "zbus_names::member_name::MemberName": re.compile(r"^%s$" % _EL),
    "zbus_names::property_name::PropertyName": re.compile(r"^.+$", re.S),
    "zbus_names::well_known_name::WellKnownName": re.compile(r"^%s(\.%s)+$" % (_BEL, _BEL)),
    "zbus_names::unique_name::UniqueName": re.compile(r"^(:[A-Za-z0-9_\-]+(\.[A-Za-z0-9_\-]+)+|org\.freedesktop\.DBus)$"),
    "zvariant::object_path::ObjectPath": re.compile(r"^(/|(/[A-Za-z0-9_]+)+)$"),
    "zbus::guid::Guid": re.compile(r"^[0-9A-Fa-f]{32}$"),
}
MAXLEN = {t: 255 for t in NAME_TYPES}


def short(t):
    return t.rsplit("::", 1)[1]


def norm_type(s):
    s = re.sub(r"'\w+(,\s*|\s+)?", "", s or "").replace("mut ", "").strip()
    while s.startswith("&"):
        s = s[1:].strip()
    if "<" in s and not s.startswith("(") and not s.startswith("["):
        s = s[:s.index("<")]
    return s


def mentions(ty, adt):
    """type string `ty` mentions ADT path `adt` (as a whole path)"""
    return re.search(r"(?<![\w:])" + re.escape(adt) + r"(?![\w])", ty or "") is not None


def is_arg(body, l):
    return 0 < l <= body.d["argc"]


# ------------------------------------------------------------------------------------------ model
class Model:
    def __init__(self, ctx, f):
        self.f = f
        for t in LEAF:
            ctx.need([f.adts.get(t)] if f.adts.get(t) else [], "ADT " + t)
        # holders: validated ADTs that contain a leaf (transitively)
        self.holders = {t: set() for t in LEAF}
        cand = [a for a in f.adts if a.split("::")[0] in ("zbus_names", "zvariant", "zbus")]
        changed = True
        contains = {t: {t} for t in LEAF}
        while changed:
            changed = False
            for a in cand:
                if a in LEAF:
                    continue
                fields = [fld for v in f.adts[a]["variants"] for fld in v["fields"]]
                allc = set().union(*contains.values())
                if not fields or not all(norm_type(fld[1]) in allc for fld in fields):
                    continue   # a holder's every field *is* a leaf / holder
                for t in LEAF:
                    if any(norm_type(fld[1]) in contains[t] for fld in fields) and a not in contains[t]:
                        contains[t].add(a)
                        changed = True
        self.family = contains             # leaf -> {leaf + holders}
        self.all_types = set().union(*contains.values())
        # validators
        cg = callgraph.get(f)
        self.cg = cg
        self.validators = {}
        for t in LEAF:
            anchors = [b for b in f.find(name="try_from", adt=t, trait="core::convert::TryFrom")
                       if norm_type(trait_arg(b.d.get("impl_trait_full"), "core::convert::TryFrom")) == "str"]
            a = ctx.one(anchors, "<%s as TryFrom<&str>>::try_from" % short(t))
            vals, seen, work = set(), set(), [a.id]
            while work:
                x = work.pop()
                if x in seen:
                    continue
                seen.add(x)
                b = f.byid(x)
                if b is None:
                    continue
                for c in mir.calls(b):
                    cal = c.callee
                    cb = f.byid(cal)
                    if cb is None:
                        continue
                    if self.is_validator_shape(cal):
                        vals.add(cal)
                        work.append(cal)
                    elif cb.d.get("impl_adt") == t and cb.d.get("impl_trait") == "core::convert::TryFrom" and x not in vals:
                        work.append(cal)
            ctx.need(sorted(vals), "validator functions of " + short(t))
            self.validators[t] = vals

    def is_validator_shape(self, fid):
        s = self.f.fnsigs.get(fid)
        if not s:
            return False
        m = re.match(r"^(?:for<[^>]*> )?fn\(&(?:'\w+ )?(str|\[u8\])\) -> core::result::Result<\(\), .*>$", s["sig"])
        return bool(m) and fid.split("::")[0] in ("zbus_names", "zvariant", "zbus")

    def validating_ctor(self, c, t):
        """call `c` is `<X as TryFrom<S>>::try_from` / `<S as TryInto<X>>::try_into` / `X::from_static_str` / FromStr
        for X in the family of leaf `t` and S a string type"""
        fa = c.fnargs
        m = re.match(r"^<(.+) as core::convert::TryFrom<(.+)>>::try_from$", fa)
        tgt = src = None
        if m:
            tgt, src = m.group(1), m.group(2)
        else:
            m = re.match(r"^<(.+) as core::convert::TryInto<(.+)>>::try_into$", fa)
            if m:
                src, tgt = m.group(1), m.group(2)
        if tgt is not None:
            return norm_type(tgt) in self.family[t] and norm_type(src) in STRINGS
        cb = self.f.byid(c.callee)
        if cb is not None and cb.name in ("from_static_str", "from_str") and cb.d.get("impl_adt") in self.family[t] \
                and not cb.name.endswith("_unchecked"):
            return True
        return False


def trait_arg(full, trait):
    pre = trait + "<"
    if full and full.startswith(pre) and full.endswith(">"):
        return full[len(pre):-1]
    return None


# ------------------------------------------------------------------------------------------ dataflow helpers
def backward(body, locals_, allow_call=None):
    """flow-insensitive backward closure over locals: what a value may have been computed from.
    Calls are crossed only when allow_call(call) (default: all calls)."""
    seen = set()
    work = list(locals_)
    asg = {}
    for b, i, pl, rv, ln in mir.assignments(body):
        asg.setdefault(pl[0], []).append(rv)
    cls = {}
    for c in mir.calls(body):
        cls.setdefault(c.dest[0], []).append(c)
    while work:
        l = work.pop()
        if l in seen:
            continue
        seen.add(l)
        for rv in asg.get(l, ()):
            for op in mir.rvalue_operands(rv):
                work.extend(mir.operand_locals(op))
        for c in cls.get(l, ()):
            if allow_call is None or allow_call(c):
                for a in c.args:
                    work.extend(mir.operand_locals(a))
    return seen


def proj_only(c):
    return c.is_(*PROJ)


def anchors_of(body, locs):
    """arguments and user-named locals among `locs`"""
    return {l for l in locs if is_arg(body, l) or body.locals[l][1] is not None}


def ok_edges(body, c):
    """blocks entered only when the Result returned by call `c` is Ok:
    `?` (Continue arm), `is_ok()`/`is_err()` tests, `match`/`if let` on the Result."""
    out = []
    res = mir.derives(body, {c.dest[0]}, through_calls=False)
    preds = mir.preds(body)

    def single_entry(tgt, sb):
        return tgt is not None and preds[tgt] == [sb]

    # direct discriminant switch on the result
    for sb, place, adt, arms, other in mir.discr_switches(body, None, None):
        if place[0] in res and adt == "core::result::Result":
            t = body.blocks[sb]["t"]
            for v, tgt in t[3]:
                if str(v) == "0" and single_entry(tgt, sb):
                    out.append(tgt)
    for x in mir.calls(body):
        if not x.args or not any(l in res for l in mir.operand_locals(x.args[0])):
            continue
        if x.is_("branch") and "try_trait::Try" in x.callee + x.declared:
            br = mir.derives(body, {x.dest[0]}, through_calls=False)
            for sb, place, adt, arms, other in mir.discr_switches(body, None, None):
                if place[0] in br and adt == "core::ops::control_flow::ControlFlow":
                    t = body.blocks[sb]["t"]
                    for v, tgt in t[3]:
                        if str(v) == "0" and single_entry(tgt, sb):
                            out.append(tgt)
        elif x.is_("is_ok", "is_err") and "core::result::Result" in x.callee + x.declared:
            for sb, cc, tt, ft, neg in mir.call_bool_switches(body):
                if cc is x:
                    tgt = tt if x.is_("is_ok") else ft
                    if single_entry(tgt, sb):
                        out.append(tgt)
    return out


def validated_at(m, body, block, data_locals, t, allow_ctors):
    """`block` is dominated by the Ok edge of a validator of `t` (or a validating constructor when allow_ctors)
    whose argument shares a source with `data_locals`."""
    back_data = anchors_of(body, backward(body, data_locals))
    for c in mir.calls(body):
        isval = c.callee in m.validators[t]
        if not isval and allow_ctors and m.validating_ctor(c, t):
            isval = True
        if not isval or not c.args:
            continue
        back_arg = anchors_of(body, backward(body, mir.operand_locals(c.args[0])))
        if not (back_arg & back_data):
            continue
        for e in ok_edges(body, c):
            if mir.block_dominates(body, e, block):
                return c
    return None


def from_existing(m, body, data_locals, t):
    """the data derives, through projection calls only, from a local whose type is T or a holder of T"""
    for l in backward(body, data_locals, proj_only):
        ty = body.locals[l][0]
        if any(mentions(ty, x) for x in m.family[t]):
            return l
    return None


def arm_ok(m, body, block, t):
    """for data taken out of a BusName: the site must sit in the arm of the variant that holds `t`"""
    want = {"zbus_names::unique_name::UniqueName": "Unique", "zbus_names::well_known_name::WellKnownName": "WellKnown"}.get(t)
    if want is None:
        return True
    sws = [s for s in mir.discr_switches(body, m.f, None) if s[2] == "zbus_names::bus_name::BusName"]
    if not sws:
        return True
    for sb, place, adt, arms, other in sws:
        tgt = arms.get(want)
        if tgt is not None and mir.block_dominates(body, tgt, block):
            others = [x for k, x in arms.items() if k != want]
            if tgt not in others:
                return True
    return False


# ------------------------------------------------------------------------------------------ CTOR
def rule_ctor(ctx, m):
    f = m.f
    n = 0
    used = {}

    def key(k):
        used[k] = used.get(k, 0) + 1
        return k if used[k] == 1 else "%s#%d" % (k, used[k])

    for b in f.all_bodies():
        # aggregates
        for bi, i, pl, rv, ln in mir.assignments(b):
            if not (rv[0] == "agg" and rv[1] == "adt" and rv[2] in LEAF):
                continue
            t = rv[2]
            n += 1
            where = "%s:%d" % (b.file, ln)
            data = [l for op in rv[4] for l in mir.operand_locals(op)]
            k = key("agg:%s@%s" % (short(t), b.root))
            root = f.byid(b.root) or b
            if root.name.endswith("_unchecked") and root.d.get("impl_adt") == t and b.id == b.root:
                ctx.ob("CTOR", k, True, "T's own unchecked constructor (callers audited by UNCHECKED)", where)
                continue
            c = validated_at(m, b, bi, data, t, False)
            if c is not None:
                ctx.ob("CTOR", k, True, "validated: dominated by the Ok edge of %s on the same data" % c.callee, where)
                continue
            l = from_existing(m, b, data, t)
            if l is not None:
                ctx.ob("CTOR", k, True, "from-T: wrapped string derives from `%s`: %s" % (
                    mir.local_name(b, l) or "_%d" % l, b.locals[l][0]), where)
                continue
            if t == GUID and generated_guid(b, data):
                ctx.ob("CTOR", k, True, "generated: Uuid::new_v4().as_simple() is 32 lower-case hex digits", where)
                continue
            ctx.ob("CTOR", k, False, "%s constructed without validation (no validator Ok edge dominates, "
                   "source is not an existing %s)" % (short(t), short(t)), where)
        # tuple constructor used as a function value or called directly
        for c in mir.calls(b):
            items = [mir.op_const(a) for a in c.args]
            items = [x for x in items if x and x.get("fn") in LEAF]
            if c.callee in LEAF:
                items.append({"fn": c.callee})
            for it in items:
                t = it["fn"]
                n += 1
                ctx.ob("CTOR", key("ctor-fn:%s@%s" % (short(t), b.root)), False,
                       "tuple constructor %s used as a function (`%s(.., %s)`): the string it wraps is not validated" % (
                           short(t), c.callee.rsplit("::", 1)[-1], short(t)), c.where)
        for bi, i, pl, rv, ln in mir.assignments(b):
            for op in mir.rvalue_operands(rv):
                k0 = mir.op_const(op)
                if k0 and k0.get("fn") in LEAF:
                    n += 1
                    ctx.ob("CTOR", key("ctor-fn:%s@%s" % (short(k0["fn"]), b.root)), False,
                           "tuple constructor %s taken as a function value" % short(k0["fn"]), "%s:%d" % (b.file, ln))
    ctx.floor("CTOR", "constructions of validated leaf types", n, 60)


def generated_guid(body, data):
    back = backward(body, data)
    simple = [c for c in mir.calls(body) if c.is_("as_simple") and "uuid" in c.callee and c.dest[0] in back]
    v4 = [c for c in mir.calls(body) if c.is_("new_v4") and "uuid" in c.callee and c.dest[0] in back]
    other = [c for c in mir.calls(body) if c.dest[0] in back and "uuid" in c.callee and
             c.is_("hyphenated", "as_hyphenated", "braced", "as_braced", "urn", "as_urn")]
    return bool(simple) and bool(v4) and not other


# ------------------------------------------------------------------------------------------ UNCHECKED
def rule_unchecked(ctx, m):
    f = m.f
    n = 0
    used = {}
    for b in f.all_bodies():
        for c in mir.calls(b):
            cb = f.byid(c.callee)
            if cb is None or not cb.name.endswith("_unchecked") or cb.d.get("impl_adt") not in LEAF \
                    or cb.d.get("impl_trait") is not None:
                continue
            t = cb.d["impl_adt"]
            n += 1
            a0 = c.args[0] if c.args else None
            lit = mir.resolve_const(b, a0) if a0 is not None else None
            if lit is not None and isinstance(lit.get("v"), str):
                s = lit["v"]
                ok = bool(GRAMMAR[t].match(s)) and len(s.encode()) <= MAXLEN.get(t, 1 << 30)
                ctx.ob("UNCHECKED", "literal:%s:%s" % (short(t), s), ok,
                       "literal %r %s the %s grammar" % (s, "matches" if ok else "does NOT match", short(t)), c.where)
                continue
            k = "%s::%s@%s" % (short(t), cb.name, b.root)
            used[k] = used.get(k, 0) + 1
            if used[k] > 1:
                k = "%s#%d" % (k, used[k])
            data = mir.operand_locals(a0) if a0 is not None else []
            root = f.byid(b.root) or b
            if root.name.endswith("_unchecked") and root.d.get("impl_adt") == t:
                ctx.ob("UNCHECKED", k, True, "forwarding inside T's own unchecked constructor", c.where)
                continue
            v = validated_at(m, b, c.b, data, t, True)
            if v is not None and arm_ok(m, b, c.b, t):
                ctx.ob("UNCHECKED", k, True, "validated: dominated by the Ok edge of %s on the same data" % v.callee, c.where)
                continue
            l = from_existing(m, b, data, t)
            if l is not None and arm_ok(m, b, c.b, t):
                ctx.ob("UNCHECKED", k, True, "from-T: argument derives from `%s`: %s" % (
                    mir.local_name(b, l) or "_%d" % l, b.locals[l][0]), c.where)
                continue
            ctx.ob("UNCHECKED", k, False,
                   "%s::%s called on a string that is neither validated here, nor taken from an existing %s, nor a literal" % (
                       short(t), cb.name, short(t)), c.where)
        # an unchecked constructor passed around as a function value (`.map(T::from_string_unchecked)`)
        consts = [(mir.op_const(a), c.line) for c in mir.calls(b) for a in c.args]
        consts += [(mir.op_const(op), ln) for bi, i, pl, rv, ln in mir.assignments(b) for op in mir.rvalue_operands(rv)]
        for k0, ln in consts:
            if not k0 or not k0.get("fn"):
                continue
            cb = f.byid(k0["fn"])
            if cb is None or not cb.name.endswith("_unchecked") or cb.d.get("impl_adt") not in LEAF \
                    or cb.d.get("impl_trait") is not None:
                continue
            n += 1
            ctx.ob("UNCHECKED", "fn-value:%s::%s@%s" % (short(cb.d["impl_adt"]), cb.name, b.root), False,
                   "%s::%s used as a function value: its argument cannot be shown to be valid" % (short(cb.d["impl_adt"]), cb.name),
                   "%s:%d" % (b.file, ln))
    ctx.floor("UNCHECKED", "calls of *_unchecked constructors of validated types", n, 20)


# ------------------------------------------------------------------------------------------ DESER
def rule_deser(ctx, m):
    f = m.f
    n = 0
    for b in f.find(name="deserialize", trait="serde_core::de::Deserialize"):
        x = b.d.get("impl_adt")
        if x not in m.all_types:
            continue
        leafs = [t for t in LEAF if x in m.family[t]]
        n += 1
        bodies = list(f.family(b))
        # serde visitors handed to the deserializer
        for bb in list(bodies):
            for c in mir.calls(bb):
                for g in re.findall(r"::<([\w:]+)(?:<[^>]*>)?>$", c.fnargs):
                    if g in f.adts:
                        for vb in f.find(adt=g, trait="serde_core::de::Visitor"):
                            if vb.name.startswith("visit_"):
                                bodies.extend(f.family(vb))
        good, bad = [], []
        for bb in bodies:
            for c in mir.calls(bb):
                if any(m.validating_ctor(c, t) for t in leafs):
                    good.append(c)
                    continue
                mm = re.match(r"^<(.+) as core::convert::(?:Try)?From<(.+)>>::(?:try_)?from$", c.fnargs) or None
                if mm is None:
                    mm2 = re.match(r"^<(.+) as core::convert::(?:Try)?Into<(.+)>>::(?:try_)?into$", c.fnargs)
                    pair = (mm2.group(2), mm2.group(1)) if mm2 else None
                else:
                    pair = (mm.group(1), mm.group(2))
                if pair and norm_type(pair[0]) in m.all_types and norm_type(pair[1]) not in m.all_types:
                    bad.append(c)
        vis_missing = []
        for bb in bodies:
            if bb.d.get("impl_trait") == "serde_core::de::Visitor" and bb.id == bb.root and bb.name.startswith("visit_"):
                if not any(c.body.root == bb.id for c in good):
                    vis_missing.append(bb.name)
        ok = bool(good) and not bad and not vis_missing
        detail = "value obtained through %s" % sorted({c.fnargs for c in good})[:2] if ok else (
            "no validating constructor from a string is called" if not good else
            "converts from a non-string source: %s" % [c.fnargs for c in bad] if bad else
            "visitor method(s) %s do not validate" % vis_missing)
        ctx.ob("DESER", "%s" % b.id, ok, detail, b.where)
    ctx.floor("DESER", "Deserialize impls of validated types", n, 18)


# ------------------------------------------------------------------------------------------ LIMIT
def length_tests(m, roots, const_set):
    """(body, switch block, op, const, len_on_left, true_target, false_target, line) for comparisons of a `len()`
    result with one of `const_set` in the workspace call-graph closure of `roots`"""
    f = m.f
    out = []
    ids = m.cg.reach(list(roots), stop=lambda i: (f.byid(i) is None) or f.byid(i).crate not in ("zbus_names", "zbus", "zvariant"))
    for i in ids:
        b = f.byid(i)
        if b is None:
            continue
        for sb, op, l, r, tt, ft, ln in mir.cmp_switches(b):
            kl, kr = mir.resolve_const(b, l), mir.resolve_const(b, r)
            for var, k, left in ((l, kr, True), (r, kl, False)):
                if k is None or k.get("v") not in const_set:
                    continue
                o = mir.origin(b, var)
                if o[0] == "call" and o[1].is_("len"):
                    out.append((b, sb, op, k["v"], left, tt, ft, ln))
    return out


def holds(op, a, b):
    return {"Eq": a == b, "Ne": a != b, "Lt": a < b, "Le": a <= b, "Gt": a > b, "Ge": a >= b}[op]


def reaches_ok(body, block):
    for bb in mir.reachable(body, [block]):
        for st in body.blocks[bb]["s"]:
            if st[0] == "=" and st[2][0] == "agg" and st[2][1] == "adt" and st[2][2] == "core::result::Result" and st[2][3] == "Ok":
                return True
    return False


def rule_limit(ctx, m):
    for t in NAME_TYPES:
        tests = length_tests(m, m.validators[t], {255, 256})
        good = None
        for b, sb, op, k, left, tt, ft, ln in tests:
            def edge(n):
                return tt if (holds(op, n, k) if left else holds(op, k, n)) else ft
            e255, e256 = edge(255), edge(256)
            if e255 != e256 and not reaches_ok(b, e256) and reaches_ok(b, e255):
                good = (b, ln)
        ctx.ob("LIMIT", "%s:max-255" % short(t), good is not None,
               "length test accepts 255 and rejects 256 bytes" if good else
               ("validator of %s has no test that accepts a 255-byte and rejects a 256-byte name (%d length comparison(s) found)"
                % (short(t), len(tests))),
               "%s:%d" % (good[0].file, good[1]) if good else "-")
    tests = length_tests(m, m.validators[GUID], {32})
    good = [x for x in tests if x[2] in ("Eq", "Ne")]
    ctx.ob("LIMIT", "Guid:length-32", bool(good),
           "GUID validator tests `len == 32`" if good else
           "the GUID validator (%s) contains no `len == 32` test in workspace code: it delegates to uuid::Uuid::try_parse, "
           "which also accepts the hyphenated (36), braced (38) and urn:uuid: (45) forms" % sorted(m.validators[GUID]),
           "%s:%d" % (good[0][0].file, good[0][7]) if good else (m.f.byid(sorted(m.validators[GUID])[0]).where))


def rule_complete(ctx, m):
    """COMPLETE (added after seeded change C10): a validator that applies a parser-combinator grammar must apply it to
    the *whole* input: through winnow's `Parser::parse` (fails on trailing bytes), or — when it drives the parser
    with `parse_next` / `parse_peek` itself — by testing the remaining input for emptiness afterwards. Otherwise
    every string that merely starts with a valid name is accepted."""
    n = 0
    for t in list(NAME_TYPES) + [LEAF[6]]:
        for vid in sorted(m.validators.get(t, ())):
            b = m.f.byid(vid)
            if b is None:
                continue
            whole = [c for c in mir.calls(b) if c.declared == "winnow::parser::Parser::parse"]
            partial = [c for c in mir.calls(b) if c.declared in ("winnow::parser::Parser::parse_next", "winnow::parser::Parser::parse_peek")]
            if not whole and not partial:
                continue
            n += 1
            ok = True
            why = "grammar applied with Parser::parse (whole input)"
            for c in partial:
                # the remaining input must be tested for emptiness on the success path
                after = mir.reachable(b, [c.b])
                tested = any(x.b in after and x.callee.rsplit("::", 1)[-1] in ("is_empty", "eof", "eof_offset", "len") for x in mir.calls(b) if x is not c)
                if not tested:
                    ok = False
                    why = "grammar driven with %s and the rest of the input is never tested: trailing bytes after a valid name are accepted" % c.callee.rsplit("::", 1)[-1]
            ctx.ob("COMPLETE", "%s:%s:whole-input" % (short(t), short(vid)), ok, why, b.where)
    ctx.floor("COMPLETE", "validators applying a winnow grammar", n, 4)


# ------------------------------------------------------------------------------------------ API
def rule_api(ctx, m):
    f = m.f
    n = 0
    for a in sorted(m.all_types):
        for v in f.adts[a]["variants"]:
            for fld in v["fields"]:
                if f.adts[a].get("kind", "").lower() == "enum":
                    continue   # enum payloads are public by construction; they hold leaf types
                n += 1
                ctx.ob("API", "field:%s.%s" % (a, fld[0]), fld[2] != "Public", "visibility %s" % fld[2],
                       "%s:%s" % (f.adts[a].get("file"), f.adts[a].get("line")))
    for i in f.impls:
        if i.get("adt") in m.all_types and (i.get("trait") == "core::convert::From"):
            src = norm_type(trait_arg(i.get("trait_full"), "core::convert::From") or "")
            if src in STRINGS:
                ctx.ob("API", "infallible-from:%s<-%s" % (i["adt"], src), False,
                       "infallible From<%s> for %s skips validation" % (src, i["adt"]), "%s:%s" % (i["file"], i["line"]))
    for fid, s in f.fnsigs.items():
        b = f.byid(fid)
        if b is None or b.d.get("impl_adt") not in LEAF or b.d.get("impl_trait") is not None or s["vis"] != "Public":
            continue
        t = b.d["impl_adt"]
        mm = re.match(r"^(?:for<[^>]*> )?(?:unsafe )?fn\((.*)\) -> (.*)$", s["sig"])
        if not mm:
            continue
        params, ret = mm.group(1), mm.group(2)
        if not mentions(ret, t) or ret.startswith("core::result::Result") or ret.startswith("core::option::Option"):
            continue
        takes_string = any(norm_type(p) in STRINGS for p in split_top(params))
        if not takes_string:
            continue
        n += 1
        ctx.ob("API", "pub-ctor:%s" % fid, b.name.endswith("_unchecked"),
               "public %s makes a %s from a string without validation%s" % (
                   b.name, short(t), " (documented unchecked family)" if b.name.endswith("_unchecked") else ""), b.where)
    ctx.floor("API", "fields / public constructors inspected", n, 20)


def split_top(s):
    out, depth, cur = [], 0, ""
    for ch in s:
        if ch in "<([":
            depth += 1
        elif ch in ">)]":
            depth -= 1
        if ch == "," and depth == 0:
            out.append(cur.strip())
            cur = ""
        else:
            cur += ch
    if cur.strip():
        out.append(cur.strip())
    return out


def run(ctx):
    ctx.explanation = (
        "R-CTOR audit over MIR of zbus/zbus_names/zvariant (K1): every aggregate or constructor-function use of the 8 validated "
        "string newtypes and every call of their *_unchecked constructors is enumerated and must be dominated by the Ok edge of "
        "the type's validator on the same data, derive from an existing valid value, or pass a literal matching the D-Bus "
        "grammar; all 18 Deserialize impls go through a validating TryFrom<string>; each name validator accepts 255 and rejects "
        "256 bytes, the GUID validator must test len == 32; no public field, no infallible From<string>, public string "
        "constructors without Result are only the *_unchecked family.")
    ctx.not_decided = ("the character grammars implemented by the winnow parsers / the uuid crate; code generated into downstream "
                       "crates by zbus_macros (only the expansions inside zbus itself are in the facts).")
    f = ctx.facts("K1")
    m = Model(ctx, f)
    rule_ctor(ctx, m)
    rule_unchecked(ctx, m)
    rule_deser(ctx, m)
    rule_limit(ctx, m)
    rule_complete(ctx, m)
    rule_api(ctx, m)
