"""C27 — Introspection data is well-formed and matches wire behaviour (one clause: declared types = dispatched types).

The statement has four parts: the XML is well-formed, the library's XML model reads it back, it lists exactly the
object's interfaces and children, and it *declares for each method, signal and property the same D-Bus types that
the server actually accepts and sends*. The first two are properties of strings assembled at run time (not
decided, DESIGN §6); the third is the LOOKUP-FIELDS clause of C24 (introspection reads the same two maps as lookup
and dispatch). This module decides the fourth, which is visible in the shape of the generated code: the
`#[interface]` macro emits the introspection writer and the dispatcher from the same declaration through two
different code paths, so they are siblings that must agree.

For every generated `Interface` impl of the analysed configurations (K1: the four fdo interfaces; K6: the fixture
crate; thorough: K4, the repository's test fixtures):

  I-READ      every `write!` of `introspect_to_writer` is read in emission order: its literal template is classified
              (`<method name=..>`, `<arg .. direction="in|out"/>`, `<signal ..>`, `<arg ../>`, `<property ..>`, closing tags)
              and the `Signature` it interpolates is traced to the constant `<T as zvariant::Type>::SIGNATURE` it
              was promoted from; a template that mentions a type but whose source type cannot be read fails closed
  I-METHODS   the declared method names are exactly the members matched by `call` / `call_mut`; per method the
              declared `in` types, concatenated, have the D-Bus signature of the type the arm deserialises the body
              into, and the declared `out` types that of the type the arm replies with
  I-PROPS     per declared property, the declared type has the signature of the getter's value type (and the
              declared names are the `get` arms; access agreement is C28 P-ACCESS)
  I-SIGNALS   per declared signal, the declared argument types have the signature of the body tuple the generated
              emitter passes to `SignalEmitter::emit`, and the names coincide

Signatures are computed by the transcription of zvariant's `Type` table in rules/C33.py; types outside it (the
repository fixtures use a few custom `Type` derives) are compared *as Rust types* after normalising references,
which is sufficient for equality and fails closed otherwise.

Not decided: XML well-formedness and escaping of doc text, read-back by zbus_xml, the child-node listing (C24), the
doc comments, interfaces outside the analysed configurations.
"""
import re
from .. import mir
from .. import lib_iface as L
from . import C33 as X

META = {
    "technique": "sibling cross-check inside one macro expansion: the type constants interpolated by the generated introspection "
                 "writer (traced through promoted constants to `<T as Type>::SIGNATURE`) against the types the generated "
                 "dispatcher deserialises and replies with, member by member",
    "level": ("Decides the clause 'introspection declares the types the server accepts and sends' for every generated Interface "
              "impl in the analysed configurations (library fdo interfaces, the fixture crate; repository test fixtures in the "
              "thorough tier): method in/out arguments, property types and signal arguments. Well-formedness of the XML text, its "
              "read-back by zbus_xml and escaping of doc text are not decided."),
    "note": ("Partial claim: one of the four clauses of the statement (declared types = wire types), decided structurally on the "
             "generated code; the XML-text clauses are not statically decidable here and are not claimed. Trusted: rustc nightly "
             "front end + MIR construction, the zmir extractor (promoted-constant tracing), the rule library, the transcribed Type "
             "table in rules/C33.py."),
}

SIG_CONST = "zvariant::r#type::Type::SIGNATURE"
METHOD_RE = re.compile(rb'<method name="([^"]*)"')
SIGNAL_RE = re.compile(rb'<signal name="([^"]*)"')
PROP_RE = re.compile(rb'<property name="([^"]*)"')
ARG_RE = re.compile(rb'<arg ')
DIR_RE = re.compile(rb'direction="(in|out)"')
NAME_RE = re.compile(rb'<arg name="([^"]*)"')


def rpo(body):
    """blocks in reverse post-order over normal edges"""
    succ = mir.succs(body)
    seen, order = set(), []
    stack = [(0, iter(succ[0]))]
    seen.add(0)
    while stack:
        b, it = stack[-1]
        nxt = next(it, None)
        if nxt is None:
            order.append(b)
            stack.pop()
        elif nxt not in seen:
            seen.add(nxt)
            stack.append((nxt, iter(succ[nxt])))
    return list(reversed(order))


def type_of_sig_const(k):
    """`T` of a constant `<T as zvariant::Type>::SIGNATURE` described by pdef/pargs (or cdef/cargs)"""
    d = k.get("pdef") or k.get("cdef") or ""
    a = k.get("pargs") or k.get("cargs") or ""
    if "SIGNATURE" not in d and "SIGNATURE" not in a:
        return None
    m = re.match(r"^<(.*) as zvariant::(?:r#type::)?Type>::SIGNATURE$", a.strip())
    if m:
        return m.group(1).strip()
    return None


def emissions(ctx, it, W):
    """[(template bytes, [source type of each interpolated Signature], where)] in emission order"""
    order = {b: i for i, b in enumerate(rpo(W))}
    out = []
    unread = 0
    for c in sorted([c for c in mir.calls(W) if "core::fmt::Arguments" in c.callee and c.is_("new", "new_v1", "new_const", "from_str")],
                    key=lambda c: (order.get(c.b, 10 ** 6))):
        tmpl = None
        arr = None
        for a in c.args:
            o = mir.origin(W, a)
            if o[0] == "const":
                v = o[1].get("v")
                if isinstance(v, dict) and "bytes" in v:
                    tmpl = bytes(v["bytes"])
                elif isinstance(v, str):
                    tmpl = v.encode()
            elif o[0] in ("ref", "place"):
                arr = o[1][0]
        if tmpl is None:
            continue
        tys = []
        if arr is not None:
            for d in mir.defs_of(W, arr):
                if d[0] == "assign" and d[4][0] == "agg" and d[4][1] == "array":
                    for op in d[4][4]:
                        l = mir.op_local(op)
                        sd = mir.single_def(W, l) if l is not None else None
                        if not sd or sd[0] != "call" or not sd[1].args:
                            continue
                        argty = (sd[1].c.get("gargs") or [""])[0]
                        if "Signature" not in argty:
                            continue
                        src = mir.origin(W, sd[1].args[0])
                        # format_args! first collects its arguments in a tuple: `(&name, &SIG, &indent).1`
                        hops = 0
                        while src[0] in ("place", "ref") and src[1][1] and isinstance(src[1][1][0], list) and src[1][1][0][0] == "." \
                                and hops < 3:
                            hops += 1
                            idx = src[1][1][0][1]
                            tup = [d2 for d2 in mir.defs_of(W, src[1][0]) if d2[0] == "assign" and d2[4][0] == "agg" and d2[4][1] == "tuple"]
                            if len(tup) != 1 or idx >= len(tup[0][4][4]):
                                break
                            src = mir.origin(W, tup[0][4][4][idx])
                        k = src[1] if src[0] == "const" else None
                        t = type_of_sig_const(k) if isinstance(k, dict) else None
                        if t is None:
                            unread += 1
                        tys.append(t)
        out.append((tmpl, tys, c.where))
    return out, unread


def declared(ctx, it):
    """tables read off introspect_to_writer: methods {name: ([in types], [out types])}, props {name: type}, signals {name: [types]}"""
    W = it.method(ctx, "introspect_to_writer")
    ems, unread = emissions(ctx, it, W)
    ctx.ob("I-READ", it.key + ":signature-sources-readable", unread == 0,
           "%d templates read, every interpolated Signature traced to <T as Type>::SIGNATURE" % len(ems) if unread == 0 else
           "%d interpolated Signature value(s) could not be traced to a type constant" % unread, W.where)
    methods, props, signals = {}, {}, {}
    cur = None
    for tmpl, tys, where in ems:
        m = METHOD_RE.search(tmpl)
        s = SIGNAL_RE.search(tmpl)
        p = PROP_RE.search(tmpl)
        if m:
            cur = ("m", m.group(1).decode())
            methods[cur[1]] = ([], [], where)
        elif s:
            cur = ("s", s.group(1).decode())
            signals[cur[1]] = ([], where)
        elif p:
            ok = len(tys) == 1 and tys[0] is not None
            ctx.ob("I-READ", "%s:property-type-readable:%s" % (it.key, p.group(1).decode()), ok,
                   "declared type of the property comes from %s" % (tys,), where)
            if ok:
                props[p.group(1).decode()] = (tys[0], where)
        elif ARG_RE.search(tmpl):
            ok = len(tys) == 1 and tys[0] is not None and cur is not None
            if not ok:
                ctx.ob("I-READ", "%s:arg-type-readable" % it.key, False,
                       "an <arg> template whose type source cannot be read (%s) or outside a method/signal" % (tys,), where)
                continue
            d = DIR_RE.search(tmpl)
            if cur[0] == "m":
                (methods[cur[1]][0] if (d and d.group(1) == b"in") else methods[cur[1]][1]).append(tys[0])
            else:
                signals[cur[1]][0].append(tys[0])
        elif b"</method>" in tmpl or b"</signal>" in tmpl:
            cur = None
    return methods, props, signals


def strip_lifetimes(t):
    t = re.sub(r"'\w+\s*,\s*", "", t)
    t = re.sub(r"<'\w+>", "", t)
    t = re.sub(r"&'\w+\s+", "&", t)
    return t


def sig_list(types):
    return "".join(X.sig(t) for t in types)


def same_types(ctx, rule, key, declared_types, wire_type, where, what, wrap=False):
    """declared list of types vs the elements of the body type the dispatcher uses"""
    wire_elems = X.elems(wire_type) if not wrap else [wire_type]
    try:
        a, b = sig_list(declared_types), sig_list(wire_elems)
        ok = a == b
        det = "%s: declared `%s` %s / on the wire `%s` (%s)" % (what, a, declared_types, b, wire_type)
    except X.TypeErr:
        na = [strip_lifetimes(X.norm(t)) for t in declared_types]
        nb = [strip_lifetimes(X.norm(t)) for t in wire_elems]
        # a reply that is one struct-typed value is declared as its fields' list only when it is a tuple; compare Rust types
        ok = na == nb
        det = "%s: declared %s / on the wire %s (compared as Rust types)" % (what, na, nb)
    ctx.ob(rule, key, ok, det, where)


def run(ctx):
    ctx.explanation = (
        "MIR of every generated Interface impl (K1, K6; K4 in the thorough tier): the templates written by introspect_to_writer "
        "are read in emission order, each interpolated Signature is traced through its promoted constant to "
        "<T as Type>::SIGNATURE, and the declared method/property/signal types are compared with the types of "
        "Body::deserialize / Connection::reply in the matching dispatcher arm, the getter's value type and the body tuple of "
        "SignalEmitter::emit.")
    ctx.not_decided = ("XML well-formedness, escaping of doc text, read-back by zbus_xml, listing of child nodes and interfaces "
                       "(C24 LOOKUP-FIELDS), interfaces outside the analysed configurations")
    ctx.trusted.append("zvariant Type table (transcribed in rules/C33.py BASIC/SEQ/MAP)")
    cfgs = ["K1", "K6"] + (["K4"] if ctx.tier == "thorough" else [])
    L.prefetch(ctx, cfgs)
    its = L.interfaces(ctx, cfgs)
    n_if = n_m = n_p = n_s = 0
    for it in its:
        if not all(k in it.m for k in ("call", "call_mut", "get", "introspect_to_writer")) or not it.is_generated(it.m["call"]):
            ctx.note("hand-written Interface impl %s not analysed" % it.key)
            continue
        n_if += 1
        dm, dp, ds = declared(ctx, it)
        wm, wg, wset, wsig = X.iface_tables(ctx, it)
        ctx.ob("I-METHODS", it.key + ":method-names", set(dm) == set(wm),
               "introspection declares %s; dispatcher matches %s" % (sorted(dm), sorted(wm)), it.where)
        for nm in sorted(set(dm) & set(wm)):
            n_m += 1
            same_types(ctx, "I-METHODS", "%s:%s:in" % (it.key, nm), dm[nm][0], wm[nm][0], dm[nm][2], "arguments of " + nm)
            same_types(ctx, "I-METHODS", "%s:%s:out" % (it.key, nm), dm[nm][1], wm[nm][1], dm[nm][2], "reply of " + nm)
        ctx.ob("I-PROPS", it.key + ":property-names", set(dp) == set(wg) | set(wset),
               "introspection declares %s; get/set arms %s" % (sorted(dp), sorted(set(wg) | set(wset))), it.where)
        for nm in sorted(set(dp) & set(wg)):
            n_p += 1
            same_types(ctx, "I-PROPS", "%s:%s:type" % (it.key, nm), [dp[nm][0]], wg[nm][0], dp[nm][1], "value of " + nm, wrap=True)
        ctx.ob("I-SIGNALS", it.key + ":signal-names", set(ds) == set(wsig),
               "introspection declares %s; emitters send %s" % (sorted(ds), sorted(wsig)), it.where)
        for nm in sorted(set(ds) & set(wsig)):
            n_s += 1
            same_types(ctx, "I-SIGNALS", "%s:%s:args" % (it.key, nm), ds[nm][0], wsig[nm][0], ds[nm][1], "arguments of signal " + nm)
    full = "K4" in cfgs
    # K1: Introspectable, ObjectManager, Peer, Properties (7 methods, 3 signals); K6: Ordered (6 m, 5 p, 1 s), Spawning (5 m, 1 p, 1 s)
    ctx.floor("I-METHODS", "generated interfaces analysed", n_if, 6)
    ctx.floor("I-METHODS", "methods compared", n_m, 18)
    ctx.floor("I-PROPS", "properties compared", n_p, 6)
    ctx.floor("I-SIGNALS", "signals compared", n_s, 2)
