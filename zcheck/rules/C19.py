"""C19 — Every method call receives its own reply and only its own reply (DESIGN §5.C19).

Rules (all over MIR of zbus, configuration K1):
  C-SUB      call_method_raw: `activate_cloned` on ConnectionInner.method_return_receiver dominates
             `Connection::send`; the activated receiver is what the PendingMethodCall's stream is
             built from, and that stream is live across the await of send (subscribe-before-send)
  C-SERIAL   the serial stored in the PendingMethodCall is serial_num() of the primary header of
             the very message handed to send
  C-NOREPLY  `Ok(None)` is returned only on the true edge of `flags.contains(NoReplyExpected)`,
             a PendingMethodCall only on its false edge, both after the send
  C-WHO      PendingMethodCall is constructed only in call_method_raw; method_return_receiver is
             touched only by call_method_raw / Connection::new / derived Debug; call_method_raw is
             consumed only by the confirmed callers (awaited, or joined as an ordered stream)
  C-CHANNEL  Connection::new registers a `msg_type(MethodReturn)` rule and a `msg_type(Error)` rule
             whose senders both belong to the one broadcast channel whose receiver becomes
             ConnectionInner.method_return_receiver
  P-FILTER   poll_before compares Header::reply_serial() with Some(self.serial); the mismatch edge
             polls the stream again (no return); completion is reachable only over the match edge
  P-TYPE     after the serial match: MethodReturn -> Ok(msg), Error -> Err(msg.into()), every
             other type polls again
  P-ONCE     a completion with the reply stores None into self.stream first; a pending call whose
             stream is None returns Ready without polling
  P-ARMS     Item(Err(e)) completes with Err(e); NoneBefore / Terminated complete (Ready) without
             polling again; Poll::Pending is produced only on the Pending arm of the stream poll
  P-STREAM   MessageStream::poll_next_before (what poll_before consumes) maps the receiver's poll faithfully:
             Ready(Some(Ok(m))) -> Item{data: Ok(m)}, Ready(Some(Err(e))) -> Item{data: Err(e)},
             Ready(None) -> Terminated, and Pending / NoneBefore only when the receiver returned Pending
  P-POLL     Future::poll goes through poll_before(.., None), never manufactures Pending, and maps
             the exhausted (None) result to an Err
  T-WRAP     every direct `.await` of a PendingMethodCall sits on the None arm of
             `Connection::method_timeout()` while the Some(t) arm awaits `timeout(call, t)`
  T-BODY     abstractions::timeout::timeout (async-io flavour) races the future against an async
             block that awaits Timer::after(timeout) and then returns Err(TimedOut)

Dropped: nothing of §5.C19. The tokio flavour of `timeout` (K3) is not analysed (T-BODY is K1 only).
"""
from .. import mir, awaits as aw
from .. import lib_subs as L

META = {
    "technique": "MIR dominance / arm tables / who-may-call on the reply path",
    "level": "Static necessary conditions on every path of call_method_raw, PendingMethodCall::poll_before/poll, "
             "Connection::call_method and the timeout wrapper: subscription precedes the send, replies are filtered by "
             "serial and type, each terminal arm completes, the timeout wraps every awaited call. Schedules, the peer "
             "and the async-broadcast crate are not decided.",
}

PMC = "zbus::connection::PendingMethodCall"
FLAGS = "zbus::message::header::Flags"
POLL = "core::task::poll::Poll"
OPTION = "core::option::Option"
RESULT = "core::result::Result"


def run(ctx):
    ctx.explanation = ("R-ORDER/R-CTRL/R-FALL over MIR (K1): in call_method_raw the reply subscription is activated before the send and "
                       "is the stream the pending call polls, the stored serial is the sent message's; poll_before filters by "
                       "reply_serial and message type, continues on mismatch, completes on every terminal arm and never returns "
                       "Pending on its own; both reply rules feed the one method-return channel; awaited calls are wrapped by the "
                       "configured timeout.")
    ctx.not_decided = ("task schedules and timing; behaviour of async-broadcast, futures-lite `or` and async-io Timer; the tokio "
                       "flavour of the timeout helper; the peer.")
    f = ctx.facts("K1")
    rule_raw(ctx, f)
    rule_who(ctx, f)
    rule_channel(ctx, f)
    rule_poll_before(ctx, f)
    rule_poll(ctx, f)
    rule_stream_arms(ctx, f)
    rule_timeout(ctx, f)


# ------------------------------------------------------------------------------------------ call_method_raw
def rule_raw(ctx, f):
    raw = L.coroutine_of(ctx, f, L.CONN + "::call_method_raw")
    sends = mir.calls_to(raw, "Connection::send")
    ctx.floor("C-SUB", "Connection::send calls in call_method_raw", len(sends), 1)
    acts = [c for c in mir.calls(raw) if c.is_("activate_cloned") and "InactiveReceiver" in c.callee]
    acts_mr = [c for c in acts if L._arg_is_field(raw, c.args[0], "method_return_receiver")]
    ctx.floor("C-SUB", "activate_cloned(method_return_receiver) in call_method_raw", len(acts_mr), 1)
    pend = L.aggregates(raw, PMC)
    ctx.floor("C-SUB", "constructions of PendingMethodCall in call_method_raw", len(pend), 1)
    awaited = L.awaited_calls(f, raw)
    sub_locals = mir.derives(raw, {c.dest[0] for c in acts_mr})
    for s in sends:
        ok = any(mir.block_dominates(raw, a.b, s.b) and a.b != s.b for a in acts_mr)
        ctx.ob("C-SUB", "subscribe-dominates-send", ok,
               "activate_cloned on method_return_receiver dominates the send" if ok else
               "the message can be sent before the reply subscription is active", s.where)
        a = awaited.get(s.b)
        held = []
        if a is not None:
            held = [(t, n) for t, n, l in a.saved if n != "__awaitee" and ("message_stream::MessageStream" in t or "async_broadcast::Receiver" in t)]
        ctx.ob("C-SUB", "subscription-live-across-send", bool(held),
               "saved across the await of send: %s" % held if held else
               "no active receiver / stream is held across the await of send (awaited=%s)" % (a is not None), s.where)
    for bi, i, pl, rv, ln in pend:
        sop = L.agg_field(rv, "stream")
        ok = sop is not None and L.op_in(sop, sub_locals)
        ctx.ob("C-SUB", "pending-polls-the-subscription", ok,
               "PendingMethodCall.stream derives from the receiver activated before the send" if ok else
               "PendingMethodCall.stream does not come from the activate_cloned preceding the send", L.wh(raw, ln))
        # the stream wraps the receiver through for_subscription_channel(receiver, None, ..)
        # ---- serial
        ser = L.agg_field(rv, "serial")
        good, why = False, "serial operand missing"
        if ser is not None:
            o = mir.origin(raw, ser)
            if o[0] == "place":
                # `serial` user variable: single def from the call
                d = mir.single_def(raw, o[1][0])
                o = ("call", d[1]) if d and d[0] == "call" else o
            if o[0] == "call" and o[1].is_("PrimaryHeader::serial_num"):
                h = mir.origin_base(raw, o[1].args[0])
                if h[0] == "call" and h[1].is_("Message::primary_header"):
                    ml = L.strip_clone(raw, h[1].args[0])
                    sent = {L.strip_clone(raw, s.args[1]) for s in sends}
                    good = ml is not None and sent == {ml}
                    why = "serial of `%s`, message sent is %s" % (mir.local_name(raw, ml), [mir.local_name(raw, x) for x in sent])
                else:
                    why = "serial_num receiver is not Message::primary_header(..)"
            else:
                why = "serial does not come from PrimaryHeader::serial_num (origin %s)" % (o[0],)
        ctx.ob("C-SERIAL", "serial-of-sent-message", good, why, L.wh(raw, ln))

    # ---- NoReplyExpected
    cont = []
    for c in mir.calls(raw):
        if c.is_("contains") and "BitFlags" in c.callee and len(c.args) > 1 and L.is_agg(raw, c.args[1], FLAGS, "NoReplyExpected") is not None:
            cont.append(c)
    ctx.floor("C-NOREPLY", "flags.contains(NoReplyExpected) tests in call_method_raw", len(cont), 1)
    edges = []
    for c in cont:
        # the tested flag set is the parameter that also configures the message
        fl = mir.root_local(raw, c.args[0])
        for sb, tt, ft in L.bool_switches_on_call(raw, c):
            edges.append((sb, tt, ft))
        with_flags = [w for w in mir.calls(raw) if w.is_("with_flags")]
        it = [x for x in mir.calls(raw) if x.is_("into_iter") and mir.root_local(raw, x.args[0]) == fl]
        ctx.ob("C-NOREPLY", "tested-flags-are-the-message-flags", bool(with_flags) and bool(it),
               "the flag set tested is the one iterated into Builder::with_flags" if with_flags and it else
               "flags tested for NoReplyExpected are not the ones put on the message", c.where)
    ctx.floor("C-NOREPLY", "branches on contains(NoReplyExpected)", len(edges), 1)
    none_rets = []
    for b, i, pl, rv, ln in mir.assignments(raw):
        if pl[0] == mir.RET and not pl[1] and rv[0] == "agg" and rv[2] == RESULT and rv[3] == "Ok":
            if L.is_agg(raw, rv[4][0], OPTION, "None") is not None:
                none_rets.append((b, ln))
    ctx.floor("C-NOREPLY", "`Ok(None)` returns in call_method_raw", len(none_rets), 1)
    for b, ln in none_rets:
        ok = any(L.edge_dominates(raw, sb, tt, b) for sb, tt, ft in edges)
        ctx.ob("C-NOREPLY", "none-only-when-flagged", ok,
               "Ok(None) is returned only on the true edge of contains(NoReplyExpected)" if ok else
               "Ok(None) (no pending call) can be returned without NoReplyExpected being set", L.wh(raw, ln))
        oks = any(mir.block_dominates(raw, s.b, b) for s in sends)
        ctx.ob("C-NOREPLY", "none-after-send", oks, "the message is sent before returning Ok(None)" if oks else "Ok(None) can be returned without sending", L.wh(raw, ln))
    for bi, i, pl, rv, ln in pend:
        ok = any(L.edge_dominates(raw, sb, ft, bi) for sb, tt, ft in edges)
        ctx.ob("C-NOREPLY", "pending-only-when-reply-expected", ok,
               "a PendingMethodCall is built only on the false edge of contains(NoReplyExpected)" if ok else
               "a PendingMethodCall is built although NoReplyExpected may be set (it would wait forever)", L.wh(raw, ln))
        oks = any(mir.block_dominates(raw, s.b, bi) for s in sends)
        ctx.ob("C-NOREPLY", "pending-after-send", oks, "the message is sent before the pending call is handed out" if oks else
               "a pending call can be handed out without the message having been sent", L.wh(raw, ln))


# ------------------------------------------------------------------------------------------ who
def rule_who(ctx, f):
    n = 0
    for b in f.all_bodies("zbus"):
        for bi, i, pl, rv, ln in L.aggregates(b, PMC):
            n += 1
            ctx.ob("C-WHO", "constructs-PendingMethodCall:" + b.root, b.root == L.CONN + "::call_method_raw",
                   "PendingMethodCall constructed in %s" % b.root, L.wh(b, ln))
        for bi, i, pl, rv, ln in mir.assignments(b):
            if L.place_has_field(pl, "serial", PMC) or (L.place_has_field(pl, "stream", PMC) and b.root != "<%s as ordered_stream::OrderedFuture>::poll_before" % PMC):
                ctx.ob("C-WHO", "writes-PendingMethodCall-field:" + b.root, False, "field of PendingMethodCall written outside its poll", L.wh(b, ln))
    ctx.floor("C-WHO", "constructions of PendingMethodCall", n, 1)
    allowed = {
        L.CONN + "::call_method_raw": "activates a receiver per call",
        L.CONN + "::new": "construction",
        "<%s as core::fmt::Debug>::fmt" % L.INNER: "derived Debug",
    }
    touch = L.bodies_touching_field(f, "method_return_receiver", L.INNER)
    ctx.floor("C-WHO", "users of ConnectionInner.method_return_receiver", len(touch), 1)
    for root, (b, ln) in sorted(touch.items()):
        ctx.ob("C-WHO", "method_return_receiver-user:" + root, root in allowed,
               allowed.get(root, "unexpected user of the method-return channel"), L.wh(b, ln))
    # consumers of call_method_raw
    joins = {
        "zbus::proxy::PropertiesCache::init": "GetAll joined (ordered) with the PropertiesChanged stream",
        "zbus::proxy::SignalStream::<'a>::new": "GetNameOwner joined (ordered) with the NameOwnerChanged stream",
    }
    sites = L.callers_of(f, "Connection::call_method_raw")
    ctx.floor("C-WHO", "callers of call_method_raw", len(sites), 2)
    for b, c in sites:
        fam = L.family_bodies(f, b.root)
        awaits_it = any(x.fnargs.startswith("<%s as core::future::into_future::IntoFuture>" % PMC) for y in fam for x in mir.calls(y))
        joins_it = any("FromFuture<%s>" % PMC in x.fnargs and x.is_("from") for y in fam for x in mir.calls(y))
        if awaits_it:
            ctx.ob("C-WHO", "consumer:" + b.root, True, "awaits the pending call (T-WRAP applies)", c.where)
        elif joins_it:
            ctx.ob("C-WHO", "consumer:" + b.root, b.root in joins,
                   joins.get(b.root, "unexpected consumer joining a pending call as a stream"), c.where)
        else:
            ctx.ob("C-WHO", "consumer:" + b.root, False, "pending call obtained from call_method_raw is neither awaited nor joined", c.where)


# ------------------------------------------------------------------------------------------ one channel for returns and errors
def rule_channel(ctx, f):
    new = L.coroutine_of(ctx, f, L.CONN + "::new")
    aggs = L.aggregates(new, L.INNER)
    ctx.need(aggs, "construction of ConnectionInner in Connection::new", "C-CHANNEL")
    bcasts = [c for c in mir.calls(new) if c.callee.endswith("async_broadcast::broadcast") or c.is_("broadcast") and "async_broadcast" in c.callee]
    inserts = [c for c in mir.calls(new) if c.is_("insert") and "HashMap" in c.callee and len(c.args) == 3]
    for bi, i, pl, rv, ln in aggs:
        op = L.agg_field(rv, "method_return_receiver")
        ctx.need([op] if op is not None else [], "ConnectionInner.method_return_receiver operand", "C-CHANNEL")
        chan = [c for c in bcasts if L.op_in(op, mir.derives(new, {c.dest[0]}))]
        ok1 = len(chan) == 1
        ctx.ob("C-CHANNEL", "receiver-from-one-broadcast", ok1,
               "method_return_receiver comes from exactly one broadcast() channel" if ok1 else
               "method_return_receiver derives from %d broadcast() calls" % len(chan), L.wh(new, ln))
        if not ok1:
            continue
        der = mir.derives(new, {chan[0].dest[0]})
        # the unfiltered receiver is a different channel
        other = L.agg_field(rv, "msg_receiver")
        if other is not None:
            ctx.ob("C-CHANNEL", "distinct-from-unfiltered-channel", not L.op_in(other, der),
                   "msg_receiver (unfiltered stream) is a different channel" if not L.op_in(other, der) else
                   "the unfiltered receiver and the method-return receiver are the same channel", L.wh(new, ln))
        for ty in ("MethodReturn", "Error"):
            mts = [c for c in mir.calls(new) if c.is_("msg_type") and "match_rule" in c.callee and len(c.args) > 1
                   and L.is_agg(new, c.args[1], L.TYPE, ty) is not None]
            good = False
            where = L.wh(new, ln)
            for m in mts:
                kd = mir.derives(new, {m.dest[0]})
                for ins in inserts:
                    if L.op_in(ins.args[1], kd) and L.op_in(ins.args[2], der) and mir.block_dominates(new, ins.b, bi):
                        good = True
                        where = ins.where
            ctx.ob("C-CHANNEL", "rule-feeds-return-channel:" + ty, good,
                   "a msg_type(%s) rule is registered with a sender of the method-return channel" % ty if good else
                   "no msg_type(%s) rule is registered on the method-return channel: such replies never reach pending calls" % ty, where)
        # the reply channel never drops: no overflow mode on it here, no lossy channel operation anywhere in zbus
        # (the channel is type-erased in the sender map, so the second half is a whole-crate who-may-call rule)
        lossy = [c for c in mir.calls(new) if c.is_("set_overflow") and "async_broadcast" in (c.callee + c.declared)
                 and c.args and (L.op_in(c.args[0], der) or
                                 (mir.origin(new, c.args[0])[0] in ("ref", "place") and mir.origin(new, c.args[0])[1][0] in der))]
        ctx.ob("C-CHANNEL", "return-channel-not-lossy", not lossy,
               "no set_overflow on the method-return channel: a full queue back-pressures the reader instead of evicting replies"
               if not lossy else "overflow mode is switched on for the method-return channel: a burst of replies evicts unread ones "
               "and their pending calls never complete", lossy[0].where if lossy else L.wh(new, ln))
        anyl = [(b2, c) for b2 in f.all_bodies("zbus") for c in mir.calls(b2)
                if "async_broadcast::" in (c.callee + " " + c.declared) and c.is_("set_overflow", "try_broadcast")]
        ctx.ob("C-CHANNEL", "no-lossy-channel-operation-in-zbus", not anyl,
               "zbus never calls set_overflow / try_broadcast on an async_broadcast channel" if not anyl else
               "lossy channel operation in %s" % anyl[0][0].root, anyl[0][1].where if anyl else "-")
        # the sender map handed to the reader is the one the rules were inserted into
        ms = L.agg_field(rv, "msg_senders")
        maps = {mir.root_local(new, ins.args[0]) if mir.origin(new, ins.args[0])[0] not in ("ref",) else mir.origin(new, ins.args[0])[1][0] for ins in inserts}
        okm = ms is not None and any(L.op_in(ms, mir.derives(new, {m})) for m in maps if m is not None)
        ctx.ob("C-CHANNEL", "sender-map-is-installed", okm, "the map holding both rules becomes ConnectionInner.msg_senders" if okm else
               "the map the reply rules were inserted into is not the one stored in ConnectionInner.msg_senders", L.wh(new, ln))


# ------------------------------------------------------------------------------------------ poll_before
def rule_poll_before(ctx, f):
    pb = ctx.one(f.find(name="poll_before", adt=PMC, trait="ordered_stream::OrderedFuture"), "PendingMethodCall::poll_before")
    polls = [c for c in mir.calls(pb) if c.is_("poll_next_before") and L.MS in c.fnargs]
    P = ctx.one(polls, "the poll_next_before call in poll_before", "P-ARMS")
    pl_ = P.dest[0]
    where = P.where
    # receiver is self.stream's payload
    ro = mir.origin_base(pb, P.args[0])
    recv_ok = False
    if ro[0] == "call" and ro[1].is_("new", "new_unchecked") and ro[1].args:
        o2 = mir.origin(pb, ro[1].args[0])
        recv_ok = o2[0] in ("place", "ref") and "stream" in mir.place_fields(o2[1])
        if not recv_ok and o2[0] in ("place", "ref"):
            # through the `stream` binding of `if let Some(stream) = &mut this.stream`
            for d in mir.defs_of(pb, o2[1][0]):
                if d[0] == "assign" and d[4][0] == "ref":
                    o3 = mir.origin(pb, ["c", d[4][2]])
                    if o3[0] in ("place", "ref") and "stream" in mir.place_fields(o3[1]):
                        recv_ok = True
    ctx.ob("P-ARMS", "polls-own-stream", recv_ok, "poll_next_before is applied to self.stream" if recv_ok else
           "the polled stream is not self.stream", where)

    # ---- arms of the poll result
    poll_sw = res_sw = data_sw = None
    for sb, t, place in L.place_switches(pb, pl_):
        arms = L.discr_arms(pb, f, sb)
        if not arms:
            continue
        _, adt, am, other = arms
        if adt == POLL:
            poll_sw = (sb, am, other)
        elif adt == "ordered_stream::PollResult":
            res_sw = (sb, am, other)
        elif adt == RESULT:
            data_sw = (sb, am, other)
    ctx.need([poll_sw] if poll_sw else [], "match on Poll of the stream poll", "P-ARMS")
    ctx.need([res_sw] if res_sw else [], "match on PollResult of the stream poll", "P-ARMS")
    ctx.need([data_sw] if data_sw else [], "match on the item's Result", "P-ARMS")
    pend_t = poll_sw[1].get("Pending")
    # P-ARMS: Pending aggregates only under the Pending arm
    pend_aggs = L.aggregates(pb, POLL, "Pending")
    for bi, i, pl, rv, ln in pend_aggs:
        ok = pend_t is not None and L.edge_dominates(pb, poll_sw[0], pend_t, bi)
        ctx.ob("P-ARMS", "pending-only-when-stream-pending", ok,
               "Poll::Pending is returned only when the stream poll returned Pending (waker registered)" if ok else
               "Poll::Pending is produced on a path where the stream did not return Pending: nothing will wake the call", L.wh(pb, ln))
    ctx.floor("P-ARMS", "Poll::Pending results in poll_before", len(pend_aggs), 1)
    ctx.ob("P-ARMS", "item-arm-identified", "Item" in res_sw[1], "the Item arm of PollResult is identified (arms %s)" % sorted(res_sw[1]),
           L.wh(pb, mir.term(pb, res_sw[0])[5]))
    terminal = [(("PollResult::" + n), t, res_sw) for n, t in sorted(res_sw[1].items()) if n != "Item"]
    if not mir.otherwise_is_unreachable(pb, res_sw[0]):
        terminal.append(("PollResult::<otherwise>", res_sw[2], res_sw))
    ctx.floor("P-ARMS", "non-Item arms of PollResult (NoneBefore, Terminated)", len(terminal), 2)
    terminal.append(("Item(Err)", data_sw[1].get("Err"), data_sw))
    for name, tgt, sw in terminal:
        ctx.need([tgt] if tgt is not None else [], "arm %s" % name, "P-ARMS")
        r = mir.reachable(pb, [tgt])
        completes = P.b not in r and bool(L.exits_reachable(pb, [tgt]))
        ctx.ob("P-ARMS", "arm-completes:" + name, completes,
               "%s ends the poll with a return (no further stream poll)" % name if completes else
               "%s loops back to the stream poll or never returns: a dead connection would not complete the call" % name,
               L.wh(pb, mir.term(pb, sw[0])[5]))
    # Err(e) is propagated
    err_t = data_sw[1].get("Err")
    er = mir.region(pb, err_t) if L.sole_pred(pb, err_t, data_sw[0]) else mir.reachable(pb, [err_t], avoid={P.b})
    e_locals = set()
    for b, i, pl, rv, ln in mir.assignments(pb):
        for op in mir.rvalue_operands(rv):
            p = mir.op_place(op)
            if p and p[0] == pl_ and any(isinstance(x, list) and x[0] == "as" and x[1] == "Err" for x in p[1]):
                e_locals.add(pl[0])
    e_der = mir.derives(pb, e_locals, through_calls=False)
    prop = False
    for bi, i, pl, rv, ln in L.aggregates(pb, RESULT, "Err"):
        if bi in er and L.op_in(rv[4][0], e_der):
            prop = True
    ctx.ob("P-ARMS", "stream-error-propagated", prop, "Item(Err(e)) completes the call with Err(e)" if prop else
           "the error item of the stream is not what the call completes with", L.wh(pb, mir.term(pb, data_sw[0])[5]))

    # ---- P-FILTER
    ok_t = data_sw[1].get("Ok")
    ctx.need([ok_t] if ok_t is not None else [], "arm Ok of the item", "P-FILTER")
    msg_locals = set()
    for b, i, pl, rv, ln in mir.assignments(pb):
        for op in mir.rvalue_operands(rv):
            p = mir.op_place(op)
            if p and p[0] == pl_ and any(isinstance(x, list) and x[0] == "as" and x[1] == "Ok" for x in p[1]):
                msg_locals.add(pl[0])
    ctx.need(sorted(msg_locals), "binding of the Ok(msg) payload", "P-FILTER")
    cmps = []
    for c in mir.calls(pb):
        if not (c.is_("eq", "ne") and "PartialEq" in c.callee) or len(c.args) != 2:
            continue
        sides = [_serial_side(pb, a, msg_locals) for a in c.args]
        if set(sides) == {"reply_serial", "own_serial"}:
            for sb, tt, ft in L.bool_switches_on_call(pb, c):
                eq = c.is_("eq")
                cmps.append((c, sb, tt if eq else ft, ft if eq else tt))
    ctx.floor("P-FILTER", "comparisons reply_serial() <-> Some(self.serial)", len(cmps), 1)
    match_targets = []
    for c, sb, match_t, mism_t in cmps:
        cont = not L.exits_reachable(pb, [mism_t], avoid={P.b}) and P.b in mir.reachable(pb, [mism_t])
        ctx.ob("P-FILTER", "mismatch-continues", cont, "a reply with another serial is skipped and the stream polled again" if cont else
               "a reply with another serial can end the poll (returns without polling again)", c.where)
        ctx.ob("P-FILTER", "match-edge-exclusive", L.sole_pred(pb, match_t, sb), "the match edge is entered only from the comparison"
               if L.sole_pred(pb, match_t, sb) else "the code after the serial match can also be entered without the comparison", c.where)
        match_targets.append(match_t)
    # from the Ok arm, returning requires passing a match edge
    if cmps:
        esc = L.exits_reachable(pb, [ok_t], avoid={P.b} | set(match_targets))
        ctx.ob("P-FILTER", "completion-only-on-serial-match", not esc,
               "from Ok(msg) the function returns only through the serial-match edge" if not esc else
               "Ok(msg) can complete the call without the serial comparison succeeding", L.wh(pb, mir.term(pb, data_sw[0])[5]))

    # ---- P-TYPE
    tsw = None
    for c in mir.calls(pb):
        if c.is_("Message::message_type") and mir.op_local(c.args[0]) is not None and L.strip_clone(pb, c.args[0]) in msg_locals:
            for sb, t, place in L.place_switches(pb, c.dest[0]):
                arms = L.discr_arms(pb, f, sb)
                if arms and arms[1] == L.TYPE:
                    tsw = (sb, arms[2], arms[3], c)
    ctx.need([tsw] if tsw else [], "match on msg.message_type()", "P-TYPE")
    sb, arms, other, tc = tsw
    under_match = any(mir.block_dominates(pb, mt, sb) for mt in match_targets)
    ctx.ob("P-TYPE", "type-test-after-serial-match", under_match, "the type is examined on the serial-match path" if under_match else
           "the message type decides the completion without a preceding serial match", tc.where)
    msg_der = mir.derives(pb, msg_locals)
    table = {"MethodReturn": "Ok", "Error": "Err"}
    for v, want in table.items():
        tgt = arms.get(v)
        good, why = False, "no arm for %s" % v
        if tgt is not None:
            reg = mir.region(pb, tgt) if L.sole_pred(pb, tgt, sb) else set()
            got = [rv[3] for bi, i, pl, rv, ln in L.aggregates(pb, RESULT) if bi in reg and L.op_in(rv[4][0], msg_der)]
            good = got == [want] or (bool(got) and set(got) == {want})
            why = "%s -> Result::%s of the message" % (v, "/".join(got) or "nothing")
        ctx.ob("P-TYPE", "arm:" + v, good, why, tc.where)
    others = [t for n, t in arms.items() if n not in table] + [other]
    for t in others:
        if mir.term(pb, t)[0] == "unreach" and not mir.stmts(pb, t):
            continue
        cont = not L.exits_reachable(pb, [t], avoid={P.b}) and P.b in mir.reachable(pb, [t])
        ctx.ob("P-TYPE", "other-types-continue", cont, "a non-reply type with a matching reply_serial is skipped" if cont else
               "a message that is neither MethodReturn nor Error can complete the call", tc.where)

    # ---- P-ONCE
    clears = []
    for b, i, pl, rv, ln in mir.assignments(pb):
        if L.place_has_field(pl, "stream", PMC) and pl[1] and isinstance(pl[1][-1], list) and pl[1][-1][2] == "stream":
            isnone = rv[0] == "use" and L.is_agg(pb, rv[1], OPTION, "None") is not None or (rv[0] == "agg" and rv[2] == OPTION and rv[3] == "None")
            clears.append((b, isnone, ln))
    ctx.floor("P-ONCE", "assignments to self.stream in poll_before", len(clears), 1)
    for b, isnone, ln in clears:
        ctx.ob("P-ONCE", "stream-assignment-is-None", isnone, "self.stream is only ever reset to None", L.wh(pb, ln))
    clear_blocks = {b for b, isnone, ln in clears if isnone}
    starts = [arms[v] for v in table if arms.get(v) is not None]
    esc = L.exits_reachable(pb, starts, avoid={P.b} | clear_blocks) if starts else [0]
    ctx.ob("P-ONCE", "reply-drops-the-stream", not esc, "every return with the reply first stores None into self.stream" if not esc else
           "a reply can be returned while the stream is kept: the call could complete twice", tc.where)
    # the None guard
    guard = None
    for sb2, t2 in mir.switches(pb):
        arms2 = L.discr_arms(pb, f, sb2)
        if not arms2 or arms2[1] != OPTION:
            continue
        place = arms2[0]
        o = mir.origin(pb, ["c", place])
        if (o[0] in ("place", "ref") and "stream" in mir.place_fields(o[1])) or "stream" in mir.place_fields(place):
            guard = (sb2, arms2[2], arms2[3])
    ctx.need([guard] if guard else [], "test of self.stream being Some", "P-ONCE")
    some_t = guard[1].get("Some")
    none_t = guard[1].get("None", guard[2])
    g1 = some_t is not None and mir.block_dominates(pb, some_t, P.b)
    g2 = none_t is not None and P.b not in mir.reachable(pb, [none_t]) and bool(L.exits_reachable(pb, [none_t]))
    ctx.ob("P-ONCE", "finished-call-does-not-poll", g1 and g2, "the stream is polled only while self.stream is Some; otherwise Ready is returned" if g1 and g2
           else "the stream poll is not guarded by self.stream being Some", L.wh(pb, mir.term(pb, guard[0])[5]))


def _serial_side(pb, op, msg_locals):
    """classify one operand of the serial comparison"""
    o = mir.origin(pb, op)
    if o[0] == "call" and o[1].is_("reply_serial"):
        return _hdr_of_msg(pb, o[1], msg_locals)
    if o[0] in ("ref", "place"):
        l = o[1][0]
        d = mir.single_def(pb, l)
        if d and d[0] == "call" and d[1].is_("reply_serial"):
            return _hdr_of_msg(pb, d[1], msg_locals)
        if d and d[0] == "assign" and d[4][0] == "agg" and d[4][2] == OPTION and d[4][3] == "Some":
            o2 = mir.origin(pb, d[4][4][0])
            if o2[0] == "place" and L.place_has_field(o2[1], "serial", PMC):
                return "own_serial"
    if o[0] == "rv" and o[1][0] == "agg" and o[1][2] == OPTION and o[1][3] == "Some":
        o2 = mir.origin(pb, o[1][4][0])
        if o2[0] == "place" and L.place_has_field(o2[1], "serial", PMC):
            return "own_serial"
    return None


def _hdr_of_msg(pb, call, msg_locals):
    h = mir.origin_base(pb, call.args[0])
    if h[0] == "call" and h[1].is_("Message::header") and L.strip_clone(pb, h[1].args[0]) in msg_locals:
        return "reply_serial"
    o = mir.origin(pb, call.args[0])
    if o[0] in ("ref", "place"):
        d = mir.single_def(pb, o[1][0])
        if d and d[0] == "call" and d[1].is_("Message::header") and L.strip_clone(pb, d[1].args[0]) in msg_locals:
            return "reply_serial"
    return None


# ------------------------------------------------------------------------------------------ Future::poll
def rule_poll(ctx, f):
    poll = ctx.one(f.find(name="poll", adt=PMC, trait="core::future::future::Future"), "<PendingMethodCall as Future>::poll")
    fam = L.family_bodies(f, poll.id)
    pbs = [c for b in fam for c in mir.calls(b) if c.is_("poll_before") and PMC in c.fnargs]
    ctx.floor("P-POLL", "poll_before calls in Future::poll", len(pbs), 1)
    for c in pbs:
        none = len(c.args) == 3 and L.is_agg(c.body, c.args[2], OPTION, "None") is not None
        selfrecv = mir.root_local(c.body, c.args[0]) == 1
        ctx.ob("P-POLL", "delegates-to-poll_before", none and selfrecv, "poll == poll_before(self, cx, None)" if none and selfrecv else
               "poll does not delegate to poll_before(self, cx, None)", c.where)
    pend = [(b, ln) for b in fam for bi, i, pl, rv, ln in L.aggregates(b, POLL, "Pending")]
    ctx.ob("P-POLL", "no-own-pending", not pend, "Future::poll never manufactures Poll::Pending" if not pend else
           "Future::poll returns Pending on its own at %s" % [L.wh(b, ln) for b, ln in pend], poll.where)
    errs = [(b, ln) for b in fam for bi, i, pl, rv, ln in L.aggregates(b, RESULT, "Err")]
    diverge = [c for b in fam for c in mir.calls(b) if c.is_("unwrap", "expect", "unreachable", "panic", "panic_fmt", "unwrap_unchecked")]
    ok = bool(errs) and not diverge
    ctx.ob("P-POLL", "exhausted-becomes-error", ok, "the None result of poll_before (stream gone) is mapped to an Err, nothing unwraps" if ok else
           "no Err is produced for the exhausted case, or the result is unwrapped (%d unwrap-like calls)" % len(diverge), poll.where)


# ------------------------------------------------------------------------------------------ MessageStream::poll_next_before
def rule_stream_arms(ctx, f):
    pn = ctx.one(f.find(name="poll_next_before", adt=L.MS, trait="ordered_stream::OrderedStream"), "MessageStream::poll_next_before", "P-STREAM")
    polls = [c for c in mir.calls(pn) if c.is_("poll_next") and "stream::Stream" in c.callee + c.declared]
    S = ctx.one(polls, "the Stream::poll_next call in poll_next_before", "P-STREAM")
    sl = S.dest[0]
    PR = "ordered_stream::PollResult"
    want = {"Pending": {"Pending"}, "NoneBefore": {"Pending"}, "Terminated": {"Ready", "None"}}
    seen = set()
    for bi, i, pl, rv, ln in L.aggregates(pn, POLL, "Pending") + L.aggregates(pn, PR, "NoneBefore") + L.aggregates(pn, PR, "Terminated"):
        cx = L.arm_context(pn, f, sl, bi)
        ok = want[rv[3]] <= cx
        seen.add(rv[3])
        ctx.ob("P-STREAM", "arm:" + rv[3], ok, "%s is produced only under the receiver's %s" % (rv[3], "/".join(sorted(want[rv[3]]))) if ok else
               "%s is produced under receiver arms %s (expected %s)" % (rv[3], sorted(cx), sorted(want[rv[3]])), L.wh(pn, ln))
    for bi, i, pl, rv, ln in L.aggregates(pn, PR, "Item"):
        d = L.agg_field(rv, "data")
        o = mir.origin(pn, d) if d is not None else ("?",)
        if o[0] == "rv" and o[1][0] == "agg" and o[1][2] == RESULT:
            v = o[1][3]
            cx = L.arm_context(pn, f, sl, bi)
            payload = set()
            for b2, i2, pl2, rv2, ln2 in mir.assignments(pn):
                for op in mir.rvalue_operands(rv2):
                    p = mir.op_place(op)
                    if p and p[0] == sl and any(isinstance(x, list) and x[0] == "as" and x[1] == v for x in p[1]):
                        payload.add(pl2[0])
            same = L.op_in(o[1][4][0], mir.derives(pn, payload, through_calls=False))
            ok = {"Ready", "Some", v} <= cx and same
            seen.add("Item(%s)" % v)
            ctx.ob("P-STREAM", "arm:Item(%s)" % v, ok, "Ready(Some(%s(x))) is passed on as Item{data: %s(x)}" % (v, v) if ok else
                   "Item{data: %s(..)} is produced under receiver arms %s, payload preserved=%s" % (v, sorted(cx), same), L.wh(pn, ln))
        else:
            ctx.ob("P-STREAM", "arm:Item(?)", False, "Item whose data is not a visible Ok/Err construction", L.wh(pn, ln))
    for k in ("Pending", "Terminated", "Item(Ok)", "Item(Err)"):
        ctx.ob("P-STREAM", "produces:" + k, k in seen, "poll_next_before can produce %s" % k if k in seen else
               "poll_next_before never produces %s: %s" % (k, {"Terminated": "a closed channel would not end pending calls",
                                                               "Item(Err)": "a connection error would not reach pending calls"}.get(k, "required arm missing")), pn.where)


# ------------------------------------------------------------------------------------------ timeout
def rule_timeout(ctx, f):
    n = 0
    for b in f.all_bodies("zbus"):
        sites = [c for c in mir.calls(b) if c.is_("into_future") and c.fnargs.startswith("<%s as core::future::into_future::IntoFuture>" % PMC)]
        if not sites:
            continue
        mts = mir.calls_to(b, "Connection::method_timeout")
        tos = [c for c in mir.calls(b) if c.callee == "zbus::abstractions::timeout::timeout" or c.declared == "zbus::abstractions::timeout::timeout"]
        awaited = L.awaited_calls(f, b) if b.kind == "coroutine" else {}
        for s in sites:
            n += 1
            key = "await:" + b.root
            pend_l = L.strip_clone(b, s.args[0])
            good, why = False, "the pending call is awaited without consulting Connection::method_timeout(): with a configured timeout a lost reply blocks this call forever"
            for m in mts:
                for sb, t, place in L.place_switches(b, m.dest[0]):
                    arms = L.discr_arms(b, f, sb)
                    if not arms or arms[1] != OPTION:
                        continue
                    some_t = arms[2].get("Some")
                    none_t = arms[2].get("None", arms[3])
                    if some_t is None or none_t is None:
                        continue
                    if not L.edge_dominates(b, sb, none_t, s.b):
                        why = "the bare await is not confined to the None arm of method_timeout()"
                        continue
                    tder = set()
                    for bb, i, pl, rv, ln in mir.assignments(b):
                        for op in mir.rvalue_operands(rv):
                            p = mir.op_place(op)
                            if p and p[0] == m.dest[0] and p[1]:
                                tder.add(pl[0])
                    tder = mir.derives(b, tder, through_calls=False)
                    for tcall in tos:
                        if not mir.block_dominates(b, some_t, tcall.b):
                            continue
                        same = L.strip_clone(b, tcall.args[0]) == pend_l
                        dur = L.op_in(tcall.args[1], tder)
                        aw_ = tcall.b in awaited
                        if same and dur and aw_:
                            good = True
                            why = "Some(t) arm awaits timeout(call, t); only the None arm awaits the call bare"
                        else:
                            why = "timeout() on the Some arm: same call=%s, duration from method_timeout=%s, awaited=%s" % (same, dur, aw_)
            ctx.ob("T-WRAP", key, good, why, s.where)
    ctx.floor("T-WRAP", "direct awaits of a PendingMethodCall", n, 1)

    # ---- the helper itself (async-io flavour)
    tf = f.bodies.get("zbus::abstractions::timeout::timeout")
    ctx.need([tf] if tf else [], "zbus::abstractions::timeout::timeout", "T-BODY")
    co = L.coroutine_of(ctx, f, tf.id)
    races = [c for c in mir.calls(co) if c.is_("or", "race") and "futures_lite" in c.callee]
    if not races:
        if any("tokio::time" in c.callee for c in mir.calls(co)):
            ctx.note("timeout helper is the tokio flavour; T-BODY not applicable to this configuration")
            return
    ctx.floor("T-BODY", "race of the future against the timer", len(races), 1)
    awaited = L.awaited_calls(f, co)
    kids = {b.id: b for b in f.children.get(tf.id, [])}
    for r in races:
        futs = [a for a in r.args if mir.root_local(co, a) is not None and mir.local_name(co, mir.root_local(co, a)) == "fut"
                or L._arg_is_field(co, a, "fut")]
        blocks = []
        for a in r.args:
            o = mir.origin(co, a)
            if o[0] == "rv" and o[1][0] == "agg" and o[1][1] == "coroutine" and o[1][2] in kids:
                blocks.append((kids[o[1][2]], o[1]))
        ok = len(futs) == 1 and len(blocks) == 1 and r.b in awaited
        ctx.ob("T-BODY", "races-fut-against-timer-block", ok, "`fut` is raced against one async block and the race is awaited" if ok else
               "the awaited value is not a race of `fut` with an async block (fut=%d, blocks=%d, awaited=%s)" % (len(futs), len(blocks), r.b in awaited), r.where)
        for tb, agg in blocks:
            cap = any(mir.root_local(co, o) is not None and mir.local_name(co, mir.root_local(co, o)) == "timeout" or
                      (mir.origin(co, o)[0] == "ref" and mir.local_name(co, mir.origin(co, o)[1][0]) == "timeout") for o in agg[4])
            timers = [c for c in mir.calls(tb) if c.is_("Timer::after")]
            tawaited = L.awaited_calls(f, tb)
            t_ok = bool(timers) and all(c.b in tawaited for c in timers)
            dur_ok = False
            for c in timers:
                o = mir.origin(tb, c.args[0])
                if o[0] == "place" and any("timeout" in x for x in mir.place_fields(o[1])):
                    dur_ok = True
            ctx.ob("T-BODY", "timer-uses-the-timeout", cap and t_ok and dur_ok,
                   "the block awaits Timer::after(timeout) with the captured duration" if cap and t_ok and dur_ok else
                   "timer block: captures timeout=%s, awaits Timer::after=%s, duration is the capture=%s" % (cap, t_ok, dur_ok), tb.where)
            rets = [(rv, ln) for b, i, pl, rv, ln in mir.assignments(tb) if pl[0] == mir.RET and not pl[1]]
            all_err = bool(rets) and all(rv[0] == "agg" and rv[2] == RESULT and rv[3] == "Err" for rv, ln in rets)
            kind = [1 for b, i, pl, rv, ln in L.aggregates(tb, "core::io::error::ErrorKind", "TimedOut")]
            after = all(any(mir.block_dominates(tb, c.b, b) for c in timers) for b, i, pl, rv, ln in mir.assignments(tb) if pl[0] == mir.RET and not pl[1])
            ctx.ob("T-BODY", "timer-block-yields-timeout-error", all_err and bool(kind) and after,
                   "after the timer the block returns Err(TimedOut)" if all_err and kind and after else
                   "timer block returns: all Err=%s, TimedOut kind=%s, after the timer=%s" % (all_err, bool(kind), after), tb.where)
