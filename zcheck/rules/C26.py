"""C26 — Method dispatch answers each call exactly once and correctly (DESIGN §5.C26).

Library side (zbus/src/object_server, K1; K3 in the thorough tier):
  D-TABLE      routing error table. dispatch_method_call_try: `None` from Node::get_child becomes
               fdo::Error::UnknownObject, `None` from Node::interface_lock becomes UnknownInterface, and the
               failure continuation never reaches the interface call / task spawn.
               dispatch_call_to_iface: Interface::call → NotFound ⇒ every path to return builds UnknownMethod
               (returned as Err); RequiresMut ⇒ every path goes through Interface::call_mut; Async ⇒ the carried
               future is awaited and call_mut is not reached;
               Interface::call_mut → NotFound/RequiresMut ⇒ UnknownMethod, Async ⇒ awaited.
  D-ERR-REPLY  every call site of dispatch_method_call_try / dispatch_call_to_iface either returns the awaited
               result unchanged or switches on it and answers the Err arm exactly once with
               reply_dbus_error(that error) and the Ok arm not at all (R-COUNT).
  D-START      in a connection constructor that starts both, `init_socket_reader` cannot precede
               `start_object_server` (a call read before the dispatcher subscribed is never answered)
  D-FLAG       every Connection::reply* call on the dispatch path (call-graph closure of
               ObjectServer::dispatch_call + DispatchResult::new_async, generated code excluded) is dominated by
               the false edge of a `flags().contains(Flags::NoReplyExpected)` test (R-CTRL).
Generated code (#[interface] expansions: the fdo interfaces in K1 in both tiers; additionally the fixtures of
zbus/tests and of the unit tests, K4, in the thorough tier or with ZCHECK_K4=1 — K4 costs 95-160 s to extract) —
one instance per method arm, keyed by the handler it calls:
  G-ROUTE      `call`/`call_mut` are a string match whose arms return Async or RequiresMut and whose `_` arm
               returns NotFound; the member names `call` answers RequiresMut for = the names `call_mut` matches;
               no name is matched twice; every Async arm boxes a coroutine that calls exactly one handler on the
               captured interface object; no handler is wired to two arms.
  G-COUNT      in a method arm: at most one reply on any path, at least one on every path that avoids the
               NoReplyExpected true edge, none after that edge; the handler is called exactly once on every
               path that does not leave through an early (pre-handler) reply (R-COUNT over the CFG's SCC DAG).
  G-FLAG       the arm tests NoReplyExpected on the primary header of the call message; replies of the
               handler's result are dominated by the false edge; the true edge returns Ok(()) (an Err would be
               answered by dispatch_call).
  G-PAYLOAD    what is replied derives from the handler's return value, and the header passed to every reply
               is Message::header() of the dispatched message.
  G-DECODE     when the arm decodes arguments (Body::deserialize) the Err arm replies exactly once with an
               error derived from the decode error and never reaches the handler.
               (G-FLAG-EARLY and G-ARGS-NAME are one aggregated instance each because every site comes from the same
               macro template, zbus_macros/src/iface.rs get_args_from_inputs; both are violated on the unchanged tree.)
  G-ARGS-NAME  (one aggregated instance) the error replied on a decode failure is fdo::Error::InvalidArgs:
               built directly, or produced by a conversion whose arm for zbus::Error::Variant builds InvalidArgs.
  G-FLAG-EARLY (one aggregated instance) the replies sent before the handler runs (decode failure, missing
               path for a signal emitter) are also gated by the NoReplyExpected test.

Not decided / dropped: that the member name of an arm is the D-Bus name intended for its handler (naming convention
of the macro; arms are keyed by the handler they call); that the reply body's type is the declared output type (type
checker's business); interfaces the repository does not contain; hand-written Interface impls.
"""
from .. import mir, callgraph
from .. import lib_iface as L

META = {
    "technique": "MIR switch-table extraction, control dependence and path counting over dispatch code and #[interface] expansions",
    "level": ("Decides, for the object server's routing code and for every #[interface] expansion compiled in the "
              "repository (library fdo interfaces and test fixtures), the routing/error table, that replies are "
              "control-dependent on the NoReplyExpected test, and by path counting that each generated method arm "
              "replies exactly once unless the flag says otherwise and calls its handler exactly once. "
              "Member-name-to-arm wiring and interfaces outside the repository are not decided."),
}

OS = "zbus::object_server::ObjectServer"
TRY = OS + "::dispatch_method_call_try"
TO_IFACE = OS + "::dispatch_call_to_iface"
DISPATCH_CALL = OS + "::dispatch_call"
NEW_ASYNC_SUFFIX = "DispatchResult::<'a>::new_async"
NODE_GET_CHILD = "zbus::object_server::node::Node::get_child"
NODE_IFACE_LOCK = "zbus::object_server::node::Node::interface_lock"


def short(callee):
    return callee.rsplit("::", 1)[-1]


def coroutines_of(f, root_id, crate):
    return [b for b in f.children.get(root_id, []) if b.crate == crate and b.kind == "coroutine"]


def edge_dominates(body, sb, target, blk):
    """`blk` executes only after the edge sb -> target was taken"""
    if target is None:
        return False
    return mir.preds(body)[target] == [sb] and mir.block_dominates(body, target, blk)


# =========================================================================================== library side
def check_table_try(ctx, f, tag):
    body = ctx.one([b for b in coroutines_of(f, TRY, "zbus") if b.d.get("parent") == TRY or b.id == TRY + "::{closure#0}"],
                   tag + "coroutine of dispatch_method_call_try")
    sinks = {c.b for c in mir.calls(body) if c.is_(TO_IFACE, "Executor::<'_>::spawn", "Executor::spawn")}
    ctx.floor("D-TABLE", tag + "dispatch sinks (interface call / spawn) in dispatch_method_call_try", len(sinks), 1)
    want = {NODE_GET_CHILD: "UnknownObject", NODE_IFACE_LOCK: "UnknownInterface"}
    seen = {}
    for nh in L.none_handlers(f, body):
        src, vs = nh.src, nh.errors
        if src is None:
            continue
        for callee, variant in want.items():
            if not (src.callee == callee or src.declared == callee):
                continue
            seen[callee] = seen.get(callee, 0) + 1
            names = {v for adt, v in vs if adt == L.FDO_ERROR}
            other = {(a, v) for a, v in vs if a != L.FDO_ERROR}
            ctx.ob("D-TABLE", tag + "try:%s->%s" % (short(callee), variant), names == {variant} and not other,
                   "None from %s is mapped to %s" % (short(callee), sorted(names | {"%s::%s" % x for x in other}) or "nothing"),
                   nh.where)
            # failure continuation (`?` / the None arm) leaves with the error before dispatching
            okp = False
            detail = "the mapped error does not leave the function (no `?` / returning arm)"
            if nh.fail_start is not None:
                reach = mir.reachable(body, [nh.fail_start])
                leaves = not (reach & sinks)
                okp = leaves and bool([e for e in mir.exits(body) if e in reach])
                detail = ("error edge returns without dispatching" if okp else
                          "error edge %s" % ("reaches the interface call" if not leaves else "does not return"))
            ctx.ob("D-TABLE", tag + "try:%s-failure-leaves" % short(callee), okp, detail, nh.where)
    for callee, variant in want.items():
        ctx.floor("D-TABLE", tag + "None-handlers on %s in dispatch_method_call_try" % short(callee), seen.get(callee, 0), 1)


def check_table_to_iface(ctx, f, tag):
    body = ctx.one([b for b in coroutines_of(f, TO_IFACE, "zbus") if b.id == TO_IFACE + "::{closure#0}" or b.d.get("parent") == TO_IFACE],
                   tag + "coroutine of dispatch_call_to_iface")
    calls = mir.calls(body)
    c_call = [c for c in calls if c.declared == L.IFACE_TRAIT + "::call"]
    c_mut = [c for c in calls if c.declared == L.IFACE_TRAIT + "::call_mut"]
    ctx.ob("D-TABLE", tag + "iface:single-call-site", len(c_call) == 1 and len(c_mut) == 1,
           "%d call site(s) of Interface::call, %d of Interface::call_mut" % (len(c_call), len(c_mut)), body.where)
    if len(c_call) != 1 or len(c_mut) != 1:
        return
    c_call, c_mut = c_call[0], c_mut[0]
    um = {b for b, v, rv, ln in L.adt_aggs(body, L.FDO_ERROR) if v == "UnknownMethod"}
    ctx.floor("D-TABLE", tag + "UnknownMethod constructions in dispatch_call_to_iface", len(um), 1)
    # every UnknownMethod built is returned as Err
    for b, v, rv, ln in L.adt_aggs(body, L.FDO_ERROR):
        if v != "UnknownMethod":
            continue
        dst = [pl for bb, i, pl, r, l in mir.assignments(body) if r is rv]
        der = mir.derives(body, {dst[0][0]}, through_calls=False) if dst else set()
        ret_err = False
        for bb, i, pl, r, l in mir.assignments(body):
            if pl[0] == mir.RET and not pl[1] and r[0] == "agg" and r[2] == "core::result::Result" and r[3] == "Err" \
                    and any(x in der for op in r[4] for x in mir.operand_locals(op)):
                ret_err = True
        ctx.ob("D-TABLE", tag + "iface:UnknownMethod-returned-as-Err", ret_err,
               "the UnknownMethod value is %s" % ("returned as Err" if ret_err else "not what the function returns"),
               "%s:%d" % (body.file, ln))
    sw = {}
    for sb, pl, adt, arms, oth in mir.discr_switches(body, f, L.DISPATCH_RESULT):
        src = L.value_source(f, body, ["c", [pl[0], []]])
        if src is c_call:
            sw["call"] = (sb, pl, arms, oth)
        elif src is c_mut:
            sw["call_mut"] = (sb, pl, arms, oth)
    for k in ("call", "call_mut"):
        ctx.ob("D-TABLE", tag + "iface:switch-on-%s-result" % k, k in sw,
               "the DispatchResult of Interface::%s is matched" % k if k in sw else "no match on the result of Interface::%s" % k,
               (c_call if k == "call" else c_mut).where)
    if len(sw) != 2:
        return

    def awaited_blocks(pl):
        out = set()
        for c in calls:
            if c.is_("into_future") and c.args:
                o = mir.origin(body, c.args[0])
                if o[0] in ("place", "ref") and o[1][0] == pl[0] and any(isinstance(p, list) and p[0] == "as" and p[1] == "Async" for p in o[1][1]):
                    out.add(c.b)
        return out

    def no_return_avoiding(start, avoid):
        if start is None:
            return True
        r = mir.reachable(body, [start], avoid=avoid)
        return not [e for e in mir.exits(body) if e in r]

    for k, (sb, pl, arms, oth) in sw.items():
        site = "%s:%d" % (body.file, mir.term(body, sb)[5])
        tgt = lambda n: arms.get(n, oth)
        aw_b = awaited_blocks(pl)
        # Async: the future is awaited before returning; nothing else is dispatched afterwards
        ok = bool(aw_b) and no_return_avoiding(tgt("Async"), aw_b)
        ctx.ob("D-TABLE", tag + "iface:%s:Async->awaited" % k, ok,
               "Async arm awaits the handler future on every path to return" if ok else "Async arm can return without awaiting the handler future", site)
        if k == "call":
            r = mir.reachable(body, [tgt("Async")])
            ctx.ob("D-TABLE", tag + "iface:call:Async-no-second-dispatch", c_mut.b not in r,
                   "after an Async result of call, call_mut is %sreachable" % ("" if c_mut.b in r else "not "), site)
            ok = no_return_avoiding(tgt("NotFound"), um)
            ctx.ob("D-TABLE", tag + "iface:call:NotFound->UnknownMethod", ok,
                   "NotFound from call: every path to return builds UnknownMethod" if ok else "NotFound from call can return without UnknownMethod", site)
            ok = no_return_avoiding(tgt("RequiresMut"), {c_mut.b})
            ctx.ob("D-TABLE", tag + "iface:call:RequiresMut->call_mut", ok,
                   "RequiresMut: every path to return goes through Interface::call_mut" if ok else "RequiresMut can return without trying call_mut", site)
        else:
            for n in ("NotFound", "RequiresMut"):
                ok = no_return_avoiding(tgt(n), um)
                ctx.ob("D-TABLE", tag + "iface:call_mut:%s->UnknownMethod" % n, ok,
                       "%s from call_mut: every path to return builds UnknownMethod" % n if ok else "%s from call_mut can return without UnknownMethod" % n, site)


def check_err_reply(ctx, f, tag):
    """call sites of the two inner dispatch functions: result returned unchanged, or Err answered once"""
    n = 0
    for root in (DISPATCH_CALL, TRY):
        for b in [x for x in f.children.get(root, []) if x.crate == "zbus"]:
            for c in mir.calls(b):
                if not (c.callee in (TRY, TO_IFACE)):
                    continue
                n += 1
                inner = short(c.callee)
                key = tag + "%s->%s" % (b.root, inner)
                der = mir.derives(b, {c.dest[0]})
                replies = [r for r in mir.calls(b) if L.is_reply(r)]
                sws = [(sb, pl, ok, err) for sb, pl, ok, err in L.result_switches(b, f)
                       if L.value_source(f, b, ["c", [pl[0], []]]) is c]
                rets = [1 for bb, i, pl, rv, ln in mir.assignments(b) if pl[0] == mir.RET and not pl[1]
                        and any(l in der for op in mir.rvalue_operands(rv) for l in mir.operand_locals(op))]
                if not sws and not replies:
                    ctx.ob("D-ERR-REPLY", key + ":result-returned", bool(rets),
                           "the awaited result of %s is what the caller returns" % inner if rets else
                           "the result of %s is neither returned nor answered" % inner, c.where)
                    continue
                ctx.ob("D-ERR-REPLY", key + ":switch", len(sws) == 1,
                       "%d match(es) on the result of %s" % (len(sws), inner), c.where)
                if len(sws) != 1:
                    continue
                sb, pl, okt, errt = sws[0]
                w = L.weights(replies)
                # a call flagged NoReplyExpected is not answered at all: paths over the flag's true edge are
                # counted separately (must carry no reply), all others must carry exactly one
                fts = [(fsb, ftt) for fsb, fc, ftt, fft, hdr_ok in L.flag_tests(f, b) if hdr_ok and ftt is not None]
                r_err = L.count_range(b, errt, w, avoid_edges=fts) if errt is not None else None
                ctx.ob("D-ERR-REPLY", key + ":err-answered-once", r_err == (1, 1),
                       "replies on paths from the Err arm to return%s: %s" % (" (not flagged NoReplyExpected)" if fts else "", r_err,), c.where)
                for fsb, ftt in fts:
                    r_flag = L.count_range(b, ftt, w)
                    ctx.ob("D-ERR-REPLY", key + ":flagged-not-answered", r_flag is None or r_flag[1] == 0,
                           "replies on the NoReplyExpected edge: %s" % (r_flag,), c.where)
                r_ok = L.count_range(b, okt, w) if okt is not None else (0, 0)
                ctx.ob("D-ERR-REPLY", key + ":ok-not-answered", r_ok is None or r_ok[1] == 0,
                       "replies on paths from the Ok arm to return: %s" % (r_ok,), c.where)
                for r in replies:
                    good = r.is_("reply_dbus_error") and len(r.args) > 2 and any(l in der for l in mir.operand_locals(r.args[2])) \
                        and edge_dominates(b, sb, errt, r.b)
                    ctx.ob("D-ERR-REPLY", key + ":answers-with-that-error", good,
                           "%s is sent on the Err arm with the error returned by %s" % (short(r.callee), inner) if good else
                           "%s is not (only) the Err arm's answer carrying the returned error" % short(r.callee), r.where)
    ctx.floor("D-ERR-REPLY", tag + "call sites of dispatch_method_call_try / dispatch_call_to_iface", n, 3)


def check_flag_library(ctx, f, tag):
    cg = callgraph.get(f)
    roots = [DISPATCH_CALL]
    na = [b for b in f.all_bodies("zbus") if b.root == b.id and b.id.endswith(NEW_ASYNC_SUFFIX)]
    ctx.need(na, tag + "DispatchResult::new_async")
    roots += [b.id for b in na]
    ctx.need([f.bodies.get(DISPATCH_CALL)] if f.bodies.get(DISPATCH_CALL) else [], tag + "ObjectServer::dispatch_call")
    reach = cg.reach(roots)
    n = 0
    for b in f.all_bodies("zbus"):
        if b.id not in reach:
            continue
        rb = f.bodies.get(b.root)
        if rb is not None and rb.d.get("impl_trait") == L.IFACE_TRAIT:
            continue  # generated code: G-* rules
        replies = [c for c in mir.calls(b) if L.is_reply(c)]
        if not replies:
            continue
        tests = L.flag_tests(f, b)
        for r in replies:
            n += 1
            ok = any(hdr_ok and edge_dominates(b, sb, ft, r.b) for sb, c, tt, ft, hdr_ok in tests)
            ctx.ob("D-FLAG", tag + "%s->%s" % (b.root, short(r.callee)), ok,
                   "reply is sent only on the false edge of the NoReplyExpected test" if ok else
                   "reply is sent without consulting Flags::NoReplyExpected (a call flagged no-reply is answered)", r.where)
    ctx.floor("D-FLAG", tag + "reply call sites on the library dispatch path", n, 2)


def library(ctx, f, tag):
    check_table_try(ctx, f, tag)
    check_table_to_iface(ctx, f, tag)
    check_err_reply(ctx, f, tag)
    check_flag_library(ctx, f, tag)


# =========================================================================================== generated code
class Agg:
    def __init__(self):
        self.decode_sites = []   # (key, is_invalid_args, detail, where)
        self.early = []          # (key, gated, kind, where)
        self.arms = 0


def error_class(f, body, op):
    """what fdo::Error a replied value is: set of variant names, or None when unknown"""
    o = mir.origin(body, op)
    if o[0] == "rv" and o[1][0] == "agg" and o[1][1] == "adt" and o[1][2] == L.FDO_ERROR:
        return {o[1][3]}, "built in place"
    c = L.value_source(f, body, op)
    if c is None:
        return None, "unknown source"
    conv = f.bodies.get(c.callee)
    if conv is None or conv.d.get("impl_adt") != L.FDO_ERROR or not c.is_("from", "into"):
        return None, "produced by %s" % c.callee
    out = set()
    found = False
    for sb, pl, adt, arms, oth in mir.discr_switches(conv, f, L.ZBUS_ERROR):
        found = True
        t = arms.get("Variant", oth)
        reg = mir.reachable(conv, [t])
        out |= {v for b, v, rv, ln in L.adt_aggs(conv, L.FDO_ERROR, reg)}
    if not found:
        out = {v for b, v, rv, ln in L.adt_aggs(conv, L.FDO_ERROR)}
    return out, "converted by %s, whose arm for zbus::Error::Variant builds %s" % (c.callee, sorted(out))


def check_method_arm(ctx, it, M, agg):
    f = it.f
    calls = mir.calls(M)
    handlers = [c for c in calls if it.is_handler_call(c)]
    replies = [c for c in calls if L.is_reply(c)]
    key = "%s" % (handlers[0].callee if handlers else M.id)
    where = handlers[0].where if handlers else M.where
    agg.arms += 1
    ctx.ob("G-COUNT", key + ":one-handler-call-site", len(handlers) == 1,
           "%d handler call site(s) in the arm" % len(handlers), where)
    if len(handlers) != 1:
        return None
    h = handlers[0]
    recv = mir.origin(M, h.args[0]) if h.args else ("none",)
    ctx.ob("G-ROUTE", key + ":receiver-is-self", recv[0] in ("place", "ref") and recv[1][0] == 1,
           "the handler is invoked on the interface object captured by the arm", where)
    tests = L.flag_tests(f, M)
    ctx.ob("G-FLAG", key + ":flag-test", len(tests) == 1 and tests[0][4],
           "%d NoReplyExpected test(s) on the message's primary header" % len(tests), where)
    if len(tests) != 1:
        return h
    sb, tc, tt, ft, hdr_ok = tests[0]
    result_replies = [r for r in replies if mir.block_dominates(M, h.b, r.b) and r.b != h.b]
    early = [r for r in replies if r not in result_replies]
    ctx.ob("G-COUNT", key + ":result-reply-exists", bool(result_replies),
           "%d reply site(s) after the handler" % len(result_replies), where)
    der = mir.derives(M, {h.dest[0]})
    for r in result_replies:
        ok = edge_dominates(M, sb, ft, r.b)
        ctx.ob("G-FLAG", key + ":%s-under-flag" % short(r.callee), ok,
               "the handler result is replied only on the false edge of the NoReplyExpected test" if ok else
               "the handler result is replied without the NoReplyExpected test deciding it", r.where)
        pay = len(r.args) > 2 and any(l in der for l in mir.operand_locals(r.args[2]))
        ctx.ob("G-PAYLOAD", key + ":%s-carries-handler-result" % short(r.callee), pay,
               "the replied value derives from the handler's return value" if pay else "the replied value does not derive from the handler's return value", r.where)
    for r in replies:
        src = L.value_source(f, M, r.args[1]) if len(r.args) > 1 else None
        okh = src is not None and src.is_("Message::header") and src.args and mir.origin(M, src.args[0])[0] in ("place", "ref") \
            and mir.origin(M, src.args[0])[1][0] == 1
        ctx.ob("G-PAYLOAD", key + ":%s-to-call-header" % short(r.callee), okh,
               "reply is addressed with the header of the dispatched message" if okh else "reply header is not Message::header() of the dispatched message", r.where)
    # ---- counting
    w = L.weights(replies)
    whole = L.count_range(M, 0, w)
    ctx.ob("G-COUNT", key + ":at-most-one-reply", whole is not None and whole[1] <= 1,
           "replies per path (min, max) = %s" % (whole,), where)
    noflag = L.count_range(M, 0, w, avoid_edges={(sb, tt)})
    ctx.ob("G-COUNT", key + ":reply-unless-flag", noflag is not None and noflag[0] >= 1,
           "replies per path avoiding the NoReplyExpected edge (min, max) = %s" % (noflag,), where)
    after = L.count_range(M, tt, w) if tt is not None else None
    ctx.ob("G-COUNT", key + ":no-reply-after-flag", tt is not None and mir.preds(M)[tt] == [sb] and (after is None or after[1] == 0),
           "replies after the NoReplyExpected edge (min, max) = %s" % (after,), where)
    rv = L.ret_variants(M, tt, "core::result::Result") if tt is not None else {"?"}
    ctx.ob("G-FLAG", key + ":no-reply-returns-ok", rv == {"Ok"},
           "on the NoReplyExpected edge the arm returns %s" % sorted(rv), where)
    hw = L.weights(handlers)
    hr = L.count_range(M, 0, hw, avoid_blocks={r.b for r in early})
    ctx.ob("G-COUNT", key + ":handler-exactly-once", hr == (1, 1),
           "handler calls per path not leaving through an early reply (min, max) = %s" % (hr,), where)
    # ---- argument decoding
    deser = [c for c in calls if c.is_("Body::deserialize")]
    decode_replies = set()
    for dc in deser:
        dder = mir.derives(M, {dc.dest[0]})
        sws = [(s, pl, okt, errt) for s, pl, okt, errt in L.result_switches(M, f) if pl[0] == dc.dest[0]]
        ctx.ob("G-DECODE", key + ":decode-result-matched", len(sws) == 1,
               "%d match(es) on the result of Body::deserialize" % len(sws), dc.where)
        if len(sws) != 1:
            continue
        s, pl, okt, errt = sws[0]
        rr = L.count_range(M, errt, w) if errt is not None else None
        ctx.ob("G-DECODE", key + ":decode-failure-replies-once", rr == (1, 1),
               "replies on paths from the decode-failure arm (min, max) = %s" % (rr,), dc.where)
        hh = L.count_range(M, errt, hw) if errt is not None else None
        ctx.ob("G-DECODE", key + ":decode-failure-skips-handler", hh is not None and hh[1] == 0,
               "handler calls on paths from the decode-failure arm (min, max) = %s" % (hh,), dc.where)
        ctx.ob("G-DECODE", key + ":handler-only-after-decode-success", edge_dominates(M, s, okt, h.b),
               "the handler runs only on the decode-success edge", h.where)
        for r in early:
            if errt is not None and mir.block_dominates(M, errt, r.b):
                decode_replies.add(r)
                carries = r.is_("reply_dbus_error") and len(r.args) > 2 and any(l in dder for l in mir.operand_locals(r.args[2]))
                ctx.ob("G-DECODE", key + ":decode-failure-reply-carries-decode-error", carries,
                       "the error replied derives from the decode error" if carries else "the decode-failure reply does not carry the decode error", r.where)
                cls, how = error_class(f, M, r.args[2]) if len(r.args) > 2 else (None, "no error argument")
                agg.decode_sites.append((key, cls == {"InvalidArgs"}, how, r.where))
    if not deser:
        # a handler whose arguments all come from the connection / header / server: nothing to decode
        pass
    for r in early:
        gated = edge_dominates(M, sb, ft, r.b)
        kind = "decode-failure" if r in decode_replies else "other"
        agg.early.append((key, gated, kind, r.where))
        hh = L.count_range(M, r.b, hw)
        ctx.ob("G-COUNT", key + ":early-reply-returns", hh is None or hh[1] == 0,
               "after an early (%s) reply the handler is %s" % (kind, "not run" if hh is None or hh[1] == 0 else "still reachable"), r.where)
    return h


def check_dispatcher(ctx, it, name, agg, used):
    """the sync `call` / `call_mut` string match of one interface; returns (#Async arms, #RequiresMut arms)"""
    f = it.f
    D = it.method(ctx, name)
    arms = L.eq_arms(D)
    ikey = "%s::%s" % (it.key, name)
    fam = {b.id: b for b in L.kids(f, D)}
    n_async = 0
    mut_names, all_names = set(), set()
    for c, tt, ft, nm in arms:
        vs = L.ret_variants(D, tt, L.DISPATCH_RESULT)
        ctx.ob("G-ROUTE", ikey + ":arm-name-readable", nm is not None,
               "the member name matched by an arm is %s" % (repr(nm) if nm else "not in the facts"), c.where)
        if nm is not None:
            ctx.ob("G-ROUTE", "%s:arm(%s):matched-once" % (ikey, nm), nm not in all_names,
                   "member `%s` is matched by one arm" % nm, c.where)
            all_names.add(nm)
        if vs == {"RequiresMut"} and name == "call":
            mut_names.add(nm)
            continue
        region = mir.region(D, tt)
        cors = [fam[i] for i in L.aggs_in(D, region, ("coroutine",)) if i in fam]
        arm_cors = [b for b in cors if any(it.is_handler_call(x) for x in mir.calls(b)) or any(L.is_reply(x) for x in mir.calls(b))]
        hs = [x.callee for b in arm_cors for x in mir.calls(b) if it.is_handler_call(x)]
        akey = "%s:arm(%s)" % (ikey, nm or (hs[0] if hs else "?"))
        ctx.ob("G-ROUTE", akey + ":returns-Async", vs == {"Async"},
               "a matched member returns %s" % sorted(vs), c.where)
        ctx.ob("G-ROUTE", akey + ":boxes-one-handler-coroutine", len(arm_cors) == 1,
               "%d coroutine(s) with handler/reply code built by the arm" % len(arm_cors), c.where)
        n_async += 1
        for M in arm_cors:
            h = check_method_arm(ctx, it, M, agg)
            if h is not None:
                prev = used.get(h.callee)
                ctx.ob("G-ROUTE", "%s:handler-wired-once:%s" % (it.key, h.callee), prev is None,
                       "handler is the target of one arm" if prev is None else "handler is wired to two arms", h.where)
                used[h.callee] = akey
    fts = L.fallthrough_target(D, arms)
    if arms:
        ok = len(fts) == 1 and L.ret_variants(D, fts[0], L.DISPATCH_RESULT) == {"NotFound"}
        ctx.ob("G-ROUTE", ikey + ":unmatched->NotFound", ok,
               "an unmatched member returns %s" % (sorted(L.ret_variants(D, fts[0], L.DISPATCH_RESULT)) if len(fts) == 1 else "? (%d fall-through edges)" % len(fts)), D.where)
    else:
        # no arm at all: the whole body must answer NotFound
        vs = L.ret_variants(D, 0, L.DISPATCH_RESULT)
        ctx.ob("G-ROUTE", ikey + ":unmatched->NotFound", vs == {"NotFound"},
               "interface without %s arms returns %s" % (name, sorted(vs)), D.where)
    return n_async, mut_names, all_names


def generated(ctx, its, full=True):
    agg = Agg()
    n_if = 0
    for it in its:
        if "call" not in it.m or "call_mut" not in it.m:
            ctx.ob("G-ROUTE", it.key + ":has-call-and-call_mut", False, "Interface impl without call/call_mut bodies in the facts", it.where)
            continue
        if not it.is_generated(it.m["call"]):
            ctx.note("hand-written Interface impl %s not analysed" % it.key)
            continue
        n_if += 1
        used = {}
        _, m1, _ = check_dispatcher(ctx, it, "call", agg, used)
        _, _, t2 = check_dispatcher(ctx, it, "call_mut", agg, used)
        ctx.ob("G-ROUTE", it.key + ":RequiresMut-names=call_mut-names", m1 == t2,
               "call answers RequiresMut for %s; call_mut matches %s" % (sorted(map(str, m1)), sorted(map(str, t2))), it.where)
    # K1: Introspectable, ObjectManager, Peer, Properties = 4 impls / 7 method arms; K4 adds MyIface (22 methods) ...
    ctx.floor("G-ROUTE", "generated Interface impls analysed", n_if, 10 if full else 4)
    ctx.floor("G-COUNT", "generated method arms analysed", agg.arms, 29 if full else 7)
    # ---- aggregated instances (one macro template each)
    bad = [d for d in agg.decode_sites if not d[1]]
    ctx.floor("G-ARGS-NAME", "decode-failure replies", len(agg.decode_sites), 3)
    ctx.ob("G-ARGS-NAME", "decode-failure-error-is-InvalidArgs", not bad,
           "all %d decode-failure replies carry fdo::Error::InvalidArgs" % len(agg.decode_sites) if not bad else
           "%d of %d decode-failure replies do not carry fdo::Error::InvalidArgs (e.g. %s: %s)" % (
               len(bad), len(agg.decode_sites), bad[0][0], bad[0][2]),
           bad[0][3] if bad else "-")
    for kind in ("decode-failure", "other"):
        sites = [e for e in agg.early if e[2] == kind]
        ung = [e for e in sites if not e[1]]
        if kind == "decode-failure":
            ctx.floor("G-FLAG-EARLY", "early replies of kind decode-failure", len(sites), 3)
        ctx.ob("G-FLAG-EARLY", "early-reply-gated-by-NoReplyExpected:" + kind, not ung,
               "all %d early (%s) replies are gated by the NoReplyExpected test" % (len(sites), kind) if not ung else
               "%d of %d early (%s) replies are sent without consulting Flags::NoReplyExpected (e.g. arm of %s)" % (
                   len(ung), len(sites), kind, ung[0][0]),
               ung[0][3] if ung else "-")


def run(ctx):
    ctx.explanation = (
        "Static rules over MIR. Library (K1): R-TABLE on dispatch_method_call_try (missing node -> UnknownObject, missing "
        "interface -> UnknownInterface, error edge leaves before dispatch) and dispatch_call_to_iface (NotFound -> "
        "UnknownMethod, RequiresMut -> call_mut, Async -> awaited); R-COUNT on the callers (an Err is answered exactly "
        "once with that error); R-CTRL: replies on the dispatch path are control-dependent on the NoReplyExpected test. "
        "Generated code (every #[interface] expansion in K1 and K4): per method arm, path counting over the SCC DAG of the "
        "arm's coroutine shows <=1 reply per path, >=1 unless the flag edge is taken, none after it, exactly one handler "
        "call; the replied value derives from the handler result; decode failure replies once and skips the handler; "
        "call/call_mut arm tables agree (Async / RequiresMut / NotFound).")
    ctx.not_decided = ("that an arm's member name is the name intended for its handler (macro naming convention); "
                       "interfaces not compiled in the repository; hand-written Interface impls; behaviour of Connection::send.")
    ctx.assumptions.append("Body::deserialize reports failures as zbus::Error::Variant (the arm inspected by G-ARGS-NAME)")
    cfgs = L.generated_configs(ctx)
    L.prefetch(ctx, cfgs + (["K3"] if ctx.tier == "thorough" else []))
    f1 = ctx.facts("K1")
    library(ctx, f1, "")
    if ctx.tier == "thorough":
        library(ctx, ctx.facts("K3"), "K3:")
    # D-START: a call read before the dispatcher subscribed is lost (no handler, no reply)
    from . import C30 as _c30
    _c30.reader_after_start(ctx, f1, "D-START")
    its = L.interfaces(ctx, cfgs)
    generated(ctx, its, full="K4" in cfgs)
    if "K4" not in cfgs:
        ctx.note("quick tier: generated-code rules ran on the library's own fdo interfaces only (K1); the test "
                 "fixtures (K4) are analysed in the thorough tier or with ZCHECK_K4=1; the fixture crate K6 is part of both tiers")
