"""C29 — Interfaces that disable task spawning handle calls in arrival order (DESIGN §5.C29).

  O-FLAG      `ArcInterface.spawn_tasks_for_methods` is written only by `ArcInterface::new` (and the derived
              Clone), from the result of `Interface::spawn_tasks_for_methods()` of the instance being stored
  O-SPAWN     in `ObjectServer::dispatch_method_call_try` every `Executor::spawn` / `Task::detach` lies behind
              the *true* edge of a test of a bool that is read from `ArcInterface.spawn_tasks_for_methods`
  O-INLINE    on the *false* edge of that test every path to completion passes the inline await of
              `dispatch_call_to_iface`; nothing is spawned there
  O-FRAMES    every frame between the dispatcher loop and the handler awaits the next frame in place:
              dispatcher loop -> `dispatch_call` -> `dispatch_method_call_try` -> `dispatch_call_to_iface` ->
              the `DispatchResult::Async` future of `Interface::call` / `call_mut` (each such call result is the
              operand of an await in the same coroutine; the Async arm completes only through that await);
              none of these frames spawns, except the flag-guarded site
  O-LOOP      the coroutine that awaits `dispatch_call` is the one that awaits `stream.next()` on the
              method-call stream (one message at a time), it spawns nothing, and no await of `next()` is
              reachable from the `dispatch_call` call without completing that await first
  O-ONCE      that loop is spawned only inside the closure handed to `OnceLock::get_or_init` of
              `ConnectionInner.object_server_dispatch_task`
  O-WHO       `dispatch_call`, `dispatch_method_call_try`, `dispatch_call_to_iface` are called only along this chain
  O-REPLY     spawned branch: an `Err` from `dispatch_call_to_iface` reaches completion only through an awaited
              `Connection::reply_dbus_error`; same for the inline path in `dispatch_call`

  O-EXPAND    (fixture crate /verif/fixtures/ifaces, K6) the expansion of
              `#[interface(spawn = false)]` makes `Interface::spawn_tasks_for_methods` return the constant `false`,
              the default expansion returns `true`; the generated `call` / `call_mut` / `get` / `set` code of the
              spawn-less interface spawns or detaches nothing itself; every other generated impl returns a constant

Not decided: ordering among tasks once spawning is enabled, behaviour of the executor; interfaces of user crates
are represented by the fixture crate (every expansion is produced by the same macro code).
"""
from .. import mir, awaits as aw
from .. import lib_cflow as cf

META = {
    "technique": "control dependence on the spawn flag + inline-await chain (R-CTRL / R-WHO) over MIR coroutines",
    "level": "Decides that a task is spawned for a method call only under the interface's spawn flag, that otherwise "
             "the handler future is awaited in place in every frame up to the single dispatcher loop created once by "
             "get_or_init, and that errors on both branches are answered. Does not decide the macro expansion that "
             "sets the flag for user interfaces nor scheduling once tasks are spawned.",
}

OS = "zbus::object_server::ObjectServer"
CONN = "zbus::connection::Connection"
ARCI = "zbus::object_server::interface::ArcInterface"
IFACE = "zbus::object_server::interface::Interface"
DRES = "zbus::object_server::interface::dispatch_result::DispatchResult"
RESULT = "core::result::Result"
FLAG = "spawn_tasks_for_methods"


def is_spawn(c):
    return c.is_("Executor::<'a>::spawn", "Executor::<'_>::spawn", "Executor::spawn") and "abstractions::executor" in c.callee


def is_detach(c):
    return c.is_("detach") and "executor::Task" in c.callee


def is_next(c):
    n = c.callee + " " + c.declared
    return c.is_("next") and ("StreamExt" in n or "OrderedStreamExt" in n)


def top_coroutine(ctx, f, fn_id, what):
    ctx.need([f.bodies.get(fn_id)] if f.bodies.get(fn_id) else [], "fn " + fn_id)
    return ctx.one([b for b in cf.fn_coroutines(f, fn_id) if b.d.get("parent") == fn_id], what)


def await_blocks(body, a):
    """blocks of the `into_future` call(s) that start the await `a`"""
    return {c.b for c in mir.calls(body) if c.c["sp"] == a.sp and c.is_("into_future")}


def poll_local(body, a):
    for c in mir.calls(body):
        if c.c["sp"] == a.sp and c.declared.endswith("future::Future::poll"):
            return c.dest[0]
    return None


def awaited_inline(ctx, f, rule, key, body, calls, where_name):
    """every call in `calls` is the future of an await in `body`; returns the awaits"""
    aws = aw.awaits(f, body)
    out = []
    for c in calls:
        a = [x for x in aws if x.call is not None and x.call.b == c.b]
        ctx.ob(rule, key, bool(a), "%s is awaited in place" % where_name if a else
               "%s is called but its future is not awaited in this frame" % where_name, c.where)
        out += a
    return out


def check_reply(ctx, f, body, tag, what):
    """Err result of the awaited `what` leads to completion only through an awaited reply_dbus_error."""
    aws = aw.awaits(f, body)
    src = [a for a in aws if a.call is not None and a.call.is_(what)]
    ctx.floor("O-REPLY", tag + "awaits of %s" % what, len(src), 1)
    replies = [a for a in aws if a.call is not None and a.call.is_("Connection::reply_dbus_error")]
    rb = set()
    for a in replies:
        rb |= await_blocks(body, a)
    for a in src:
        pl = poll_local(body, a)
        D = mir.derives(body, {pl}, through_calls=False) if pl is not None else set()
        RES = {l for l in D if cf.local_type(body, l).lstrip("&").startswith("core::result::Result<(), zbus::fdo::error::Error>")}
        err_e, nonerr_e, mixed = cf.variant_edges(body, f, RES, RESULT, "Err")
        y, n = cf.call_test_edges(body, RES, ("Result::<T, E>::is_err",), ("Result::<T, E>::is_ok",))
        err_e += y
        ctx.ob("O-REPLY", tag + "error-edge-found", bool(err_e) and not mixed,
               "the result of %s is tested for Err" % what if err_e else "the result of %s is never tested for Err" % what, a.where)
        # a call flagged NoReplyExpected must not be answered: completing over the true edge of the flag test
        # without a reply is the correct behaviour, so those edges are not a leak
        from .. import lib_iface as _li
        flag_true = [(fsb, ftt) for fsb, fc, ftt, fft, hdr_ok in _li.flag_tests(f, body) if hdr_ok and ftt is not None]
        for e in err_e:
            r = cf.reach_e(body, [e[1]], avoid_blocks=rb, avoid_edges=flag_true)
            leak = r & set(mir.exits(body))
            ctx.ob("O-REPLY", tag + "error-is-answered", bool(rb) and not leak,
                   "an Err from %s completes only through an awaited reply_dbus_error" % what if rb and not leak else
                   "an Err from %s can complete without reply_dbus_error" % what, a.where)


def run(ctx):
    ctx.explanation = (
        "MIR rules over zbus (K1): the per-call Executor::spawn in dispatch_method_call_try is edge-dominated by the true edge of "
        "a test of ArcInterface.spawn_tasks_for_methods, which only ArcInterface::new sets from Interface::spawn_tasks_for_methods(); "
        "on the false edge completion requires the inline await of dispatch_call_to_iface; each frame dispatcher loop -> "
        "dispatch_call -> dispatch_method_call_try -> dispatch_call_to_iface -> handler future awaits the next in place and spawns "
        "nothing; the loop coroutine is spawned only inside get_or_init(object_server_dispatch_task); the chain's functions have "
        "no other callers; Err results are answered through reply_dbus_error on both branches.")
    ctx.not_decided = ("ordering among spawned tasks; fairness of the executor and of the interface RwLock; expansions of "
                       "`spawn = false` are inspected on the fixture crate of K6, not on user crates.")
    f = ctx.facts("K1")
    cf.check_ext_enums(ctx, f, [RESULT, "core::option::Option"])

    # ---------------------------------------------------------------- O-FLAG
    adt = f.adts.get(ARCI)
    ctx.need([adt] if adt else [], "ADT ArcInterface")
    ctx.need([x for x in adt["variants"][0]["fields"] if x[0] == FLAG and x[1] == "bool"], "field ArcInterface." + FLAG)
    writers = []
    for b in f.all_bodies("zbus"):
        for bi, i, pl, rv, ln in mir.assignments(b):
            w = rv[0] == "agg" and rv[1] == "adt" and rv[2] == ARCI
            for p in pl[1]:
                if isinstance(p, list) and p[0] == "." and p[2] == FLAG and p[3] == ARCI:
                    w = True
            if w:
                writers.append((b, rv, ln))
    ctx.floor("O-FLAG", "writers of ArcInterface.spawn_tasks_for_methods", len(writers), 1)
    for b, rv, ln in writers:
        where = "%s:%d" % (b.file, ln)
        is_new = b.root == ARCI + "::new"
        is_clone = b.root == "<%s as core::clone::Clone>::clone" % ARCI and "Clone" in (b.d.get("macro") or "")
        ctx.ob("O-FLAG", "writer:" + b.root, is_new or is_clone,
               "constructor" if is_new else "derived Clone" if is_clone else "unexpected writer of the spawn flag", where)
        if is_new and rv[0] == "agg":
            op = rv[4][rv[5].index(FLAG)]
            o = mir.origin(b, op)
            if o[0] == "place":
                d = mir.single_def(b, o[1][0])
                if d and d[0] == "call":
                    o = ("call", d[1])
            ok = o[0] == "call" and o[1].declared == IFACE + "::" + FLAG
            inst_ok = False
            if ok:
                # the queried instance is the one stored
                ro = mir.origin(b, o[1].args[0])
                src = ro[1][0] if ro[0] in ("ref", "place") else None
                iop = rv[4][rv[5].index("instance")]
                inst_ok = src is not None and \
                    bool(set(mir.operand_locals(iop)) & mir.derives(b, {src}, through_calls=True))
            ctx.ob("O-FLAG", "flag-from-interface", ok and inst_ok,
                   "flag = <stored instance>.spawn_tasks_for_methods()" if ok and inst_ok else
                   "flag does not come from Interface::spawn_tasks_for_methods() of the stored instance (origin %s)" % (o[0],), where)

    # ---------------------------------------------------------------- O-SPAWN / O-INLINE
    DM = top_coroutine(ctx, f, OS + "::dispatch_method_call_try", "coroutine of dispatch_method_call_try")
    seeds = set()
    for bi, i, pl, rv, ln in mir.assignments(DM):
        for op in mir.rvalue_operands(rv):
            p = mir.op_place(op)
            if p and any(isinstance(x, list) and x[0] == "." and x[2] == FLAG and x[3] == ARCI for x in p[1]) and not pl[1]:
                seeds.add(pl[0])
    ctx.need(sorted(seeds), "read of ArcInterface.spawn_tasks_for_methods in dispatch_method_call_try")
    Dflag = {l for l in mir.derives(DM, seeds, through_calls=False) if cf.local_type(DM, l) == "bool"}
    tests = []
    for sb, t in mir.switches(DM):
        if t[2] != "bool":
            continue
        op = t[1]
        neg = False
        o = mir.origin(DM, op)
        if o[0] == "rv" and o[1][0] == "un" and o[1][1] == "Not":
            neg = True
            op = o[1][2]
        l = mir.root_local(DM, op) if op[0] != "k" else None
        if l is None or l not in Dflag:
            # a copy temp of the flag
            l2 = mir.op_local(op) if op[0] != "k" else None
            if l2 is None or l2 not in Dflag:
                continue
        tt, ft = mir.bool_switch_edges(t)
        if neg:
            tt, ft = ft, tt
        tests.append((sb, tt, ft, t[5]))
    ctx.floor("O-SPAWN", "tests of the spawn flag in dispatch_method_call_try", len(tests), 1)
    true_edges = [(sb, tt) for sb, tt, ft, ln in tests]
    spawns = [c for c in mir.calls(DM) if is_spawn(c)]
    detaches = [c for c in mir.calls(DM) if is_detach(c)]
    ctx.floor("O-SPAWN", "Executor::spawn calls in dispatch_method_call_try", len(spawns), 1)
    for c in spawns + detaches:
        ok = bool(true_edges) and cf.edges_dominate(DM, true_edges, c.b)
        ctx.ob("O-SPAWN", "spawn-only-under-flag:" + c.callee.split("::")[-1], ok,
               "reached only through the true edge of the spawn-flag test" if ok else
               "a task is spawned on a path that did not take the true edge of the spawn-flag test", c.where)
    aws = aw.awaits(f, DM)
    inl = [a for a in aws if a.call is not None and a.call.is_("ObjectServer::dispatch_call_to_iface")]
    ctx.floor("O-INLINE", "inline awaits of dispatch_call_to_iface in dispatch_method_call_try", len(inl), 1)
    ib = set()
    for a in inl:
        ib |= await_blocks(DM, a)
    for sb, tt, ft, ln in tests:
        r = cf.reach_e(DM, [ft], avoid_blocks=ib)
        leak = r & set(mir.exits(DM))
        sp = [c for c in spawns + detaches if c.b in cf.reach_e(DM, [ft], avoid_edges=true_edges)]
        ctx.ob("O-INLINE", "no-spawn-edge-awaits-handler", bool(ib) and not leak and not sp,
               "with the flag off, completion requires the inline await of dispatch_call_to_iface" if ib and not leak and not sp else
               "with the flag off the call can complete without awaiting the handler in place%s" % (" (spawns)" if sp else ""),
               "%s:%d" % (DM.file, ln))

    # ---------------------------------------------------------------- O-FRAMES
    disp = [g for g in cf.fn_coroutines(f, CONN + "::start_object_server") if mir.calls_to(g, "ObjectServer::dispatch_call")]
    ctx.need(disp, "dispatcher coroutine (calls ObjectServer::dispatch_call)")
    loops = [g for g in disp if any(a.call is not None and is_next(a.call) for a in aw.awaits(f, g))]
    for g in disp:
        if g not in loops:
            ctx.ob("O-FRAMES", "dispatch_call-only-from-the-stream-loop:" + g.id, False,
                   "ObjectServer::dispatch_call is also issued from a coroutine that does not pull the method-call stream "
                   "(a handed-off / detached task): calls can then be handled concurrently and out of arrival order", g.where)
    D = ctx.one(loops, "dispatcher loop coroutine (awaits stream.next() and calls ObjectServer::dispatch_call)")
    DC = cf.real_coroutine(ctx, f, OS + "::dispatch_call", lambda b: bool(mir.calls_to(b, "ObjectServer::dispatch_method_call_try")),
                           "coroutine of dispatch_call that calls dispatch_method_call_try")
    DI = top_coroutine(ctx, f, OS + "::dispatch_call_to_iface", "coroutine of dispatch_call_to_iface")
    a1 = awaited_inline(ctx, f, "O-FRAMES", "loop-awaits-dispatch_call", D, mir.calls_to(D, "ObjectServer::dispatch_call"), "dispatch_call")
    awaited_inline(ctx, f, "O-FRAMES", "dispatch_call-awaits-try", DC, mir.calls_to(DC, "ObjectServer::dispatch_method_call_try"),
                   "dispatch_method_call_try")
    awaited_inline(ctx, f, "O-FRAMES", "try-awaits-dispatch_call_to_iface", DM, mir.calls_to(DM, "ObjectServer::dispatch_call_to_iface"),
                   "dispatch_call_to_iface")
    # instrumented wrappers of dispatch_call: every coroutine of its family awaits its inner body in place
    for g in cf.fn_coroutines(f, OS + "::dispatch_call"):
        inner = [rv[2] for b, i, pl, rv, ln in mir.assignments(g) if rv[0] == "agg" and rv[1] == "coroutine"]
        if inner:
            n_aw = len([a for a in aw.awaits(f, g) if a.origin and a.origin[0] == "rv" or (a.call is not None and a.call.is_("instrument"))])
            ctx.ob("O-FRAMES", "wrapper-awaits-body:" + g.id, n_aw >= 1 and not [c for c in mir.calls(g) if is_spawn(c)],
                   "the #[instrument] wrapper awaits the wrapped body in place", g.where)
    for g, nm in ((D, "dispatcher loop"), (DC, "dispatch_call"), (DI, "dispatch_call_to_iface")):
        for fam in [g] + cf.nested_coroutines(f, g):
            sp = [c for c in mir.calls(fam) if is_spawn(c)]
            ctx.ob("O-FRAMES", "no-spawn-in:" + fam.id, not sp, "%s spawns no task" % nm if not sp else
                   "%s spawns a task" % nm, sp[0].where if sp else fam.where)
    # handler future
    hcalls = [c for c in mir.calls(DI) if c.declared in (IFACE + "::call", IFACE + "::call_mut")]
    ctx.floor("O-FRAMES", "Interface::call / call_mut sites in dispatch_call_to_iface", len(hcalls), 2)
    aws_i = aw.awaits(f, DI)
    for c in hcalls:
        mine = [a for a in aws_i if a.call is None and a.origin and a.origin[0] in ("place", "ref") and a.origin[1][0] == c.dest[0]
                and any(isinstance(p, list) and p[0] == "as" and p[1] == "Async" for p in a.origin[1][1])]
        hb = set()
        for a in mine:
            hb |= await_blocks(DI, a)
        yes, no, mixed = cf.variant_edges(DI, f, {c.dest[0]}, DRES, "Async", only_deref=False)
        ctx.ob("O-FRAMES", "handler-async-arm:" + c.declared.split("::")[-1], bool(yes) and not mixed and bool(hb),
               "the Async arm of %s is matched and its future awaited" % c.declared.split("::")[-1] if yes and hb else
               "no awaited Async arm for the result of %s" % c.declared.split("::")[-1], c.where)
        for e in yes:
            r = cf.reach_e(DI, [e[1]], avoid_blocks=hb)
            leak = r & set(mir.exits(DI))
            ctx.ob("O-FRAMES", "handler-awaited-in-place:" + c.declared.split("::")[-1], not leak,
                   "the Async arm completes only through awaiting the handler future" if not leak else
                   "the Async arm can complete without awaiting the handler future", c.where)

    # ---------------------------------------------------------------- O-LOOP
    aws_d = aw.awaits(f, D)
    nexts = [a for a in aws_d if a.call is not None and is_next(a.call) and
             "async_broadcast::Receiver" in ((a.call.c.get("argtys") or [""])[0])]
    ctx.floor("O-LOOP", "stream.next() awaits in the dispatcher coroutine", len(nexts), 1)
    nb = set()
    for a in nexts:
        nb |= await_blocks(D, a)
    for a in a1:
        done = set()
        pl = poll_local(D, a)
        # blocks where the dispatch_call future has completed: Ready edge of its poll switch
        ready_e, pend_e, _ = cf.variant_edges(D, f, {pl}, "core::task::poll::Poll", "Ready", only_deref=False) if pl is not None else ([], [], [])
        r = cf.reach_e(D, [a.call.b], avoid_edges=ready_e)
        early = r & nb
        ctx.ob("O-LOOP", "next-message-only-after-dispatch-completes", bool(ready_e) and not early,
               "the next stream.next() is reachable only after the dispatch_call future returned Ready" if ready_e and not early else
               "stream.next() is reachable while dispatch_call is still pending", a.where)
    dom = all(any(mir.block_dominates(D, x, a.call.b) for x in nb) for a in a1) if a1 else False
    ctx.ob("O-LOOP", "dispatch-inside-the-stream-loop", dom,
           "dispatch_call is issued from the coroutine that pulls messages with stream.next()" if dom else
           "dispatch_call is not dominated by a stream.next() await of the same coroutine", D.where)

    # ---------------------------------------------------------------- O-ONCE
    site = None
    for b in f.family(f.bodies[CONN + "::start_object_server"]):
        for c in mir.calls(b):
            if is_spawn(c):
                found, missing = cf.bodies_in_type(f, (c.c.get("argtys") or ["", ""])[1])
                if D in found:
                    site = (b, c)
    ctx.need([site] if site else [], "spawn site of the dispatcher loop")
    sb_, sc = site
    in_closure = sb_.kind in ("Closure", "closure")
    goi = []
    root = f.bodies[CONN + "::start_object_server"]
    for c in mir.calls(root):
        if c.is_("get_or_init") and "OnceLock" in c.callee:
            o = mir.origin(root, c.args[0])
            fl = mir.place_fields(o[1]) if o[0] in ("ref", "place") else []
            co = mir.origin(root, c.args[1]) if len(c.args) > 1 else None
            cid = co[1][2] if co and co[0] == "rv" and co[1][0] == "agg" and co[1][1] == "closure" else None
            if "object_server_dispatch_task" in fl and cid == sb_.id:
                goi.append(c)
    ctx.ob("O-ONCE", "loop-spawned-under-get_or_init", in_closure and len(goi) >= 1,
           "the dispatcher loop is spawned by the initialiser of OnceLock object_server_dispatch_task" if in_closure and goi else
           "the dispatcher loop is spawned outside get_or_init(object_server_dispatch_task)", sc.where)
    others = [c for b in f.all_bodies("zbus") for c in mir.calls(b) if is_spawn(c) and b.root != root.id and
              D in cf.bodies_in_type(f, (c.c.get("argtys") or ["", ""])[1])[0]]
    ctx.ob("O-ONCE", "single-spawn-site", not others, "one spawn site for the dispatcher loop", sc.where)

    # ---------------------------------------------------------------- O-WHO
    allowed = {
        "dispatch_call": {CONN + "::start_object_server": "the dispatcher loop"},
        "dispatch_method_call_try": {OS + "::dispatch_call": "single caller"},
        "dispatch_call_to_iface": {OS + "::dispatch_method_call_try": "inline path and the flag-guarded spawned task"},
    }
    n = 0
    for b in f.all_bodies("zbus"):
        for c in mir.calls(b):
            for name, ok_roots in allowed.items():
                if c.callee == OS + "::" + name:
                    n += 1
                    ctx.ob("O-WHO", "caller:%s->%s" % (b.root, name), b.root in ok_roots,
                           ok_roots.get(b.root, "unexpected caller of ObjectServer::%s" % name), c.where)
    ctx.floor("O-WHO", "call sites along the dispatch chain", n, 4)

    # ---------------------------------------------------------------- O-REPLY
    spawned = []
    for c in spawns:
        found, missing = cf.bodies_in_type(f, (c.c.get("argtys") or ["", ""])[1])
        spawned += [x for x in found if x.kind == "coroutine"]
    ctx.floor("O-REPLY", "spawned handler coroutines", len(spawned), 1)
    for sp in spawned:
        check_reply(ctx, f, sp, "spawned:", "ObjectServer::dispatch_call_to_iface")
    check_reply(ctx, f, DC, "inline:", "ObjectServer::dispatch_method_call_try")

    # ---------------------------------------------------------------- O-EXPAND
    expand(ctx)


# declared `spawn` attribute of the fixture interfaces (fixtures/ifaces/src/lib.rs)
FIXTURE_SPAWN = {"zverif_ifaces::Ordered": False, "zverif_ifaces::Spawning": True}


def returned_consts(body):
    """constants the body can return (None when some returned value is not a constant)"""
    out = set()
    for bi, i, pl, rv, ln in mir.assignments(body):
        if pl[0] != 0 or pl[1]:
            continue
        k = mir.resolve_const(body, rv[1]) if rv[0] == "use" else None
        if k is None or "v" not in k:
            return None
        out.add(k["v"])
    return out


def expand(ctx):
    from .. import lib_iface as LI
    cfgs = LI.generated_configs(ctx)
    if "K6" not in cfgs:
        ctx.note("ZCHECK_K6=0: the `spawn = false` expansion (O-EXPAND, fixture crate K6) was not analysed")
        return
    its = LI.interfaces(ctx, cfgs)
    seen = {}
    for it in its:
        if "spawn_tasks_for_methods" not in it.m:
            ctx.ob("O-EXPAND", "flag-fn-present:" + it.key, False, "Interface impl without spawn_tasks_for_methods body "
                   "(default trait method?)", it.where)
            continue
        b = it.m["spawn_tasks_for_methods"]
        ks = returned_consts(b)
        ok = ks is not None and len(ks) == 1 and all(isinstance(k, bool) or k in (0, 1) for k in ks)
        val = bool(list(ks)[0]) if ok else None
        seen[it.key] = val
        want = FIXTURE_SPAWN.get(it.key)
        if want is None:
            ctx.ob("O-EXPAND", "flag-is-constant:" + it.key, ok,
                   "spawn_tasks_for_methods() returns the constant %s" % val if ok else
                   "spawn_tasks_for_methods() does not return one constant (%s)" % (ks,), b.where)
        else:
            ctx.ob("O-EXPAND", "flag-matches-attribute:" + it.key, ok and val == want,
                   "declared spawn = %s, spawn_tasks_for_methods() returns %s" % (str(want).lower(), val) if ok and val == want else
                   "declared spawn = %s but spawn_tasks_for_methods() returns %s" % (str(want).lower(), ks), b.where)
        if want is False:
            n = 0
            for nm in ("call", "call_mut", "get", "get_all", "set", "set_mut"):
                mb = it.m.get(nm)
                if mb is None:
                    continue
                for g in LI.family(it.f, mb):
                    n += 1
                    sp = [c for c in mir.calls(g) if is_spawn(c) or is_detach(c)]
                    ctx.ob("O-EXPAND", "generated-code-spawns-nothing:%s:%s" % (it.key, g.id.split("::", 1)[-1]), not sp,
                           "no Executor::spawn / Task::detach" if not sp else "generated code spawns a task", sp[0].where if sp else g.where)
            ctx.floor("O-EXPAND", "generated bodies of %s inspected" % it.key, n, 6)
    for k in FIXTURE_SPAWN:
        ctx.need([k] if k in seen else [], "fixture interface " + k, "O-EXPAND")
