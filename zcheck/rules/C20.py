"""C20 — Message streams deliver every matching message once, in order (DESIGN §5.C20).

Rules (MIR of zbus, configuration K1):
  F-READER   one reader: ReadHalf::receive_message is called only by SocketReader::read_socket (+ the Box
             forwarding impl and the pre-connection Hello read of the client handshake); read_socket only by
             receive_msg; receive_msg only by SocketReader::spawn; SocketReader::new/spawn only by
             Connection::init_socket_reader, whose task goes into the set-once `socket_reader_task` cell;
             init_socket_reader only by the connection builder
  F-FANOUT   in the reader loop: the value broadcast is (a clone of) the message just read; the sender comes
             from iterating the locked `senders` map; the broadcast future is awaited (back-pressure, so the
             next read happens after every queue accepted the message: arrival order); a sender is skipped
             only over the `Ok(false)` / `Err` edges of `rule.matches(msg)`; after a broadcast the loop
             leaves only through the iterator's None arm (no early break / return / re-read)
  F-OVERFLOW no call of `set_overflow` / `try_broadcast` on the async-broadcast channel anywhere in zbus
  F-STREAM   MessageStream::poll_next returns what Receiver::poll_next of its own msg_receiver returned
  F-PAIR     subscription counting: add_match inserts (1, receiver) on the Vacant edge together with the
             matching sender into msg_senders and returns that channel's receiver; on the Occupied edge it
             adds exactly 1 to the stored count and returns activate_cloned() of the stored receiver;
             remove_match subtracts exactly 1 on the Occupied edge, tests the stored count against 0 after
             the decrement and removes the entry and its sender only on the zero edge; Vacant returns
             Ok(false); the `subscriptions` / `msg_senders` fields are touched only by the confirmed set
  S-CTOR     every construction of message_stream::Inner with a rule is paired with add_match of that rule
             (lib_subs.check_stream_pairing) — includes the derived Clone
  S-DROP     every drop path take()s the rule and hands it to remove_match; the queued removal is detached

Dropped: nothing of §5.C20; "one reader task" is decided as the call chain above plus the set-once cell, not
as a runtime count.
"""
from .. import mir
from .. import lib_subs as L

META = {
    "technique": "who-may-call chain, loop-shape dominance and held-await facts of the reader fan-out; count pairing in add/remove_match",
    "level": "Static necessary conditions: single reader chain, every sender of the locked map is offered every read message "
             "through an awaited broadcast unless its rule says no, no overflow mode, and the subscription count is +1/-1 with "
             "removal only at zero and constructor/drop pairing of streams. Scheduling, async-broadcast internals and "
             "MatchRule::matches (C21) are not decided.",
}

OPTION = "core::option::Option"
RESULT = "core::result::Result"
ENTRY = "std::collections::hash::map::Entry"
SR = "zbus::connection::socket_reader::SocketReader"
READHALF = "zbus::connection::socket::ReadHalf"


def run(ctx):
    ctx.explanation = ("R-WHO on the reader call chain; loop shape of SocketReader::receive_msg (awaited broadcast of the read message to "
                       "every sender of the locked map, skips only on rule mismatch); no overflow mode on the channels; R-PAIR on the "
                       "subscription count in add_match/remove_match; constructor<->drop pairing of message_stream::Inner.")
    ctx.not_decided = "task scheduling, async-broadcast's queue semantics, MatchRule::matches itself (C21), consumers that stop polling."
    f = ctx.facts("K1")
    rule_reader(ctx, f)
    rule_fanout(ctx, f)
    rule_overflow(ctx, f)
    rule_stream(ctx, f)
    rule_pair(ctx, f)
    rule_noshrink(ctx, f)
    L.check_stream_pairing(ctx, f)


def rule_noshrink(ctx, f):
    """F-NOSHRINK (added after seeded change C20): streams with equal rules share one broadcast queue, and shrinking an
    async_broadcast queue discards its oldest entries. Every `set_capacity` on a message channel must therefore sit on
    the edge where the requested size is greater than the current `capacity()` of that same channel."""
    n = 0
    for b in f.all_bodies("zbus"):
        for c in mir.calls(b):
            if not (c.is_("set_capacity") and "async_broadcast" in c.callee):
                continue
            n += 1
            recv = mir.origin(b, c.args[0])
            rl = recv[1][0] if recv[0] in ("place", "ref") else mir.root_local(b, c.args[0])
            newv = mir.root_local(b, c.args[1]) if len(c.args) > 1 else None
            ok = False
            for sb, op, l, r, tt, ft, ln in mir.cmp_switches(b):
                def is_cap(x):
                    o = mir.origin(b, x)
                    wrapper = False
                    if o[0] == "call" and o[1].callee in f.bodies:
                        wb = f.bodies[o[1].callee]
                        wrapper = any(y.is_("capacity") and "async_broadcast" in y.callee for y in mir.calls(wb)) and len(mir.calls(wb)) <= 3
                    if o[0] == "call" and (o[1].is_("capacity") or wrapper) and o[1].args:
                        ro = mir.origin(b, o[1].args[0])
                        return (ro[1][0] if ro[0] in ("place", "ref") else mir.root_local(b, o[1].args[0])) == rl
                    return False
                edge = None
                if mir.root_local(b, l) == newv and is_cap(r):
                    edge = {"Gt": tt, "Le": ft}.get(op)
                elif mir.root_local(b, r) == newv and is_cap(l):
                    edge = {"Lt": tt, "Ge": ft}.get(op)
                if edge is not None and mir.block_dominates(b, edge, c.b):
                    ok = True
            # a freshly created channel (receiver produced by `broadcast(..)` in this body) may be sized freely
            fresh = False
            if recv[0] in ("place", "ref"):
                d = mir.defs_of(b, rl)
                for x in d:
                    if x[0] == "call" and x[1].is_("broadcast"):
                        fresh = True
            explicit = {"zbus::connection::Connection::set_max_queued":
                        "explicit user request on the connection's own unfiltered queue (`&mut self`, documented as setting the capacity)"}
            if b.root in explicit and not ok:
                ok = True
                ctx.note("F-NOSHRINK: %s exempt: %s" % (b.root, explicit[b.root]))
            ctx.ob("F-NOSHRINK", "%s:set_capacity-only-grows" % b.root, ok or fresh,
                   "set_capacity is reached only when the new size exceeds capacity() of the same channel" if ok else
                   ("channel created in this function" if fresh else
                    "set_capacity can shrink a queue that other streams of the same rule are reading: their oldest unread messages are discarded"),
                   c.where)
    ctx.extra["set_capacity_sites"] = n


# ------------------------------------------------------------------------------------------ single reader
def rule_reader(ctx, f):
    def is_recv(c):
        return c.declared == READHALF + "::receive_message" or (c.is_("receive_message") and "as %s>" % READHALF in c.fnargs)
    allowed = {
        SR + "::read_socket": "the reader task's single read site",
        "<alloc::boxed::Box<(dyn zbus::connection::socket::ReadHalf + 'static)> as zbus::connection::socket::ReadHalf>::receive_message": "Box forwarding",
        "zbus::connection::handshake::client::receive_hello_response": "Hello reply, read during the handshake before the reader exists",
    }
    n = 0
    for b in f.all_bodies("zbus"):
        for c in mir.calls(b):
            if is_recv(c):
                n += 1
                ctx.ob("F-READER", "receive_message-caller:" + b.root, b.root in allowed,
                       allowed.get(b.root, "unexpected reader of the connection's socket"), c.where)
    ctx.floor("F-READER", "call sites of ReadHalf::receive_message", n, 2)
    chain = [
        (SR + "::read_socket", {SR + "::receive_msg"}),
        (SR + "::receive_msg", {SR + "::spawn"}),
        (SR + "::spawn", {L.CONN + "::init_socket_reader"}),
        (SR + "::new", {L.CONN + "::init_socket_reader"}),
        (L.CONN + "::init_socket_reader", {"zbus::connection::builder::Builder::<'a>::build_"}),
    ]
    for callee, who in chain:
        ctx.need([1] if callee in f.bodies else [], callee, "F-READER")
        sites = [(b, c) for b in f.all_bodies("zbus") for c in mir.calls(b) if c.callee == callee or c.declared == callee]
        ctx.floor("F-READER", "callers of " + callee, len(sites), 1)
        for b, c in sites:
            ctx.ob("F-READER", "caller:%s<-%s" % (callee, b.root), b.root in who,
                   "called from %s" % b.root if b.root in who else "unexpected caller of %s" % callee, c.where)
        for b in f.all_bodies("zbus"):
            for bi, i, pl, rv, ln in mir.assignments(b):
                for op in mir.rvalue_operands(rv):
                    k = mir.op_const(op)
                    if k and k.get("fn") == callee:
                        ctx.ob("F-READER", "fn-value:%s<-%s" % (callee, b.root), False, "%s used as a function value" % callee, L.wh(b, ln))
    # the spawned task is stored in the set-once cell
    isr = ctx.one(f.find(name="init_socket_reader", adt=L.CONN, trait=""), "Connection::init_socket_reader", "F-READER")
    sp = mir.calls_to(isr, SR + "::spawn")
    sets = [c for c in mir.calls(isr) if c.is_("set") and "OnceLock" in c.callee]
    ok = False
    for c in sets:
        cell = L._arg_is_field(isr, c.args[0], "socket_reader_task")
        val = any(L.op_in(c.args[1], mir.derives(isr, {s.dest[0]}, through_calls=False)) for s in sp)
        ok = ok or (cell and val)
    ctx.ob("F-READER", "task-in-set-once-cell", ok, "the spawned reader task is stored with OnceLock::set into socket_reader_task (a second reader cannot be installed)"
           if ok else "the reader task is not stored in the set-once socket_reader_task cell", isr.where)
    touch = L.bodies_touching_field(f, "socket_reader_task", L.INNER)
    okset = {L.CONN + "::init_socket_reader", "<%s as core::fmt::Debug>::fmt" % L.INNER}
    for root, (b, ln) in sorted(touch.items()):
        ctx.ob("F-READER", "socket_reader_task-user:" + root, root in okset, "user of socket_reader_task" if root in okset else "unexpected user of socket_reader_task", L.wh(b, ln))


# ------------------------------------------------------------------------------------------ fan-out loop
def rule_fanout(ctx, f):
    fam = L.family_bodies(f, SR + "::receive_msg")
    ctx.need(fam, "family of SocketReader::receive_msg", "F-FANOUT")

    def is_bcast(c):
        return "async_broadcast::Sender" in c.callee and "broadcast" in c.callee.rsplit("::", 1)[-1]
    bodies = [b for b in fam if any(is_bcast(c) for c in mir.calls(b))]
    rx = ctx.one(bodies, "the body of receive_msg that broadcasts", "F-FANOUT")
    ctx.ob("F-FANOUT", "loop-is-a-coroutine", rx.kind == "coroutine", "fan-out runs inside the async reader body" if rx.kind == "coroutine" else
           "the broadcasting body is not a coroutine (kind %s)" % rx.kind, rx.where)
    awaited = L.awaited_calls(f, rx)
    reads = mir.calls_to(rx, SR + "::read_socket")
    ctx.floor("F-FANOUT", "read_socket calls in the reader loop", len(reads), 1)
    bcs = [c for c in mir.calls(rx) if is_bcast(c)]
    msg_der = mir.derives(rx, {r.dest[0] for r in reads})
    locks = [c for c in mir.calls(rx) if c.is_("lock") and "Mutex" in c.callee and _through_field(rx, c.args[0], "senders", SR)]
    ctx.floor("F-FANOUT", "locks of SocketReader.senders", len(locks), 1)
    map_der = mir.derives(rx, {c.dest[0] for c in locks})
    nexts = [c for c in mir.calls(rx) if c.is_("next") and "Iterator" in c.declared + c.callee and L.op_in(c.args[0], map_der)]
    ctx.floor("F-FANOUT", "iterations over the senders map", len(nexts), 1)
    N = nexts[0] if len(nexts) == 1 else None
    ctx.ob("F-FANOUT", "single-iteration-point", N is not None, "one `next()` drives the loop over the senders map" if N else
           "%d next() calls over the senders map" % len(nexts), rx.where)
    for r in reads:
        ctx.ob("F-FANOUT", "read-awaited", r.b in awaited, "read_socket().await" if r.b in awaited else "read_socket() future is not awaited in place", r.where)
    for c in bcs:
        ctx.ob("F-FANOUT", "broadcast-awaited", c.b in awaited,
               "the broadcast future is awaited: the reader proceeds only when the queue accepted the message (back-pressure, order)" if c.b in awaited else
               "the broadcast future is not awaited (no back-pressure: messages can be dropped or reordered)", c.where)
        ctx.ob("F-FANOUT", "broadcasts-the-read-message", L.op_in(c.args[1], msg_der),
               "the value broadcast derives from the result of read_socket" if L.op_in(c.args[1], msg_der) else
               "the value broadcast is not the message that was read", c.where)
        ctx.ob("F-FANOUT", "sender-from-locked-map", L.op_in(c.args[0], map_der),
               "the sender is an element of the locked senders map" if L.op_in(c.args[0], map_der) else "sender does not come from the senders map", c.where)
    if N is None or not bcs:
        ctx.floor("F-FANOUT", "broadcast calls in the reader loop", len(bcs), 1)
        return
    ctx.floor("F-FANOUT", "broadcast calls in the reader loop", len(bcs), 1)
    bc_blocks = {c.b for c in bcs}
    # iterator arms
    some_t = none_t = None
    for sb, t, place in L.place_switches(rx, N.dest[0]):
        arms = L.discr_arms(rx, f, sb)
        if arms and arms[1] == OPTION and not place[1]:
            some_t = arms[2].get("Some")
            none_t = arms[2].get("None", arms[3])
    ctx.need([some_t] if some_t is not None else [], "Some arm of the senders iteration", "F-FANOUT")
    # skip edges: rule.matches(msg) -> Ok(false) | Err
    ms = [c for c in mir.calls(rx) if c.is_("MatchRule::<'m>::matches", "matches") and "match_rule" in c.callee]
    skip_targets = set()
    for m in ms:
        good_args = len(m.args) == 2 and L.op_in(m.args[1], msg_der) and L.op_in(m.args[0], mir.derives(rx, {N.dest[0]}))
        ctx.ob("F-FANOUT", "matches-this-rule-against-this-message", good_args,
               "matches() is applied to the entry's rule and the message just read" if good_args else
               "matches() is not applied to (this entry's rule, the read message)", m.where)
        for sb, t, place in L.place_switches(rx, m.dest[0]):
            arms = L.discr_arms(rx, f, sb)
            if arms and arms[1] == RESULT:
                e = arms[2].get("Err")
                if e is not None and L.sole_pred(rx, e, sb):
                    skip_targets.add(e)
            elif t[2] == "bool" and any(isinstance(x, list) and x[0] == "as" and x[1] == "Ok" for x in place[1]):
                tt, ft = mir.bool_switch_edges(t)
                if ft is not None and L.sole_pred(rx, ft, sb):
                    skip_targets.add(ft)
    ctx.floor("F-FANOUT", "rule.matches(msg) tests in the loop", len(ms), 1)
    r = mir.reachable(rx, [some_t], avoid=bc_blocks | skip_targets | {N.b})
    leaks = any(N.b in mir.succs(rx)[b] for b in r)
    esc = [b for b in r if mir.term(rx, b)[0] == "ret"] or any(rd.b in r for rd in reads)
    for st in sorted(skip_targets):
        rr = mir.reachable(rx, [st], avoid={N.b})
        back = N.b in mir.reachable(rx, [st]) and not [b for b in rr if mir.term(rx, b)[0] == "ret"] and not any(rd.b in rr for rd in reads) \
            and not (rr & bc_blocks)
        ctx.ob("F-FANOUT", "mismatch-continues-with-next-sender", back,
               "a rule mismatch only moves on to the next sender" if back else
               "a rule mismatch leaves the loop over the senders (or reaches a broadcast): later streams miss the message", L.wh(rx, mir.term(rx, mir.preds(rx)[st][0])[5]))
    ctx.ob("F-FANOUT", "skip-only-on-rule-mismatch", not leaks and not esc,
           "an entry is passed over only through the Ok(false)/Err edges of rule.matches(msg); every other path broadcasts" if not leaks and not esc else
           "a sender can be skipped (or the loop left) without a rule mismatch", N.where)
    # after a broadcast: only the iterator's None arm leaves the loop
    after = mir.reachable(rx, [x for b in bc_blocks for x in mir.succs(rx)[b]], avoid={N.b})
    bad = [b for b in after if mir.term(rx, b)[0] == "ret"] or [rd.b for rd in reads if rd.b in after]
    ctx.ob("F-FANOUT", "no-early-exit-from-fanout", not bad,
           "after a broadcast the next read / return is reachable only through the iterator (all senders are visited)" if not bad else
           "after a broadcast the loop over the senders can be left early (remaining streams miss the message)", bcs[0].where)
    if none_t is not None:
        # the next read is reached from the None arm, not from inside the loop
        ok = any(rd.b in mir.reachable(rx, [none_t], avoid={N.b}) for rd in reads)
        ctx.ob("F-FANOUT", "reads-again-after-fanout", ok, "after the last sender the reader goes back to read_socket" if ok else
               "the reader does not return to read_socket after the fan-out", N.where)


def _through_field(body, op, field, owner=None):
    """operand is (a deref chain of) a borrow of `.field`"""
    seen = 0
    cur = op
    while seen < 8:
        seen += 1
        o = mir.origin(body, cur)
        if o[0] in ("place", "ref") and L.place_has_field(o[1], field, owner):
            return True
        ob = mir.origin_base(body, cur)
        if ob[0] == "call" and ob[1].is_("deref", "deref_mut", "as_ref", "borrow") and ob[1].args:
            cur = ob[1].args[0]
            continue
        if o[0] in ("place", "ref"):
            d = mir.single_def(body, o[1][0])
            if d and d[0] == "assign" and d[4][0] == "ref":
                if L.place_has_field(d[4][2], field, owner):
                    return True
                cur = ["c", [d[4][2][0], []]]
                continue
        return False
    return False


# ------------------------------------------------------------------------------------------ overflow
def rule_overflow(ctx, f):
    n = 0
    bad = ("set_overflow", "try_broadcast")
    for b in f.all_bodies("zbus"):
        for c in mir.calls(b):
            nm = c.callee + " " + c.declared
            if "async_broadcast::" not in nm:
                continue
            n += 1
            if c.is_(*bad):
                ctx.ob("F-OVERFLOW", "%s-in:%s" % (c.callee.rsplit("::", 1)[-1], b.root), False,
                       "lossy channel mode / non-waiting send on the message channel: messages can be dropped", c.where)
    ctx.floor("F-OVERFLOW", "async_broadcast API calls seen in zbus", n, 8)
    lossy = [o[1] for o in ctx.obligations if o[0] == "F-OVERFLOW" and not o[2]]
    ctx.ob("F-OVERFLOW", "no-lossy-mode", not lossy,
           "no set_overflow / try_broadcast call in zbus (%d async_broadcast calls inspected)" % n if not lossy else
           "lossy channel operations present: %s" % lossy, "-")


# ------------------------------------------------------------------------------------------ stream poll
def rule_stream(ctx, f):
    pn = ctx.one(f.find(name="poll_next", adt=L.MS, trait="futures_core::stream::Stream"), "<MessageStream as Stream>::poll_next", "F-STREAM")
    polls = [c for c in mir.calls(pn) if c.is_("poll_next") and "async_broadcast::Receiver" in c.callee]
    ctx.floor("F-STREAM", "Receiver::poll_next calls in MessageStream::poll_next", len(polls), 1)
    for c in polls:
        own = _through_field(pn, c.args[0], "msg_receiver") or _pin_of_field(pn, c.args[0], "msg_receiver")
        rets = [(b, rv) for b, i, pl, rv, ln in mir.assignments(pn) if pl[0] == mir.RET and not pl[1]]
        direct = c.dest[0] == mir.RET and not rets
        if not direct and rets:
            direct = all(rv[0] == "use" and mir.root_local(pn, rv[1]) == c.dest[0] for b, rv in rets)
        ctx.ob("F-STREAM", "yields-what-the-receiver-yields", own and direct,
               "poll_next returns the result of polling its own msg_receiver unchanged" if own and direct else
               "poll_next filters / replaces what the receiver yields (own receiver=%s, returned unchanged=%s)" % (own, direct), c.where)


def _pin_of_field(body, op, field):
    ob = mir.origin_base(body, op)
    if ob[0] == "call" and ob[1].is_("new", "new_unchecked") and ob[1].args:
        return _through_field(body, ob[1].args[0], field)
    return False


# ------------------------------------------------------------------------------------------ count pairing
def count_writes(body):
    """statements writing the u64 count of a subscriptions entry: (block, idx, rvalue, line)"""
    out = []
    for b, i, pl, rv, ln in mir.assignments(body):
        if not pl[1]:
            continue
        last = pl[1][-1]
        if isinstance(last, list) and last[0] == "." and last[1] == 0 and last[4] == "u64":
            out.append((b, i, pl, rv, ln))
        elif pl[1] == ["*"] and body.locals[pl[0]][0] == "&mut u64":
            out.append((b, i, pl, rv, ln))
    return out


def step_of(body, rv):
    """('Add'|'Sub', const) when rv is `x (+|-) const` through the overflow-checked temporary"""
    if rv[0] == "bin" and rv[1] in ("Add", "Sub", "AddWithOverflow", "SubWithOverflow"):
        k = mir.resolve_const(body, rv[3])
        return rv[1][:3], (k or {}).get("v"), rv[2]
    if rv[0] == "use":
        p = mir.op_place(rv[1])
        if p:
            d = mir.single_def(body, p[0])
            if d and d[0] == "assign":
                return step_of(body, d[4])
    return None


def entry_switch(ctx, f, body, rule_name, tag):
    ents = [c for c in mir.calls(body) if c.is_("entry") and "HashMap" in c.callee]
    locks = [c for c in mir.calls(body) if c.is_("lock") and "Mutex" in c.callee and _through_field(body, c.args[0], "subscriptions", L.INNER)]
    ctx.floor(rule_name, tag + "locks of ConnectionInner.subscriptions", len(locks), 1)
    gder = mir.derives(body, {c.dest[0] for c in locks})
    ents = [c for c in ents if L.op_in(c.args[0], gder)]
    E = ctx.one(ents, tag + "subscriptions.entry(rule)", rule_name)
    key = L.strip_clone(body, E.args[1])
    ctx.ob(rule_name, tag + "entry-keyed-by-rule", key is not None and mir.local_name(body, key) == "rule",
           "entry is looked up with the `rule` argument" if key is not None and mir.local_name(body, key) == "rule" else
           "entry key is `%s`, not the rule argument" % mir.local_name(body, key), E.where)
    for sb, t, place in L.place_switches(body, E.dest[0]):
        arms = L.discr_arms(body, f, sb)
        if arms and arms[1] == ENTRY and not place[1]:
            occ, vac = arms[2].get("Occupied"), arms[2].get("Vacant")
            if occ is not None and vac is not None and L.sole_pred(body, occ, sb) and L.sole_pred(body, vac, sb):
                return E, sb, occ, vac
    ctx.need([], tag + "match on the Entry (Occupied / Vacant)", rule_name)


def rule_pair(ctx, f):
    am = L.coroutine_of(ctx, f, L.CONN + "::add_match")
    rm = L.coroutine_of(ctx, f, L.CONN + "::remove_match")
    # ---------------- add_match
    E, sb, occ, vac = entry_switch(ctx, f, am, "F-PAIR", "add:")
    vac_r, occ_r = mir.region(am, vac), mir.region(am, occ)
    writes = count_writes(am)
    ctx.floor("F-PAIR", "add:writes of the stored count", len(writes), 1)
    for b, i, pl, rv, ln in writes:
        st = step_of(am, rv)
        ok = b in occ_r and st is not None and st[0] == "Add" and st[1] == 1 and not L.in_cycle(am, b)
        ctx.ob("F-PAIR", "add:count-plus-one-on-occupied", ok,
               "the stored count is incremented by exactly 1, once, on the Occupied edge" if ok else
               "stored count written as %s on %s edge" % (st and st[:2], "Occupied" if b in occ_r else "another"), L.wh(am, ln))
    occ_writes = [w for w in writes if w[0] in occ_r]
    ctx.ob("F-PAIR", "add:occupied-increments", len(occ_writes) == 1, "one increment on the Occupied edge" if len(occ_writes) == 1 else
           "%d count writes on the Occupied edge: a second subscriber is not counted exactly once" % len(occ_writes), L.wh(am, mir.term(am, sb)[5]))
    # every normal return from the Occupied arm passes the increment
    if occ_writes:
        okr = not _ok_return_reachable(am, occ, {w[0] for w in occ_writes})
        ctx.ob("F-PAIR", "add:occupied-always-counts", okr, "every Ok return of the Occupied edge passes the increment" if okr else
               "the Occupied edge can return a receiver without counting the subscriber", L.wh(am, occ_writes[0][4]))
    gm = [c for c in mir.calls(am) if c.is_("get_mut") and "OccupiedEntry" in c.callee and c.b in occ_r]
    gder = mir.derives(am, {c.dest[0] for c in gm}, through_calls=False)
    acts = [c for c in mir.calls(am) if c.is_("activate_cloned") and c.b in occ_r]
    ret_ok = _ok_returns(am)
    for b, op, ln in ret_ok:
        if b in occ_r:
            src = [c for c in acts if L.op_in(op, {c.dest[0]}) or mir.origin(am, op)[0] == "call" and mir.origin(am, op)[1].b == c.b]
            good = bool(src) and all(L.op_in(c.args[0], gder) for c in src)
            ctx.ob("F-PAIR", "add:occupied-returns-shared-channel", good,
                   "the Occupied edge returns activate_cloned() of the stored receiver (streams with equal rules share one channel)" if good else
                   "the Occupied edge does not return a receiver activated from the stored one", L.wh(am, ln))
    # Vacant: insert (1, receiver) ; msg_senders.insert(Some(rule), sender) ; return receiver -- all one channel
    bcasts = [c for c in mir.calls(am) if c.callee.endswith("async_broadcast::broadcast") and c.b in vac_r]
    ctx.floor("F-PAIR", "add:broadcast() channel creations on the Vacant edge", len(bcasts), 1)
    chan = mir.derives(am, {c.dest[0] for c in bcasts})
    vins = [c for c in mir.calls(am) if c.is_("insert") and "VacantEntry" in c.callee]
    ctx.floor("F-PAIR", "add:VacantEntry::insert calls", len(vins), 1)
    for c in vins:
        o = mir.origin(am, c.args[1])
        one = chan_ok = False
        if o[0] == "rv" and o[1][0] == "agg" and o[1][1] == "tuple" and len(o[1][4]) == 2:
            k = mir.resolve_const(am, o[1][4][0])
            one = k is not None and k.get("v") == 1
            chan_ok = L.op_in(o[1][4][1], chan)
        ent = L.op_in(c.args[0], mir.derives(am, {E.dest[0]}, through_calls=False))
        good = one and chan_ok and ent and c.b in vac_r
        ctx.ob("F-PAIR", "add:vacant-inserts-count-1", good,
               "Vacant edge inserts (1, receiver of the new channel) into this entry" if good else
               "Vacant insert: count is 1=%s, receiver of the new channel=%s, this entry=%s, on Vacant edge=%s" % (one, chan_ok, ent, c.b in vac_r), c.where)
    slocks = [c for c in mir.calls(am) if c.is_("lock") and "Mutex" in c.callee and _through_field(am, c.args[0], "msg_senders", L.INNER)]
    sder = mir.derives(am, {c.dest[0] for c in slocks if c.b in vac_r})
    sins = [c for c in mir.calls(am) if c.is_("insert") and "HashMap" in c.callee and len(c.args) == 3 and L.op_in(c.args[0], sder)]
    ctx.floor("F-PAIR", "add:msg_senders.insert calls", len(sins), 1)
    for c in sins:
        keyl = L.strip_clone(am, c.args[1])
        good = c.b in vac_r and L.op_in(c.args[2], chan) and keyl is not None and mir.local_name(am, keyl) == "rule"
        ctx.ob("F-PAIR", "add:vacant-registers-sender", good,
               "the new channel's sender is registered in msg_senders under Some(rule)" if good else
               "msg_senders.insert: on Vacant edge=%s, sender of the new channel=%s, key=%s" % (c.b in vac_r, L.op_in(c.args[2], chan), mir.local_name(am, keyl)), c.where)
    for b, op, ln in ret_ok:
        if b in vac_r:
            good = L.op_in(op, chan)
            ctx.ob("F-PAIR", "add:vacant-returns-new-channel", good, "the Vacant edge returns the receiver of the channel it registered" if good else
                   "the receiver returned on the Vacant edge is not of the registered channel", L.wh(am, ln))
            dom = all(any(mir.block_dominates(am, c.b, b) for c in grp) for grp in (vins, sins) if grp)
            ctx.ob("F-PAIR", "add:vacant-return-after-registration", dom, "Ok is returned after the entry and the sender were inserted" if dom else
                   "the Vacant edge can return Ok without inserting the entry or the sender", L.wh(am, ln))
    ctx.floor("F-PAIR", "add:Ok returns", len(ret_ok), 2)

    # ---------------- remove_match
    E2, sb2, occ2, vac2 = entry_switch(ctx, f, rm, "F-PAIR", "remove:")
    occ2_r, vac2_r = mir.region(rm, occ2), mir.region(rm, vac2)
    writes2 = count_writes(rm)
    ctx.floor("F-PAIR", "remove:writes of the stored count", len(writes2), 1)
    for b, i, pl, rv, ln in writes2:
        st = step_of(rm, rv)
        ok = b in occ2_r and st is not None and st[0] == "Sub" and st[1] == 1 and not L.in_cycle(rm, b)
        ctx.ob("F-PAIR", "remove:count-minus-one-on-occupied", ok,
               "the stored count is decremented by exactly 1, once, on the Occupied edge" if ok else
               "stored count written as %s on %s edge" % (st and st[:2], "Occupied" if b in occ2_r else "another"), L.wh(rm, ln))
    dec = [w for w in writes2 if w[0] in occ2_r]
    ctx.ob("F-PAIR", "remove:occupied-decrements", len(dec) == 1, "one decrement on the Occupied edge" if len(dec) == 1 else
           "%d count writes on the Occupied edge" % len(dec), L.wh(rm, mir.term(rm, sb2)[5]))
    # zero test on the stored count after the decrement
    zero = []
    eg = [c for c in mir.calls(rm) if c.is_("get", "get_mut") and "OccupiedEntry" in c.callee]
    eder = mir.derives(rm, {c.dest[0] for c in eg}, through_calls=False)
    for sbz, op, l, r, tt, ft, ln in mir.cmp_switches(rm):
        if op not in ("Eq", "Ne"):
            continue
        kl, kr = mir.resolve_const(rm, l), mir.resolve_const(rm, r)
        var = l if (kr is not None and kr.get("v") == 0) else (r if (kl is not None and kl.get("v") == 0) else None)
        if var is None:
            continue
        o = mir.origin(rm, var)
        cnt = o[0] == "place" and o[1][0] in eder and o[1][1] and isinstance(o[1][1][-1], list) and o[1][1][-1][1] == 0 and o[1][1][-1][4] == "u64"
        if cnt:
            zero.append((sbz, tt if op == "Eq" else ft, ft if op == "Eq" else tt, ln))
    ctx.floor("F-PAIR", "remove:tests of the stored count against 0", len(zero), 1)
    for sbz, zt, nzt, ln in zero:
        after = bool(dec) and all(mir.block_dominates(rm, w[0], sbz) for w in dec)
        ctx.ob("F-PAIR", "remove:zero-test-after-decrement", after, "the count is compared with 0 after the decrement" if after else
               "the zero test does not follow the decrement", L.wh(rm, ln))
    rems = [c for c in mir.calls(rm) if c.is_("remove") and "OccupiedEntry" in c.callee]
    slocks2 = [c for c in mir.calls(rm) if c.is_("lock") and "Mutex" in c.callee and _through_field(rm, c.args[0], "msg_senders", L.INNER)]
    sder2 = mir.derives(rm, {c.dest[0] for c in slocks2})
    srem = [c for c in mir.calls(rm) if c.is_("remove") and "HashMap" in c.callee and L.op_in(c.args[0], sder2)]
    ctx.floor("F-PAIR", "remove:OccupiedEntry::remove calls", len(rems), 1)
    ctx.floor("F-PAIR", "remove:msg_senders.remove calls", len(srem), 1)
    for c in rems + srem:
        what = "entry" if c in rems else "sender"
        ok = any(L.edge_dominates(rm, sbz, zt, c.b) for sbz, zt, nzt, ln in zero)
        ctx.ob("F-PAIR", "remove:%s-removed-only-at-zero" % what, ok,
               "the %s is removed only on the count == 0 edge (the subscription stays while another stream uses it)" % what if ok else
               "the %s can be removed while the count is not 0" % what, c.where)
    for c in srem:
        # key derives from the entry's key / the rule
        kder = mir.derives(rm, {x.dest[0] for x in mir.calls(rm) if x.is_("key") and "OccupiedEntry" in x.callee} |
                           {l for l in range(len(rm.locals)) if rm.locals[l][1] == "rule"})
        ctx.ob("F-PAIR", "remove:sender-key-is-the-rule", L.op_in(c.args[1], kder), "msg_senders.remove is keyed by the rule being removed"
               if L.op_in(c.args[1], kder) else "msg_senders.remove is keyed by something else than the rule being removed", c.where)
    for sbz, zt, nzt, ln in zero:
        both = all(any(mir.block_dominates(rm, zt, c.b) for c in grp) for grp in (rems, srem) if grp)
        ctx.ob("F-PAIR", "remove:zero-edge-unregisters", both and bool(rems) and bool(srem),
               "at count 0 both the subscriptions entry and the sender are removed" if both else "the zero edge does not remove entry and sender", L.wh(rm, ln))
    # Vacant -> Ok(false), nothing removed
    vr = [(b, op, ln) for b, op, ln in _ok_returns(rm) if b in vac2_r]
    okv = bool(vr) and all((mir.resolve_const(rm, op) or {}).get("v") in (False, 0) for b, op, ln in vr)
    ctx.ob("F-PAIR", "remove:vacant-returns-false", okv, "an unknown rule yields Ok(false)" if okv else "Vacant edge does not return Ok(false)",
           L.wh(rm, mir.term(rm, sb2)[5]))
    # ---------------- who touches the two maps
    allowed = {
        "subscriptions": {L.CONN + "::add_match", L.CONN + "::remove_match", L.CONN + "::new", "<%s as core::fmt::Debug>::fmt" % L.INNER},
        "msg_senders": {L.CONN + "::add_match", L.CONN + "::remove_match", L.CONN + "::new", L.CONN + "::init_socket_reader",
                        "<%s as core::fmt::Debug>::fmt" % L.INNER},
    }
    for fld, okset in allowed.items():
        touch = L.bodies_touching_field(f, fld, L.INNER)
        ctx.floor("F-PAIR", "users of ConnectionInner.%s" % fld, len(touch), 2)
        for root, (b, ln) in sorted(touch.items()):
            ctx.ob("F-PAIR", "%s-user:%s" % (fld, root), root in okset, "confirmed user" if root in okset else
                   "unexpected user of ConnectionInner.%s" % fld, L.wh(b, ln))


def _ok_returns(body):
    out = []
    for b, i, pl, rv, ln in mir.assignments(body):
        if pl[0] == mir.RET and not pl[1] and rv[0] == "agg" and rv[2] == RESULT and rv[3] == "Ok":
            out.append((b, rv[4][0], ln))
    return out


def _ok_return_reachable(body, start, avoid):
    """an `_0 = Ok(..)` assignment is reachable from `start` without passing `avoid`"""
    r = mir.reachable(body, [start], avoid=avoid)
    return any(b in r for b, op, ln in _ok_returns(body))
