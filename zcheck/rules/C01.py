"""C01 — D-Bus encoding is byte-exact with the specification (DESIGN §5.C01).

Oracle: /verif/spec/dbus_types.json (transcribed from the D-Bus specification's marshalling table).
Anchors are trait identities (`<&mut dbus::Serializer as serde::Serializer>::serialize_*`, `SerializeSeq::end` ...),
def paths and field names. Rules (each instance is keyed by function + instance name, never by line):

  T-ALIGN   the variant->constant table of `Signature::alignment_dbus` and the three `*_ALIGNMENT_DBUS` constants equal the
            spec; `Signature::alignment` routes Format::DBus to `alignment_dbus`; `Basic::alignment` is the one default body
            `Self::SIGNATURE.alignment(format)` and no impl overrides it
  T-CODE    `Basic::SIGNATURE_CHAR` of the Rust types the serializer names in `prep_serialize_basic::<T>` /
            `<T as Basic>::alignment` is the spec type code of the serde method (i8 as INT16, f32 as DOUBLE, Fd index as UINT32-aligned)
  T-WIDTH   every basic `serialize_*` of the D-Bus serializer: one `write_<T>` on the counting writer per success path, its width
            and class equal the spec row, the value is the argument (through at most one `as` cast to that very type), the byte
            order is `self.0.ctxt.endian()`; the Fd arm writes the u32 returned by `add_fd`
  T-STR     `serialize_str`: per signature kind the length prefix width (u32 for s/o, u8 for g/v), prefix value is
            `usize_to_uN(v.len())` (checked narrowing), any other kind writes nothing; payload `write_all(v.as_bytes())` follows
            the prefix on every success path and is followed by a `write_all` of the single byte 0 on every success path
  T-LEN     every length prefix (a `write_uN` whose value derives from a `len()` call) in the D-Bus serializer goes through the
            checked narrowing helper of that width (`usize_to_u32` / `usize_to_u8`)
  P-PAD     every direct write in a D-Bus `serialize_*` is preceded on every path by `add_padding`/`prep_serialize_basic`;
            the alignment operand of each padding site equals the confirmed source (spec row constant, the current signature's
            alignment, or the per-arm table Array->child alignment / Dict->8); `serialize_seq` does pad(4) -> write_u32(0) ->
            pad(element) in that order, the latter unconditionally (empty arrays too); `serialize_key` pads to 8 before the key;
            `StructSerializer::structure` (which does not pad) is only called after a struct-alignment padding
  P-ABS     `add_padding` computes `padding_for_n_bytes(self.abs_pos(), alignment)`, writes exactly `[..padding]` with
            `write_all` and returns `padding`; `abs_pos` is `ctxt.position() + bytes_written`; `prep_serialize_basic::<T>`
            pads to `<T as Basic>::alignment(self.ctxt.format())`
  P-PATCH   `end_seq`: seek(Current) -> write_u32 -> seek(Current) on the *inner* writer (not the counting one), the value is
            `usize_to_u32` of something derived from `bytes_written` and `start`; every `end` of the D-Bus
            SerializeSeq/Map/Tuple*/Struct* impls returns the result of `end_seq` (Seq, Map) / `end_struct` (Struct) per variant
  SIZE      `serialized_size` and `to_writer_for_signature` build the same serializer type through the same `new`, call the same
            `Serialize::serialize`, and both take the length from that serializer's `bytes_written`; the size pass reports the
            `FdList::Number` it passed in; `NullWriteSeek::write` returns `buf.len()`
  COUNT     `SerializerCommon.bytes_written` is written only by: zero in the two `Serializer::new`, `+= n` on the inner writer's
            return value in `<SerializerCommon as Write>::write`, and copies of another serializer's `bytes_written`;
            a sub-serializer of the D-Bus writer takes ctxt / writer / fds from the parent's fields of the same name
  FD        `add_fd`: the Number arm returns the counter value read before its `+ 1`; the Fds arm returns either the position of
            the already present fd or `fds.len()` taken before the `push`
  W-ALL     serializer code never calls the short-writing `std::io::Write::write` / `write_vectored` (only `write_all`/`write_uN`)
            except the forwarding `<SerializerCommon as Write>::write` itself

Not decided: the arithmetic of the back-patched length (`total_array_len`) and of `padding_for_n_bytes`; the char->Signature
table inside `impl_type!` (associated-const bodies are not in the facts; C06's tables cover the parser side); paths inside
third-party `Serialize` impls and `endi`'s `write_*` (trusted: they call `write_all`). Clause "Basic::alignment agrees with
the row of its signature" is decided only up to T-CODE + the single default body.
"""
from .. import mir
from .. import lib_codec as lc

META = {
    "technique": "MIR switch-table extraction vs spec oracle, dominator/ordering rules, who-writes sets",
    "level": ("Static rules over every path of the D-Bus serializer's MIR (K1; W-ALL/COUNT also over K2): alignment table, "
              "per-type write widths, string prefix/terminator, padding-before-write, array back-patch order, size-pass/"
              "write-pass agreement and fd accounting are compared with the transcribed D-Bus marshalling table. "
              "Arithmetic (back-patched length, padding formula) and third-party Serialize impls are not decided."),
}

SER_FILES = ("zvariant/src/dbus/ser.rs", "zvariant/src/gvariant/ser.rs", "zvariant/src/ser.rs",
             "zvariant/src/framing_offsets.rs", "zvariant/src/framing_offset_size.rs")


GV_FILES = ("zvariant/src/gvariant/ser.rs", "zvariant/src/framing_offsets.rs", "zvariant/src/framing_offset_size.rs")


def K(body, inst):
    return "%s:%s" % (lc.short(body), inst)


# ============================================================================================ T-ALIGN
def t_align(ctx, f, spec, tag=""):
    body = ctx.one(f.find(name="alignment_dbus", adt=lc.SIG, trait=""), "Signature::alignment_dbus")
    sw = [s for s in mir.discr_switches(body, f, None) if s[2] == lc.SIG]
    sw = ctx.one(sw, "discriminant switch on Signature in alignment_dbus")
    sb, place, adt, arms, other = sw
    variants = [v["name"] for v in f.adts[lc.SIG]["variants"]]
    n = 0
    for v in variants:
        tgt = arms.get(v, other)
        val = mir.arm_constant(body, tgt, limit=8)
        row = spec["by_variant"].get(v)
        where = "%s:%d" % (body.file, body.span[0])
        if v == "Maybe":
            # GVariant-only type. D-Bus has no maybe; its only D-Bus encoding is as an array (option-as-array),
            # so the arm must either not produce a value or produce the array alignment.
            arr = spec["by_variant"].get("Array", {}).get("align")
            ok = val is None or val[0] == "unreachable" or (val[0] != "k") or (val[0] == "k" and val[1] == arr)
            ctx.ob("T-ALIGN", tag + "alignment_dbus:Maybe", ok,
                   "Maybe has no D-Bus alignment of its own: the arm diverges or yields the array alignment (%s); got %s" % (arr, val[1] if val and val[0] == "k" else val), where)
            continue
        if v == "Unit":
            ctx.note("alignment_dbus: Unit (not a D-Bus type) -> %s, not judged" % (val[1] if val and val[0] == "k" else val,))
            continue
        if row is None:
            ctx.ob("T-ALIGN", tag + "alignment_dbus:" + v, False, "Signature variant %s has no row in the spec oracle" % v, where)
            continue
        got = val[1] if val is not None and val[0] == "k" else None
        n += 1
        ctx.ob("T-ALIGN", tag + "alignment_dbus:" + v, got == row["align"],
               "alignment_dbus(%s) = %s, spec (%s) %s" % (v, got, row["code"], row["align"]), where)
    ctx.floor("T-ALIGN", tag + "rows of alignment_dbus", n, 16)
    for cid, ent in spec["constants"].items():
        c = f.consts.get(cid)
        ctx.need([c] if c else [], "const " + cid)
        want = spec["by_code"][ent["row"]]["align"]
        ctx.ob("T-ALIGN", tag + "const:" + cid.rsplit("::", 1)[1], c.get("v") == want == ent["value"],
               "%s = %s, spec row %s alignment %s" % (cid, c.get("v"), ent["row"], want), "zvariant/src/utils.rs")
    # Signature::alignment: the DBus arm returns alignment_dbus(self)
    al = ctx.one(f.find(name="alignment", adt=lc.SIG, trait=""), "Signature::alignment")
    calls = [c for c in mir.calls(al) if c.callee == lc.SIG + "::alignment_dbus"]
    ok = bool(calls)
    detail = "no call of alignment_dbus"
    for c in calls:
        fsw = [s for s in mir.discr_switches(al, f, None) if s[2] == lc.FORMAT]
        into_ret = mir.RET in mir.derives(al, {c.dest[0]}, through_calls=False) or c.dest[0] == mir.RET
        recv_self = lc.self_path(al, c.args[0]) == []
        if fsw:
            arm = lc.arm_of(al, f, c.b, adt=lc.FORMAT)
            arm_ok = arm == frozenset(["DBus"])
            # and nothing else is returned on that arm
            tgt = fsw[0][3].get("DBus")
            others = [x for x in mir.calls(al) if x.callee != c.callee and tgt is not None and mir.block_dominates(al, tgt, x.b)]
            arm_ok = arm_ok and not others
        else:
            arm_ok = all(x.callee == c.callee for x in mir.calls(al))
        ok = ok and into_ret and recv_self and arm_ok
        detail = "Format::DBus arm returns alignment_dbus(self): ret=%s self=%s arm=%s" % (into_ret, recv_self, arm_ok)
    ctx.ob("T-ALIGN", tag + "alignment:DBus->alignment_dbus", ok, detail, al.where)
    # Basic::alignment: one default body, delegating to Signature::alignment of Self::SIGNATURE
    ba = ctx.one([b for b in f.all_bodies() if b.id == lc.BASIC + "::alignment"], "default body of Basic::alignment")
    cs = [c for c in mir.calls(ba) if not c.is_("deref")]
    ok = len(cs) == 1 and cs[0].callee == lc.SIG + "::alignment"
    if ok:
        k = mir.origin(ba, cs[0].args[0])
        ok = k[0] == "const" and "SIGNATURE" in str(k[1].get("cdef") or k[1].get("fn") or k[1]) and \
            "SIGNATURE_" not in str(k[1].get("cdef") or "")
        fmt = mir.origin(ba, cs[0].args[1])
        ok = ok and fmt[0] == "place" and fmt[1][0] == 1
    ctx.ob("T-ALIGN", tag + "Basic::alignment:default-body", ok,
           "Basic::alignment(format) is Self::SIGNATURE.alignment(format)", ba.where)
    over = [i for i in f.impls if i.get("trait") == lc.BASIC and any(str(it).endswith("::alignment") or it == "alignment"
                                                                     for it in i.get("items", []))]
    ctx.ob("T-ALIGN", tag + "Basic::alignment:no-override", not over,
           "impls of Basic overriding alignment: %s" % [i.get("self") for i in over], ba.where)
    nimpl = len([i for i in f.impls if i.get("trait") == lc.BASIC])
    ctx.floor("T-ALIGN", tag + "impls of Basic inspected for an override", nimpl, 20)


# ============================================================================================ T-WIDTH / T-CODE
BASIC_METHODS = ["bool", "i8", "i16", "i32", "i64", "u8", "u16", "u32", "u64", "f32", "f64"]


endian_ok = lc.endian_ok


def value_source(body, op, want_ty=None):
    return lc.value_source(body, op)


def t_width(ctx, f, spec):
    rows = 0
    for m in BASIC_METHODS:
        body = lc.method(ctx, f, lc.DBUS_SER, lc.SER_TRAIT, "serialize_" + m)
        code = spec["serde_basic"][m]
        writes = [c for c in mir.calls(body) if lc.write_kind(c)]
        ctx.ob("T-WIDTH", K(body, "writes-present"), bool(writes), "%d direct write call(s)" % len(writes), body.where)
        # partition by arm of a switch on the signature (serialize_i32: Fd vs rest)
        for c in writes:
            kind, name = lc.write_kind(c)
            arm = lc.arm_of(body, f, c.b)
            is_fd = arm is not None and "Fd" in arm
            row = spec["by_code"]["h" if is_fd else code]
            inst = "Fd" if is_fd else "value"
            where = c.where
            if arm is not None and not is_fd and arm != frozenset(["otherwise"]):
                ctx.ob("T-WIDTH", K(body, "arm:" + ",".join(sorted(arm))), False,
                       "write under an unexpected signature arm %s" % sorted(arm), where)
            rows += 1
            w = lc.width_of(name) if kind == "bytes" else None
            ok_w = w is not None and w[0] == row["size"] and ((w[1] == "float") == (row["class"] == "float"))
            ctx.ob("T-WIDTH", K(body, inst + ":width"), ok_w,
                   "%s writes with %s; spec %s: %d byte(s), class %s" % (inst, name, row["code"], row["size"], row["class"]), where)
            ctx.ob("T-WIDTH", K(body, inst + ":counting-writer"), lc.is_counting_writer(c) and lc.self_path(body, c.args[0]) == ["0"],
                   "receiver is the counting SerializerCommon `self.0` (%s)" % lc.recv_type(c), where)
            ctx.ob("T-WIDTH", K(body, inst + ":endian"), len(c.args) == 3 and endian_ok(body, c.args[1], ["0"]),
                   "byte order operand is self.0.ctxt.endian()", where)
            if len(c.args) != 3:
                continue
            vs = value_source(body, c.args[2], None)
            wty = name.split("_", 1)[1]
            if is_fd:
                ok_v = vs[0] == "call" and vs[1].callee.endswith("SerializerCommon::<'_, W>::add_fd") and not vs[2]
                # and add_fd receives the value argument
                if ok_v:
                    a = mir.origin(body, vs[1].args[1])
                    ok_v = a[0] == "place" and a[1] == [2, []]
                ctx.ob("T-WIDTH", K(body, "Fd:value"), ok_v, "Fd arm writes the index returned by add_fd(v) (%s)" % (vs[0],), where)
            else:
                ok_v = vs[0] == "arg" and vs[1] == 2 and len(vs[2]) <= 1 and all(t == wty for k_, t in vs[2])
                # a cast is only acceptable as widening/identity of the same class: bool->u32, i8->i16, f32->f64
                if ok_v and vs[2]:
                    ck = vs[2][0][0]
                    ok_v = ck in ("IntToInt", "FloatToFloat")
                ctx.ob("T-WIDTH", K(body, "value:operand"), ok_v,
                       "written value is the argument `v` (casts: %s)" % (vs[2],), where)
        # one write per success path: no success path from one write reaches another write
        wb = {c.b for c in writes}
        multi = False
        for c in writes:
            reach = mir.reachable(body, lc.after(body, c.b), avoid=lc.error_blocks(body))
            if reach & wb:
                multi = True
        ctx.ob("T-WIDTH", K(body, "one-write-per-path"), not multi and bool(writes), "no path performs two value writes", body.where)
        # every success path performs a write
        miss = lc.ok_exits_from(body, [0], avoid=wb)
        ctx.ob("T-WIDTH", K(body, "write-on-every-path"), not miss, "every success path reaches a value write", body.where)
        # T-CODE: the type named for the alignment of this method's padding
        for c in mir.calls(body):
            ty = None
            if c.is_("prep_serialize_basic"):
                ty = lc.generic_of(c, "prep_serialize_basic")
            elif c.callee == lc.BASIC + "::alignment" or c.c.get("fn") == lc.BASIC + "::alignment":
                ty = lc.basic_type_of(c)
            else:
                continue
            got = lc.basic_code(f, ty) if ty else None
            arm = lc.arm_of(body, f, c.b)
            is_fd = arm is not None and "Fd" in arm
            want = spec["by_code"]["h" if is_fd else code]
            grow = spec["by_code"].get(got)
            ok = grow is not None and grow["align"] == want["align"] and (is_fd or got == code)
            ctx.ob("T-CODE", K(body, ("Fd" if is_fd else "value") + ":align-type"), ok,
                   "pads as `%s` (SIGNATURE_CHAR %r, alignment %s); spec %s alignment %s" % (
                       ty, got, grow and grow["align"], want["code"], want["align"]), c.where)
    ctx.floor("T-WIDTH", "value writes in basic serialize_* methods", rows, 12)
    # the evaluated SIGNATURE_CHAR of the primitive types themselves
    prim = {"bool": "b", "i8": "n", "i16": "n", "i32": "i", "i64": "x", "u8": "y", "u16": "q", "u32": "u", "u64": "t",
            "f32": "d", "f64": "d", "str": "s", "alloc::string::String": "s", "char": "s"}
    for ty, want in prim.items():
        ctx.ob("T-CODE", "SIGNATURE_CHAR:" + ty, lc.basic_code(f, ty) == want,
               "<%s as Basic>::SIGNATURE_CHAR = %r, expected %r" % (ty, lc.basic_code(f, ty), want), "zvariant/src/basic.rs")


# ============================================================================================ T-STR / T-LEN
def len_of_arg(body, op, argn):
    """operand is `<arg>.len()` (str::len / slice len) of argument argn"""
    o = mir.origin(body, op)
    if o[0] != "call" or not o[1].is_("len") or not o[1].args:
        return False
    a = mir.origin(body, o[1].args[0])
    return a[0] in ("place", "ref") and a[1][0] == argn and not lc.deref_fields(a[1])


def t_str(ctx, f, spec):
    body = lc.method(ctx, f, lc.DBUS_SER, lc.SER_TRAIT, "serialize_str")
    writes = [c for c in mir.calls(body) if lc.write_kind(c)]
    prefix = [c for c in writes if lc.write_kind(c)[0] == "bytes"]
    io = [c for c in writes if lc.write_kind(c)[0] == "io"]
    ctx.floor("T-STR", "length-prefix writes in serialize_str", len(prefix), 2)
    seen = {}
    for c in prefix:
        name = lc.write_kind(c)[1]
        arm = lc.arm_of(body, f, c.b)
        w = lc.width_of(name)
        for v in sorted(arm or ["<no signature arm>"]):
            row = spec["by_variant"].get(v)
            ok = row is not None and row["prefix"] is not None and w is not None and w[0] == row["prefix"] and w[1] == "uint"
            seen[v] = True
            ctx.ob("T-STR", K(body, "prefix:" + v), ok,
                   "signature %s: length prefix written with %s; spec prefix %s byte(s)" % (v, name, row and row["prefix"]), c.where)
        # value: usize_to_uN(v.len()) with N matching
        vo = mir.origin(body, c.args[2]) if len(c.args) == 3 else ("?",)
        okv = vo[0] == "call" and vo[1].callee == "zvariant::utils::usize_to_" + name.split("_", 1)[1] and \
            len_of_arg(body, vo[1].args[0], 2)
        ctx.ob("T-STR", K(body, "prefix-value:" + ",".join(sorted(arm or []))), okv,
               "prefix value is usize_to_%s(v.len())" % name.split("_", 1)[1], c.where)
        ctx.ob("T-STR", K(body, "prefix-endian:" + ",".join(sorted(arm or []))), endian_ok(body, c.args[1], ["0"]) and
               lc.self_path(body, c.args[0]) == ["0"], "prefix written to self.0 in self.0.ctxt.endian()", c.where)
    for v in ("Str", "ObjectPath", "Signature", "Variant"):
        ctx.ob("T-STR", K(body, "prefix-arm-present:" + v), v in seen, "a length prefix is written for signature %s" % v, body.where)
    # payload and terminator
    payload = [c for c in io if lc.write_kind(c)[1] == "write_all" and _is_as_bytes_of(body, c.args[1], 2)]
    term = [c for c in io if lc.write_kind(c)[1] == "write_all" and lc.const_bytes(body, c.args[1]) == [0]]
    other = [c for c in io if c not in payload and c not in term]
    ctx.ob("T-STR", K(body, "payload-write"), len(payload) == 1, "exactly one write_all(v.as_bytes()) (%d)" % len(payload), body.where)
    ctx.ob("T-STR", K(body, "terminator-write"), len(term) == 1, "exactly one write_all of the single byte 0 (%d)" % len(term), body.where)
    ctx.ob("T-STR", K(body, "no-other-write"), not other, "no other direct io write: %s" % [c.callee for c in other], body.where)
    if len(payload) == 1 and len(term) == 1:
        pw, tw = payload[0], term[0]
        ctx.ob("T-STR", K(body, "prefix-before-payload"), lc.always_preceded(body, pw.b, {c.b for c in prefix}),
               "every path to the payload write passes a length-prefix write", pw.where)
        ctx.ob("T-STR", K(body, "terminator-after-payload"), lc.always_followed(body, pw.b, {tw.b}) and
               lc.always_preceded(body, tw.b, {pw.b}),
               "the nul terminator is written after the payload on every success path", tw.where)
        ctx.ob("T-STR", K(body, "payload-receiver"), all(lc.self_path(body, c.args[0]) == ["0"] for c in (pw, tw)),
               "payload and terminator go to the counting writer self.0", pw.where)
        # no path writes twice
        ctx.ob("T-STR", K(body, "single-prefix-per-path"),
               not any(mir.reachable(body, lc.after(body, c.b), avoid=lc.error_blocks(body)) & ({x.b for x in prefix} - {c.b})
                       for c in prefix), "no path writes two length prefixes", body.where)
    # success exits all pass the terminator
    if term:
        ctx.ob("T-STR", K(body, "ok-only-after-terminator"), not lc.ok_exits_from(body, [0], avoid={term[0].b}),
               "no success return without the terminator write", body.where)


def _is_as_bytes_of(body, op, argn):
    o = mir.origin(body, op)
    if o[0] != "call" or not o[1].is_("as_bytes"):
        return False
    a = mir.origin(body, o[1].args[0])
    return a[0] in ("place", "ref") and a[1][0] == argn


def t_len(ctx, f):
    """length prefixes go through the checked narrowing helper"""
    n = 0
    for b in f.all_bodies("zvariant"):
        if b.file != "zvariant/src/dbus/ser.rs":
            continue
        for c in mir.calls(b):
            wk = lc.write_kind(c)
            if not wk or wk[0] != "bytes" or len(c.args) != 3:
                continue
            # does the value derive from a len() call?
            lens = {x.dest[0] for x in mir.calls(b) if x.is_("len")}
            if not lens:
                continue
            der = mir.derives(b, lens)
            if not any(l in der for l in mir.operand_locals(c.args[2])):
                continue
            n += 1
            vo = mir.origin(b, c.args[2])
            helper = "zvariant::utils::usize_to_" + wk[1].split("_", 1)[1]
            ok = vo[0] == "call" and vo[1].callee == helper
            sd = mir.single_def(b, c.args[2][1][0]) if mir.op_place(c.args[2]) else None
            cast = bool(sd and sd[0] == "assign" and sd[4][0] == "cast")
            ctx.ob("T-LEN", K(f.bodies.get(b.root, b), "checked-narrowing"), ok,
                   "length prefix written with %s comes from %s" % (wk[1], helper if ok else (
                       "an unchecked `as` cast of len()" if cast else "%s, not %s" % (vo[0], helper))), c.where)
    ctx.floor("T-LEN", "length-prefix writes derived from len()", n, 3)


# ============================================================================================ P-PAD / P-ABS
canon_align = lc.canon_align
SIGSELF = lc.SIGSELF
ELEM_TABLE = lc.ELEM_TABLE


def pad_calls(body):
    return [c for c in mir.calls(body) if c.callee.endswith("SerializerCommon::<'_, W>::add_padding") or
            c.callee.endswith("SerializerCommon::<'_, W>::prep_serialize_basic")]


def p_pad(ctx, f, spec):
    # (a) padding dominates every direct write
    bodies = [b for b in f.all_bodies("zvariant") if b.file == "zvariant/src/dbus/ser.rs" and b.kind in ("AssocFn", "Fn")]
    nsites = 0
    for b in bodies:
        if b.name in ("end_seq",):
            continue  # back-patch writes to the inner writer: P-PATCH
        ws = [c for c in mir.calls(b) if lc.write_kind(c) and lc.is_counting_writer(c)]
        if not ws:
            continue
        pads = {c.b for c in pad_calls(b)}
        first = [c for c in ws if lc.always_preceded(b, c.b, pads)]
        for c in ws:
            nsites += 1
            ctx.ob("P-PAD", K(b, "pad-before-write:" + lc.write_kind(c)[1]), c in first,
                   "write is preceded on every path by add_padding/prep_serialize_basic", c.where)
    ctx.floor("P-PAD", "direct writes on the counting writer in dbus/ser.rs", nsites, 17)
    # (b) alignment operand of each add_padding site: frozen table  function -> multiset of canonical sources
    expect = {
        "serialize_i32": [("const", spec["by_code"]["h"]["align"])],
        "serialize_str": [SIGSELF],
        "serialize_bytes": [("const", spec["by_code"]["a"]["align"])],
        "serialize_seq": [("const", spec["by_code"]["a"]["align"]), ELEM_TABLE],
        "serialize_struct": [SIGSELF],
        "serialize_key": [("const", spec["by_code"]["{"]["align"])],
        "enum_variant": [("const", spec["by_code"]["("]["align"]), ("const", spec["by_code"]["("]["align"])],
    }
    got = {}
    for b in bodies:
        for c in mir.calls(b):
            if c.callee.endswith("SerializerCommon::<'_, W>::add_padding") and len(c.args) == 2:
                src = canon_align(f, spec, lc.align_source(f, b, c.args[1]))
                got.setdefault(b.name, []).append((src, c, b))
    for name, exp in expect.items():
        g = got.get(name, [])
        gs = sorted([repr(x[0]) for x in g])
        es = sorted([repr(x) for x in exp])
        where = g[0][1].where if g else "zvariant/src/dbus/ser.rs"
        ctx.ob("P-PAD", "align-source:dbus::ser::%s" % name, gs == es,
               "add_padding alignment sources %s; expected %s" % (gs, es), where)
    for name, g in got.items():
        if name not in expect:
            ctx.ob("P-PAD", "align-source:dbus::ser::%s" % name, False,
                   "add_padding site in a function outside the confirmed table (sources %s)" % [repr(x[0]) for x in g], g[0][1].where)
    # the ('sig','self') sites must read the *current* signature (self.0.signature) at the time of padding
    for name in ("serialize_str", "serialize_struct"):
        for src, c, b in got.get(name, []):
            o = mir.origin(b, c.args[1])
            ok = o[0] == "call" and lc.self_path(b, o[1].args[0]) == ["0", "signature"]
            ctx.ob("P-PAD", K(b, "align-of-current-signature"), ok, "alignment is taken from self.0.signature", c.where)
    # (c) order inside serialize_seq
    seq = lc.method(ctx, f, lc.DBUS_SER, lc.SER_TRAIT, "serialize_seq")
    pads = [(canon_align(f, spec, lc.align_source(f, seq, c.args[1])), c) for c in mir.calls(seq)
            if c.callee.endswith("::add_padding")]
    hdr = [c for s_, c in pads if s_ == ("const", 4)]
    elem = [c for s_, c in pads if s_ == ELEM_TABLE]
    wr = [c for c in mir.calls(seq) if lc.write_kind(c)]
    okshape = len(hdr) == 1 and len(elem) == 1 and len(wr) == 1
    ctx.ob("P-PAD", K(seq, "shape"), okshape, "one header padding, one length write, one element padding (%d/%d/%d)" % (
        len(hdr), len(wr), len(elem)), seq.where)
    if okshape:
        h, e, w = hdr[0], elem[0], wr[0]
        wk = lc.write_kind(w)
        ctx.ob("P-PAD", K(seq, "length-width"), wk[0] == "bytes" and lc.width_of(wk[1]) == (spec["by_code"]["a"]["prefix"], "uint") and
               lc.self_path(seq, w.args[0]) == ["0"] and endian_ok(seq, w.args[1], ["0"]),
               "array length placeholder written with %s to self.0 (spec: UINT32)" % wk[1], w.where)
        ctx.ob("P-PAD", K(seq, "order:pad4-length"), lc.always_preceded(seq, w.b, {h.b}), "header padding precedes the length", w.where)
        ctx.ob("P-PAD", K(seq, "order:length-padelem"), lc.always_preceded(seq, e.b, {w.b}), "length precedes the element padding", e.where)
        oks = [b for b, i, pl, rv, ln in mir.assignments(seq) if pl == [mir.RET, []] and rv[0] == "agg" and rv[3] == "Ok"]
        ctx.ob("P-PAD", K(seq, "elem-padding-unconditional"), bool(oks) and all(lc.always_preceded(seq, b, {e.b}) for b in oks),
               "every Ok return passes the element padding (empty arrays are padded too)", e.where)
        # start of the array data is taken after the element padding; first_padding is the padding call's result
        aggs = [(b, rv) for b, i, pl, rv, ln in mir.assignments(seq) if rv[0] == "agg" and rv[1] == "adt" and
                str(rv[2]).endswith("dbus::ser::SeqSerializer")]
        for b_, rv in aggs:
            names = rv[5]
            st = rv[4][names.index("start")] if "start" in names else None
            fp = rv[4][names.index("first_padding")] if "first_padding" in names else None
            ok = st is not None and lc.reads_field(seq, st, "bytes_written")
            # the read of bytes_written happens after the element padding
            if ok:
                l = mir.root_local(seq, st)
                ds = [d for d in mir.defs_of(seq, l) if d[0] == "assign"]
                ok = len(ds) == 1 and lc.always_preceded(seq, ds[0][1], {e.b})
            ctx.ob("P-PAD", K(seq, "start-after-elem-padding"), ok, "SeqSerializer.start = bytes_written read after the element padding", seq.where)
            vs = value_source(seq, fp, None) if fp is not None else ("?",)
            ctx.ob("P-PAD", K(seq, "first_padding-is-elem-padding"), vs[0] == "call" and vs[1].b == e.b,
                   "SeqSerializer.first_padding is the element padding's return value", seq.where)
    # (d) serialize_key: padding precedes the key's serialize
    key = lc.method(ctx, f, "zvariant::dbus::ser::MapSerializer", "serde_core::ser::SerializeMap", "serialize_key")
    sers = [c for c in mir.calls(key) if c.c.get("fn") == "serde_core::ser::Serialize::serialize"]
    kp = {c.b for c in pad_calls(key)}
    ctx.ob("P-PAD", K(key, "pad-before-key"), bool(sers) and all(lc.always_preceded(key, c.b, kp) for c in sers),
           "dict-entry padding precedes key.serialize on every path", key.where)
    # (e) StructSerializer::structure is only called after struct padding
    n = 0
    for b in bodies:
        for c in mir.calls(b):
            if not c.callee.endswith("dbus::ser::StructSerializer::<'ser, 'b, W>::structure"):
                continue
            n += 1
            good = set()
            for src, pc, pb in got.get(b.name, []):
                if pb is not b:
                    continue
                if src == ("const", spec["by_code"]["("]["align"]):
                    good.add(pc.b)
                elif src == SIGSELF and lc.arm_of(b, f, c.b) == frozenset(["Structure"]):
                    good.add(pc.b)
            ctx.ob("P-PAD", K(b, "struct-padding-before-structure()"), lc.always_preceded(b, c.b, good),
                   "StructSerializer::structure (which does not pad) is reached only after an 8-byte / Structure-signature padding", c.where)
    ctx.floor("P-PAD", "callers of StructSerializer::structure", n, 2)


def p_abs(ctx, f):
    ap = ctx.one(f.find(name="add_padding", adt=lc.SER_COMMON, trait=""), "SerializerCommon::add_padding")
    pc = [c for c in mir.calls(ap) if c.callee == "zvariant::utils::padding_for_n_bytes"]
    ok = len(pc) == 1
    if ok:
        a0 = mir.origin(ap, pc[0].args[0])
        a1 = mir.origin(ap, pc[0].args[1])
        ok = a0[0] == "call" and a0[1].callee.endswith("SerializerCommon::<'_, W>::abs_pos") and lc.self_path(ap, a0[1].args[0]) == [] \
            and a1[0] == "place" and a1[1] == [2, []]
    ctx.ob("P-ABS", K(ap, "padding_for_n_bytes(abs_pos, alignment)"), ok,
           "padding is computed from the absolute position and the alignment argument", ap.where)
    if len(pc) == 1:
        padl = pc[0].dest[0]
        ws = [c for c in mir.calls(ap) if lc.write_kind(c)]
        okw = len(ws) == 1 and lc.write_kind(ws[0])[1] == "write_all" and lc.self_path(ap, ws[0].args[0]) == []
        if okw:
            o = mir.origin(ap, ws[0].args[1])
            okw = o[0] == "call" and o[1].is_("index")
            if okw:
                r = mir.origin(ap, o[1].args[1])
                okw = r[0] == "rv" and r[1][0] == "agg" and str(r[1][2]).endswith("RangeTo") and \
                    mir.root_local(ap, r[1][4][0]) == padl
        ctx.ob("P-ABS", K(ap, "writes-[..padding]"), okw, "exactly `padding` bytes are written with write_all on self", ap.where)
        rets = [rv for b, i, pl, rv, ln in mir.assignments(ap) if pl == [mir.RET, []] and rv[0] == "agg" and rv[3] == "Ok"]
        ctx.ob("P-ABS", K(ap, "returns-padding"), bool(rets) and all(mir.root_local(ap, rv[4][0]) == padl for rv in rets),
               "Ok(padding) is returned", ap.where)
    ab = ctx.one(f.find(name="abs_pos", adt=lc.SER_COMMON, trait=""), "SerializerCommon::abs_pos")
    adds = [rv for b, i, pl, rv, ln in mir.assignments(ab) if rv[0] == "bin" and rv[1] in ("Add", "AddWithOverflow")]
    ok = len(adds) == 1
    if ok:
        srcs = []
        for op in (adds[0][2], adds[0][3]):
            o = mir.origin(ab, op)
            if o[0] == "call" and o[1].callee.endswith("Context::position") and lc.self_path(ab, o[1].args[0]) == ["ctxt"]:
                srcs.append("position")
            elif o[0] == "place" and o[1][0] == 1 and lc.deref_fields(o[1]) == ["bytes_written"]:
                srcs.append("bytes_written")
            else:
                srcs.append("?")
        ok = sorted(srcs) == ["bytes_written", "position"]
        if ok:
            r = mir.origin(ab, ["c", [mir.RET, []]])
        ok = ok and not [c for c in mir.calls(ab) if not c.callee.endswith("Context::position")]
    ctx.ob("P-ABS", K(ab, "position+bytes_written"), ok, "abs_pos = ctxt.position() + bytes_written", ab.where)
    pb = ctx.one(f.find(name="prep_serialize_basic", adt=lc.SER_COMMON, trait=""), "SerializerCommon::prep_serialize_basic")
    pcs = [c for c in mir.calls(pb) if c.callee.endswith("::add_padding")]
    ok = len(pcs) == 1 and lc.self_path(pb, pcs[0].args[0]) == []
    if ok:
        src = lc.align_source(f, pb, pcs[0].args[1])
        ok = src == ("basic", "T")
        o = mir.origin(pb, pcs[0].args[1])
        fo = mir.origin(pb, o[1].args[0]) if o[0] == "call" and o[1].args else ("?",)
        ok = ok and fo[0] == "call" and fo[1].callee.endswith("Context::format") and lc.self_path(pb, fo[1].args[0]) == ["ctxt"]
        ok = ok and not lc.ok_exits_from(pb, [0], avoid={pcs[0].b})
    ctx.ob("P-ABS", K(pb, "pads-to-T::alignment(format)"), ok,
           "prep_serialize_basic::<T> pads self to <T as Basic>::alignment(self.ctxt.format()) on every success path", pb.where)


# ============================================================================================ P-PATCH
END_TRAITS = ["SerializeSeq", "SerializeMap", "SerializeTuple", "SerializeTupleStruct", "SerializeTupleVariant",
              "SerializeStruct", "SerializeStructVariant"]


returns_call = lc.returns_call


def p_patch(ctx, f):
    es = ctx.one(f.find(name="end_seq", adt="zvariant::dbus::ser::SeqSerializer", trait=""), "dbus SeqSerializer::end_seq")
    seeks = [c for c in mir.calls(es) if c.c.get("fn") == "std::io::Seek::seek"]
    ws = [c for c in mir.calls(es) if lc.write_kind(c)]
    ok = len(seeks) == 2 and len(ws) == 1
    ctx.ob("P-PATCH", K(es, "shape"), ok, "two seeks and one write (%d/%d)" % (len(seeks), len(ws)), es.where)
    if ok:
        w = ws[0]
        first = [s for s in seeks if lc.always_preceded(es, w.b, {s.b})]
        last = [s for s in seeks if lc.always_preceded(es, s.b, {w.b})]
        ctx.ob("P-PATCH", K(es, "order:seek-write-seek"), len(first) == 1 and len(last) == 1 and first[0] is not last[0] and
               lc.always_followed(es, w.b, {last[0].b}),
               "seek back -> write length -> seek forward on every success path", w.where)
        for c in seeks + [w]:
            p = lc.place_of(es, c.args[0])
            fs = lc.deref_fields(p) if p else []
            ctx.ob("P-PATCH", K(es, "inner-writer:" + c.callee.rsplit("::", 1)[1]), fs[-1:] == ["writer"] and not lc.is_counting_writer(c),
                   "back-patching uses the inner writer `.writer` (not counted in bytes_written): %s" % ".".join(fs), c.where)
        for c in seeks:
            o = mir.origin(es, c.args[1])
            ctx.ob("P-PATCH", K(es, "seek-relative:" + ("back" if c in first else "forward")),
                   o[0] == "rv" and o[1][0] == "agg" and o[1][2] == "std::io::SeekFrom" and o[1][3] == "Current",
                   "seek offset is SeekFrom::Current(..)", c.where)
        wk = lc.write_kind(w)
        vo = mir.origin(es, w.args[2]) if len(w.args) == 3 else ("?",)
        okv = wk[1] == "write_u32" and vo[0] == "call" and vo[1].callee == "zvariant::utils::usize_to_u32"
        if okv:
            # the narrowed value derives from a subtraction of `start` from `bytes_written`
            src = mir.origin(es, vo[1].args[0])
            l = mir.root_local(es, vo[1].args[0])
            okv = False
            for d in mir.defs_of(es, l):
                if d[0] == "assign" and d[4][0] == "use":
                    pl = mir.op_place(d[4][1])
                    sd = mir.single_def(es, pl[0]) if pl else None
                    if sd and sd[0] == "assign" and sd[4][0] == "bin" and sd[4][1] in ("Sub", "SubWithOverflow"):
                        okv = lc.reads_field(es, sd[4][2], "bytes_written") and lc.reads_field(es, sd[4][3], "start")
        ctx.ob("P-PATCH", K(es, "length-value"), okv and endian_ok(es, w.args[1], ["ser", "0"]),
               "patched value is usize_to_u32(bytes_written - start) in the context's byte order", w.where)
    # end() routing
    table = {
        "zvariant::dbus::ser::SeqSerializer": {None: ["end_seq"]},
        "zvariant::dbus::ser::MapSerializer": {None: ["end_seq"]},
        "zvariant::dbus::ser::StructSerializer": {None: ["end_struct"]},
        "zvariant::dbus::ser::StructSeqSerializer": {"Struct": ["end_struct"], "Seq": ["end_seq"], "Map": ["end_seq", "SerializeMap>::end"]},
    }
    n = 0
    for tr in END_TRAITS:
        for adt, rows in table.items():
            for b in f.find(name="end", adt=adt, trait="serde_core::ser::" + tr):
                n += 1
                if None in rows:
                    cs = [c for c in mir.calls(b) if any(c.callee.endswith(x) for x in rows[None])]
                    ok = len(cs) >= 1 and all(returns_call(b, c) for c in cs) and not lc.ok_exits_from(b, [0], avoid={c.b for c in cs})
                    if ok:
                        p = lc.self_path(b, cs[0].args[0])
                        ok = p == ([] if "Map" not in adt else ["seq"])
                    ctx.ob("P-PATCH", K(b, "routes-to:" + rows[None][0]), ok,
                           "%s::end returns %s(self%s)" % (adt.rsplit("::", 1)[1], rows[None][0], ".seq" if "Map" in adt else ""), b.where)
                    continue
                sw = [s for s in mir.discr_switches(b, f, None) if s[2] == adt]
                if len(sw) != 1:
                    ctx.ob("P-PATCH", K(b, "match-on-self"), False, "no single match on the StructSeqSerializer variant", b.where)
                    continue
                sb, place, a_, arms, other = sw[0]
                for v in [x["name"] for x in f.adts[adt]["variants"]]:
                    tgt = arms.get(v, other)
                    reg = mir.reachable(b, [tgt], avoid={sb})
                    rets = [x for x in reg if mir.term(b, x)[0] == "ret"]
                    cs = [c for c in mir.calls(b) if c.b in reg and mir.block_dominates(b, tgt, c.b) and
                          any(c.callee.endswith(x) for x in rows[v])]
                    if not rets and v == "Map":
                        ctx.ob("P-PATCH", K(b, "arm:" + v), True, "Map arm diverges (unreachable!)", b.where)
                        continue
                    ok = bool(cs) and all(returns_call(b, c) for c in cs) and not [
                        r for r in mir.reachable(b, [tgt], avoid={sb} | {c.b for c in cs}) if mir.term(b, r)[0] == "ret"]
                    if ok:
                        p = lc.place_of(b, cs[0].args[0])
                        ok = p is not None and p[0] == 1 and any(isinstance(q, list) and q[0] == "as" and q[1] == v for q in p[1])
                    ctx.ob("P-PATCH", K(b, "arm:" + v), ok,
                           "variant %s finishes through %s on its payload" % (v, "/".join(rows[v])), b.where)
    ctx.floor("P-PATCH", "end() impls of the D-Bus compound serializers", n, 12)


# ============================================================================================ SIZE / COUNT / FD
def pass_summary(ctx, f, fn):
    """per serializer ADT: (new callee, serialize callee, wiring flags)"""
    out = {}
    sers = [c for c in mir.calls(fn) if c.c.get("fn") == "serde_core::ser::Serialize::serialize"]
    for z in sers:
        so = mir.origin(fn, z.args[1])
        if so[0] != "ref" or so[1][1]:
            continue
        sl = so[1][0]
        vs = value_source(fn, ["c", [sl, []]], None)
        if vs[0] != "call":
            continue
        nw = vs[1]
        adt = nw.callee.split("::<")[0]
        val_ok = mir.origin(fn, z.args[0])
        # len <- <ser>.0.bytes_written
        lens = [(pl[0], b) for b, i, pl, rv, ln in mir.assignments(fn) if rv[0] == "use" and mir.op_place(rv[1]) is not None and
                mir.op_place(rv[1])[0] == sl and lc.deref_fields(mir.op_place(rv[1])) == ["0", "bytes_written"] and not pl[1]]
        out[adt] = {"new": nw, "ser": z, "ser_local": sl, "len": lens, "value_arg": val_ok}
    return out


def size_rule(ctx, f, tag=""):
    ss = ctx.one([b for b in f.all_bodies("zvariant") if b.id == "zvariant::ser::serialized_size"], "serialized_size")
    tw = ctx.one([b for b in f.all_bodies("zvariant") if b.id == "zvariant::ser::to_writer_for_signature"], "to_writer_for_signature")
    A, B = pass_summary(ctx, f, ss), pass_summary(ctx, f, tw)
    ctx.ob("SIZE", tag + "same-serializers", set(A) == set(B) and lc.DBUS_SER in A,
           "size pass builds %s, write pass builds %s" % (sorted(A), sorted(B)), ss.where)
    fmt_variants = [v["name"] for v in f.adts[lc.FORMAT]["variants"]]
    ctx.ob("SIZE", tag + "one-serializer-per-format", len(A) == len(fmt_variants) == len(B),
           "%d format(s), %d/%d serializer constructions" % (len(fmt_variants), len(A), len(B)), ss.where)
    for adt in sorted(set(A) & set(B)):
        a, b = A[adt], B[adt]
        nm = adt.replace("zvariant::", "")
        ctx.ob("SIZE", tag + nm + ":same-new", a["new"].c.get("fn") == b["new"].c.get("fn"),
               "both passes construct through %s" % a["new"].c.get("fn"), a["new"].where)
        ctx.ob("SIZE", tag + nm + ":same-serialize", a["ser"].c.get("fn") == b["ser"].c.get("fn"), "both call Serialize::serialize", a["ser"].where)
        for fn, s, who in ((ss, a, "size"), (tw, b, "write")):
            vo = s["value_arg"]
            argn = fn.d["argc"]
            ctx.ob("SIZE", tag + nm + ":" + who + ":serializes-value", vo[0] in ("place", "ref") and vo[1][0] == argn,
                   "the `value` argument is what gets serialized", s["ser"].where)
            # length local <- ser.0.bytes_written, read after serialize succeeded, and it is what reaches Size::new / Written::new
            ctor = [c for c in mir.calls(fn) if c.callee in ("zvariant::serialized::size::Size::new", "zvariant::serialized::written::Written::new")]
            ok = len(ctor) == 1 and bool(s["len"])
            if ok:
                ll = mir.root_local(fn, ctor[0].args[0])
                ok = all(l == ll for l, _ in s["len"]) and all(lc.always_preceded(fn, b_, {s["ser"].b}) for _, b_ in s["len"])
                # every definition of the length local is such a read
                ok = ok and all(d[0] == "assign" and d[4][0] == "use" and lc.reads_field(fn, d[4][1], "bytes_written")
                                for d in mir.defs_of(fn, ll))
            ctx.ob("SIZE", tag + nm + ":" + who + ":len-is-bytes_written", ok,
                   "reported length is the serializer's bytes_written after serialize", fn.where)
            # fds wiring: the FdList whose &mut goes to new() is the one inspected afterwards
            fo = mir.origin(fn, s["new"].args[2]) if len(s["new"].args) > 2 else ("?",)
            want = "Number" if who == "size" else "Fds"
            ok = fo[0] == "ref" and not fo[1][1]
            if ok:
                fl = fo[1][0]
                inits = [d for d in mir.defs_of(fn, fl) if d[0] == "assign" and not d[3][1]]
                ok = len(inits) == 1 and inits[0][4][0] == "agg" and inits[0][4][2] == "zvariant::ser::FdList" and inits[0][4][3] == want
                if ok and want == "Number":
                    k = mir.resolve_const(fn, inits[0][4][4][0])
                    ok = k is not None and k.get("v") == 0
                setter = [c for c in mir.calls(fn) if c.is_("set_num_fds", "set_fds")]
                ok = ok and len(setter) == 1
                if ok:
                    po = lc.place_of(fn, setter[0].args[1])
                    # through the named binding `n` / `fds`
                    if po is not None and not po[1]:
                        d = mir.defs_of(fn, po[0])
                        if len(d) == 1 and d[0][0] == "assign" and d[0][4][0] == "use" and mir.op_place(d[0][4][1]):
                            po = mir.op_place(d[0][4][1])
                    ok = po is not None and po[0] == fl and any(isinstance(q, list) and q[0] == "as" and q[1] == want for q in po[1])
                    ok = ok and returns_call(fn, setter[0])
            ctx.ob("SIZE", tag + nm + ":" + who + ":fds-wiring", ok,
                   "FdList::%s passed to the serializer is the one reported" % want, fn.where)
    nw = ctx.one(f.find(name="write", adt="zvariant::ser::NullWriteSeek", trait="std::io::Write"), "NullWriteSeek::write")
    rets = [rv for b, i, pl, rv, ln in mir.assignments(nw) if pl == [mir.RET, []]]
    ok = len(rets) == 1 and rets[0][0] == "agg" and rets[0][3] == "Ok" and len_of_arg(nw, rets[0][4][0], 2)
    ctx.ob("SIZE", tag + "NullWriteSeek::write-returns-buf.len()", ok, "the null writer reports every byte as written", nw.where)


def count_rule(ctx, f, tag=""):
    wr = ctx.one(f.find(name="write", adt=lc.SER_COMMON, trait="std::io::Write"), "<SerializerCommon as Write>::write")
    n = 0
    for b in f.all_bodies("zvariant"):
        for bi, i, pl, rv, ln in mir.assignments(b):
            where = "%s:%d" % (b.file, ln)
            root = f.bodies.get(b.root, b)
            last = pl[1][-1] if pl[1] else None
            if isinstance(last, list) and last[0] == "." and last[2] == "bytes_written" and last[3] == lc.SER_COMMON:
                n += 1
                ok = rv[0] == "use" and lc.reads_field(b, rv[1], "bytes_written")
                ctx.ob("COUNT", tag + K(root, "store"), ok,
                       "store to bytes_written copies another serializer's bytes_written" if ok else
                       "bytes_written assigned from something that is not a bytes_written", where)
            if rv[0] == "ref" and rv[1] not in ("shared", "Shared", "fake") and rv[2][1]:
                l2 = rv[2][1][-1]
                if isinstance(l2, list) and l2[0] == "." and l2[2] == "bytes_written" and l2[3] == lc.SER_COMMON:
                    n += 1
                    ctx.ob("COUNT", tag + K(root, "mut-borrow"), root.id == wr.id,
                           "mutable borrow of bytes_written %s" % ("in the counting Write::write" if root.id == wr.id else "outside Write::write"), where)
            if rv[0] == "agg" and rv[1] == "adt" and rv[2] == lc.SER_COMMON and "bytes_written" in (rv[5] or []):
                n += 1
                op = rv[4][rv[5].index("bytes_written")]
                k = mir.resolve_const(b, op)
                if k is not None:
                    ok = k.get("v") == 0 and b.name == "new"
                    why = "initialised to %s in %s" % (k.get("v"), b.name)
                else:
                    ok = lc.reads_field(b, op, "bytes_written")
                    why = "sub-serializer starts at the parent's bytes_written" if ok else "sub-serializer's bytes_written from an unrelated value"
                ctx.ob("COUNT", tag + K(root, "construct"), ok, why, where)
    ctx.floor("COUNT", tag + "writers of SerializerCommon.bytes_written", n, 4)
    # a sub-serializer of the D-Bus writer continues the parent's stream: same context, writer, fd list
    m = 0
    for b in f.all_bodies("zvariant"):
        if b.file != "zvariant/src/dbus/ser.rs" or b.name == "new":
            continue
        for bi, i, pl, rv, ln in mir.assignments(b):
            if rv[0] == "agg" and rv[1] == "adt" and rv[2] == lc.SER_COMMON:
                m += 1
                bad = [fld for fld in ("ctxt", "writer", "fds") if fld in (rv[5] or []) and
                       not lc.reads_field(b, rv[4][rv[5].index(fld)], fld)]
                ctx.ob("COUNT", tag + K(f.bodies.get(b.root, b), "sub-serializer-shares-stream"), not bad,
                       "sub-serializer takes ctxt/writer/fds from the parent" if not bad else
                       "sub-serializer's %s do(es) not come from the parent's field of that name" % bad, "%s:%d" % (b.file, ln))
    ctx.floor("COUNT", tag + "sub-serializers built in dbus/ser.rs", m, 1)
    # the counting write: inner.write(buf) result inspected by `+= n`
    inner = [c for c in mir.calls(wr) if c.c.get("fn") == "std::io::Write::write"]
    ok = len(inner) == 1
    if ok:
        p = lc.place_of(wr, inner[0].args[0])
        b2 = mir.origin(wr, inner[0].args[1])
        ok = p is not None and p[0] == 1 and lc.deref_fields(p) == ["writer"] and b2[0] in ("place", "ref") and b2[1][0] == 2
    ctx.ob("COUNT", tag + K(wr, "forwards-to-inner-writer"), ok, "self.writer.write(buf) is the only byte sink", wr.where)
    insp = [c for c in mir.calls(wr) if c.is_("inspect")]
    ok2 = ok and len(insp) == 1 and mir.origin(wr, insp[0].args[0])[0] == "call" and mir.origin(wr, insp[0].args[0])[1] is not None and \
        mir.origin(wr, insp[0].args[0])[1].b == inner[0].b and returns_call(wr, insp[0])
    ctx.ob("COUNT", tag + K(wr, "returns-inner-result"), ok2, "the inner writer's Result<usize> is returned (inspected, not mapped)", wr.where)
    cl = [b for b in f.children.get(wr.id, []) if b.kind == "Closure"]
    cl = ctx.one(cl, "closure of <SerializerCommon as Write>::write")
    stores = [(pl, rv) for bi, i, pl, rv, ln in mir.assignments(cl) if pl[0] == 1 and pl[1]]
    ok3 = len(stores) == 1
    if ok3:
        pl, rv = stores[0]
        src = mir.op_place(rv[1]) if rv[0] == "use" else None
        sd = mir.single_def(cl, src[0]) if src else None
        ok3 = bool(sd and sd[0] == "assign" and sd[4][0] == "bin" and sd[4][1] in ("Add", "AddWithOverflow"))
        if ok3:
            a, b_ = sd[4][2], sd[4][3]
            pa, pb = mir.op_place(a), lc.place_of(cl, b_)
            ok3 = pa == pl and pb is not None and pb[0] == 2
    ctx.ob("COUNT", tag + K(wr, "adds-written-count"), ok3, "bytes_written += n where n is the count returned by the inner writer", cl.where)


def fd_rule(ctx, f):
    b = ctx.one(f.find(name="add_fd", adt=lc.SER_COMMON, trait=""), "SerializerCommon::add_fd")
    sw = [s for s in mir.discr_switches(b, f, None) if s[2] == "zvariant::ser::FdList"]
    sw = ctx.one(sw, "match on FdList in add_fd")
    sb, place, adt, arms, other = sw
    oks = [(bi, i, rv, ln) for bi, i, pl, rv, ln in mir.assignments(b) if pl == [mir.RET, []] and rv[0] == "agg" and rv[3] == "Ok"]
    seen = {"Number": 0, "Fds": 0}
    for bi, i, rv, ln in oks:
        arm = None
        for v in ("Number", "Fds"):
            t = arms.get(v)
            if t is not None and mir.block_dominates(b, t, bi):
                arm = v
        where = "%s:%d" % (b.file, ln)
        if arm is None:
            ctx.ob("FD", K(b, "ok-outside-arms"), False, "Ok(..) returned outside the FdList arms", where)
            continue
        seen[arm] += 1
        vs = value_source(b, rv[4][0], None)
        if arm == "Number":
            # idx = *n read before (*n) = *n + 1
            src = mir.origin(b, rv[4][0])
            def _is_number_payload(pl):
                if any(isinstance(q, list) and q[0] == "as" and q[1] == "Number" for q in pl[1]):
                    return True
                if pl[1] == ["*"]:
                    refs = [d for d in mir.defs_of(b, pl[0]) if d[0] == "assign" and not d[3][1] and d[4][0] == "ref"]
                    return len(refs) == 1 and any(isinstance(q, list) and q[0] == "as" and q[1] == "Number" for q in refs[0][4][2][1])
                return False
            ok = src[0] == "place" and _is_number_payload(src[1])
            reads = [(x, j) for x, j, pl, r2, l2 in mir.assignments(b) if not pl[1] and mir.local_name(b, pl[0]) is not None and
                     r2[0] == "use" and mir.op_place(r2[1]) is not None and mir.op_place(r2[1])[1] == ["*"] and
                     mir.root_local(b, rv[4][0]) == pl[0]]
            incs = [(x, j, r2) for x, j, pl, r2, l2 in mir.assignments(b) if pl[1] == ["*"] and mir.block_dominates(b, arms["Number"], x)]
            ok = ok and len(reads) == 1 and len(incs) == 1
            if ok:
                ok = mir.dominates(b, reads[0], (incs[0][0], incs[0][1])) and lc.always_preceded(b, bi, {incs[0][0]}) or \
                    (mir.dominates(b, reads[0], (incs[0][0], incs[0][1])) and incs[0][0] == bi)
                src2 = mir.op_place(incs[0][2][1]) if incs[0][2][0] == "use" else None
                sd = mir.single_def(b, src2[0]) if src2 else None
                step = None
                if sd and sd[0] == "assign" and sd[4][0] == "bin" and sd[4][1] in ("Add", "AddWithOverflow"):
                    k = mir.resolve_const(b, sd[4][3]) or mir.resolve_const(b, sd[4][2])
                    step = k.get("v") if k else None
                ok = ok and step == 1
            ctx.ob("FD", K(b, "Number:returns-pre-increment-counter"), ok,
                   "size pass: returns the counter read before `*n += 1` (step 1)", where)
        else:
            ob = mir.origin_base(b, rv[4][0])
            # strip the `as u32` cast
            o = mir.origin(b, rv[4][0])
            if o[0] == "rv" and o[1][0] == "cast":
                ob = mir.origin_base(b, o[1][2])
            pushes = [c for c in mir.calls(b) if c.is_("push") and "Vec" in c.callee]
            if ob[0] == "call" and ob[1].is_("position"):
                ok = not any(lc.always_preceded(b, bi, {p.b}) or p.b in mir.reachable(b, [0], avoid=set()) and
                             bi in mir.reachable(b, lc.after(b, p.b)) for p in pushes)
                ctx.ob("FD", K(b, "Fds:existing-fd-returns-its-position"), ok,
                       "an fd already in the list returns its position and pushes nothing", where)
            elif ob[0] == "call" and ob[1].is_("len"):
                ok = len(pushes) == 1 and lc.always_preceded(b, pushes[0].b, {ob[1].b}) and lc.always_preceded(b, bi, {pushes[0].b})
                ctx.ob("FD", K(b, "Fds:new-fd-returns-len-before-push"), ok,
                       "a new fd returns fds.len() taken before the push", where)
            else:
                ctx.ob("FD", K(b, "Fds:unknown-index-source"), False, "index returned from %s" % (ob[0],), where)
    ctx.ob("FD", K(b, "arms-return"), seen["Number"] == 1 and seen["Fds"] == 2,
           "Number arm has 1 Ok return, Fds arm 2 (%s)" % seen, b.where)


# ============================================================================================ W-ALL
def w_all(ctx, f, tag="", files=SER_FILES, floor=20):
    n = 0
    wr = f.find(name="write", adt=lc.SER_COMMON, trait="std::io::Write")
    fwd = {b.id for b in wr}
    for b in f.all_bodies("zvariant"):
        if b.file not in files:
            continue
        for c in mir.calls(b):
            wk = lc.write_kind(c)
            if not wk:
                continue
            n += 1
            if wk[0] == "io" and wk[1] in ("write", "write_vectored") and b.root not in fwd:
                root = f.bodies.get(b.root, b)
                ctx.ob("W-ALL", tag + K(root, wk[1]), False,
                       "bytes emitted with the short-writing std::io::Write::%s (result %s)" % (
                           wk[1], "discarded" if True else ""), c.where)
    ctx.floor("W-ALL", tag + "write call sites in the serializer modules", n, floor)



def raw_writer_rule(ctx, f, tag=""):
    """COUNT:raw-writer (added after seeded change C01): bytes must reach the underlying writer only through the
    counting `impl Write for SerializerCommon` — padding of every later field and every back-patched length are
    computed from `bytes_written`. The inner `.writer` field may be used directly only by that impl itself
    (write/flush) and by the back-patch of `end_seq`, which seeks back, overwrites the length and seeks forward again
    (net position change 0; P-PATCH decides that shape)."""
    allowed = {
        "<zvariant::ser::SerializerCommon<'_, W> as std::io::Write>::write": "the counting write itself",
        "<zvariant::ser::SerializerCommon<'_, W> as std::io::Write>::flush": "flush",
        "zvariant::dbus::ser::SeqSerializer::<'_, '_, W>::end_seq": "back-patch: seek / write_u32 / seek (P-PATCH)",
    }
    n = 0
    for b in f.all_bodies("zvariant"):
        for c in mir.calls(b):
            if not c.args:
                continue
            o = mir.origin(b, c.args[0])
            if o[0] not in ("place", "ref"):
                continue
            pr = [p for p in o[1][1] if isinstance(p, list) and p[0] == "." and p[2] == "writer" and p[3] == lc.SER_COMMON]
            if not pr:
                continue
            n += 1
            ok = b.root in allowed
            if ok and b.root.endswith("end_seq") and c.callee.rsplit("::", 1)[-1] not in ("seek", "write_u32", "stream_position"):
                ok = False
            ctx.ob("COUNT", tag + "raw-writer:%s:%s" % (lc.short(b), c.callee.rsplit("::", 1)[-1]), ok,
                   allowed.get(b.root, "") if ok else
                   "%s is called on the inner `.writer` directly: the bytes are emitted but `bytes_written` does not advance, so later padding, "
                   "array lengths and the reported size are computed from a stale position" % c.callee, c.where)
    ctx.floor("COUNT", tag + "direct uses of SerializerCommon.writer", n, 3)


def run(ctx):
    ctx.explanation = ("R-TABLE/R-ORDER/R-WHO rules over the MIR of zvariant's D-Bus serializer (K1, plus K2 for the "
                       "who-writes rules): alignment table and constants vs the transcribed D-Bus marshalling table, per-type "
                       "write width/class/byte order, string prefix width + terminator, padding before every write with the "
                       "confirmed alignment source, array length back-patch order on the inner writer, end() routing, "
                       "size-pass/write-pass sibling agreement, bytes_written writer set, fd index accounting, no short-writing "
                       "Write::write.")
    ctx.not_decided = ("arithmetic of the back-patched array length and of padding_for_n_bytes; the char->Signature table of "
                       "impl_type! (const bodies not in the facts); value-dependent paths inside third-party Serialize impls; "
                       "endi's write_* (trusted to call write_all).")
    f = ctx.facts("K1")
    spec = lc.load_spec(ctx)
    t_align(ctx, f, spec)
    t_width(ctx, f, spec)
    t_str(ctx, f, spec)
    t_len(ctx, f)
    p_pad(ctx, f, spec)
    p_abs(ctx, f)
    p_patch(ctx, f)
    size_rule(ctx, f)
    count_rule(ctx, f)
    raw_writer_rule(ctx, f)
    fd_rule(ctx, f)
    w_all(ctx, f)
    f2 = ctx.facts("K2")
    t_align(ctx, f2, spec, "K2:")
    size_rule(ctx, f2, "K2:")
    count_rule(ctx, f2, "K2:")
    raw_writer_rule(ctx, f2, "K2:")
    w_all(ctx, f2, "K2:", files=GV_FILES, floor=8)
