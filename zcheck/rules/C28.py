"""C28 — The Properties interface behaves as the property definitions say (DESIGN §5.C28).

Library side (zbus/src/fdo/properties.rs, K1; K3 in the thorough tier) — handlers of org.freedesktop.DBus.Properties:
  P-TABLE     in each of Properties::{get,set,get_all}: the node / interface lookup (Node::get_child … interface_lock)
              maps `None` to fdo::Error::UnknownInterface and that error leaves before the interface is used; the node
              looked up is the one named by the call's path. get: `None` from Interface::get becomes UnknownProperty.
              set: Interface::set → NotFound ⇒ every path to return builds UnknownProperty (returned as Err),
              RequiresMut ⇒ every path goes through Interface::set_mut, Async ⇒ the
              carried future is awaited and set_mut is not reached; `None` from Interface::set_mut ⇒ UnknownProperty.
              get_all: what Interface::get_all returned is what the handler returns.
Generated code (#[interface] expansions; the fdo interfaces of K1 have no properties and are only checked for that,
the fixtures with properties are in K4 = thorough tier or ZCHECK_K4=1, K4 costs 95-160 s to extract) — the property table
{name: access, EmitsChangedSignal} is read from the literal pieces of the generated introspection writer and is the
oracle ("as its annotation says"):
  P-ACCESS    names matched by `get` = keys inserted by `get_all` = properties advertised readable; names matched by
              `set` = properties advertised writable; names `set` answers RequiresMut = names matched by `set_mut`;
              unmatched names give None / NotFound; no name twice.
  P-GET       each `get` arm calls exactly one getter and returns Some(value derived from it); `get_all` inserts under
              key N the value of the same getter the `get` arm for N calls.
  P-SET       each setter arm: exactly one setter call on the conversion-success path, receiving the converted
              value; every conversion-failure edge returns Err without reaching the setter or an emission (R-COUNT).
  P-EMIT      each setter arm, on every path from the setter call to return that does not take the setter's Err
              edge: annotation true ⇒ exactly one call of the generated emitter that sends PropertiesChanged with
              {N: value of N's getter} and no invalidated names; invalidates ⇒ exactly one call of the emitter that
              sends an empty map and invalidated = [N]; false / const ⇒ no emission call (R-COUNT). Emitters are
              classified by what their body passes to Properties::properties_changed (and must name the interface);
              no emitter serves the setters of two properties. (Where the extractor could not evaluate the element
              of the promoted `&[N]`, the invalidating emitter is accepted by shape and by that exclusivity.)

Not decided / dropped: run-time values (that the getter returns what the setter stored); wrongly-typed values beyond
"conversion failure ⇒ Err, setter not run" (the conversions themselves are zvariant's, C08); interfaces the repository
does not contain; the proxy side (C31).
"""
from .. import mir
from .. import lib_iface as L

META = {
    "technique": "MIR switch-table extraction, sibling tables against the generated introspection data, path counting",
    "level": ("Decides the error arms of the fdo Properties handlers and, for every #[interface] expansion with properties "
              "compiled in the repository, that get/get_all/set/set_mut answer exactly the advertised readable/writable "
              "names and that each generated setter arm converts, calls the setter once and then emits exactly what the "
              "advertised EmitsChangedSignal annotation names. Run-time values and interfaces outside the repository are not decided."),
}

PROPS = "zbus::fdo::properties::Properties"
PROPS_CHANGED = PROPS + "::properties_changed"
NODE_GET_CHILD = "zbus::object_server::node::Node::get_child"
NODE_IFACE_LOCK = "zbus::object_server::node::Node::interface_lock"
CONVERSIONS = ("try_into", "try_from", "try_to_owned", "try_clone")


def short(callee):
    return callee.rsplit("::", 1)[-1]


def edge_dominates(body, sb, target, blk):
    if target is None:
        return False
    return mir.preds(body)[target] == [sb] and mir.block_dominates(body, target, blk)


def no_return_avoiding(body, start, avoid):
    if start is None:
        return True
    r = mir.reachable(body, [start], avoid=avoid)
    return not [e for e in mir.exits(body) if e in r]


# =========================================================================================== library side
def handler_coroutine(ctx, f, name, tag):
    root = "%s::%s" % (PROPS, name)
    ks = [b for b in f.children.get(root, []) if b.crate == "zbus" and b.kind == "coroutine" and
          (b.d.get("parent") == root or b.id == root + "::{closure#0}")]
    return ctx.one(ks, tag + "coroutine of fdo::Properties::" + name)


def check_lookup(ctx, f, body, name, tag, iface_calls):
    """UnknownInterface arm of one handler"""
    sinks = {c.b for c in iface_calls}
    n = 0
    for nh in L.none_handlers(f, body):
        src, closures, vs = nh.src, nh.closures, nh.errors
        if src is None or not (src.callee in (NODE_GET_CHILD, NODE_IFACE_LOCK)):
            continue
        inner = L.calls_inside(f, "zbus", closures)
        chain = {src.callee} | {x.callee for x in inner if x.callee in (NODE_GET_CHILD, NODE_IFACE_LOCK)}
        # a nested lookup (`node` from get_child, then interface_lock on it) also counts as one chain
        if src.callee == NODE_IFACE_LOCK and src.args:
            up = L.value_source(f, body, src.args[0])
            if up is not None and up.callee == NODE_GET_CHILD:
                chain.add(NODE_GET_CHILD)
        if NODE_IFACE_LOCK not in chain:
            continue
        n += 1
        names = {v for adt, v in vs if adt == L.FDO_ERROR}
        other = {(a, v) for a, v in vs if a != L.FDO_ERROR}
        ctx.ob("P-TABLE", tag + "%s:lookup->UnknownInterface" % name, names == {"UnknownInterface"} and not other,
               "a missing node/interface is reported as %s" % (sorted(names | {"%s::%s" % x for x in other}) or "nothing"), nh.where)
        # the node is the one the call's path names
        gcs = [x for x in mir.calls(body) if x.callee == NODE_GET_CHILD]
        okp = False
        for gc in gcs:
            if len(gc.args) > 1:
                p = L.value_source(f, body, gc.args[1])
                while p is not None and p.is_("ok_or", "ok_or_else", "unwrap", "expect") and p.args:
                    p = L.value_source(f, body, p.args[0])
                okp = p is not None and p.is_("Header::<'m>::path", "Header::path")
        ctx.ob("P-TABLE", tag + "%s:node-is-call-path" % name, okp and len(gcs) == 1,
               "the node is looked up with the path of the call's header" if okp else "the node is not looked up by the call's path", nh.where)
        okl = False
        if nh.fail_start is not None:
            reach = mir.reachable(body, [nh.fail_start])
            okl = not (reach & sinks) and bool([e for e in mir.exits(body) if e in reach])
        ctx.ob("P-TABLE", tag + "%s:lookup-failure-leaves" % name, okl,
               "the UnknownInterface edge returns before any Interface method is called" if okl else
               "the lookup error does not leave the handler before the interface is used", nh.where)
    ctx.floor("P-TABLE", tag + "interface lookups in Properties::" + name, n, 1)


def unknown_property_on_none(ctx, f, body, name, src_call, tag):
    hs = [(nh, nh.errors) for nh in L.none_handlers(f, body) if nh.src is src_call]
    ctx.ob("P-TABLE", tag + "%s:None-from-%s-handled" % (name, short(src_call.declared)), len(hs) == 1,
           "%d site(s) map a None from Interface::%s to an error" % (len(hs), short(src_call.declared)), src_call.where)
    for c, vs in hs:
        names = {v for adt, v in vs if adt == L.FDO_ERROR}
        wraps = {v for adt, v in vs if adt == "core::result::Result"}
        other = {(a, v) for a, v in vs if a not in (L.FDO_ERROR, "core::result::Result")}
        ok = names == {"UnknownProperty"} and not other and wraps <= {"Err"}
        ctx.ob("P-TABLE", tag + "%s:None-from-%s->UnknownProperty" % (name, short(src_call.declared)), ok,
               "an interface without that property yields %s" % (sorted(names) or "nothing"), c.where)


def library(ctx, f, tag):
    # ---- get
    g = handler_coroutine(ctx, f, "get", tag)
    ic = [c for c in mir.calls(g) if c.declared.startswith(L.IFACE_TRAIT + "::")]
    gets = [c for c in ic if c.declared == L.IFACE_TRAIT + "::get"]
    ctx.ob("P-TABLE", tag + "get:calls-Interface::get-once", len(gets) == 1 and len(ic) == 1,
           "Interface methods called by Properties::get: %s" % [short(c.declared) for c in ic], g.where)
    check_lookup(ctx, f, g, "get", tag, ic)
    if len(gets) == 1:
        unknown_property_on_none(ctx, f, g, "get", gets[0], tag)
    # ---- get_all
    ga = handler_coroutine(ctx, f, "get_all", tag)
    ic = [c for c in mir.calls(ga) if c.declared.startswith(L.IFACE_TRAIT + "::")]
    gas = [c for c in ic if c.declared == L.IFACE_TRAIT + "::get_all"]
    ctx.ob("P-TABLE", tag + "get_all:calls-Interface::get_all-once", len(gas) == 1 and len(ic) == 1,
           "Interface methods called by Properties::get_all: %s" % [short(c.declared) for c in ic], ga.where)
    check_lookup(ctx, f, ga, "get_all", tag, ic)
    if len(gas) == 1:
        der = mir.derives(ga, {gas[0].dest[0]})
        ok = False
        for b, i, pl, rv, ln in mir.assignments(ga):
            if pl[0] == mir.RET and not pl[1] and rv[0] == "agg" and rv[2] == "core::result::Result" and rv[3] == "Ok" \
                    and any(l in der for op in rv[4] for l in mir.operand_locals(op)):
                ok = True
        ctx.ob("P-TABLE", tag + "get_all:returns-interface-result", ok,
               "Ok(value) returned by Properties::get_all derives from Interface::get_all" if ok else
               "Properties::get_all does not return what Interface::get_all produced", gas[0].where)
    # ---- set
    s = handler_coroutine(ctx, f, "set", tag)
    calls = mir.calls(s)
    ic = [c for c in calls if c.declared.startswith(L.IFACE_TRAIT + "::")]
    c_set = [c for c in ic if c.declared == L.IFACE_TRAIT + "::set"]
    c_mut = [c for c in ic if c.declared == L.IFACE_TRAIT + "::set_mut"]
    ctx.ob("P-TABLE", tag + "set:calls-set-and-set_mut-once", len(c_set) == 1 and len(c_mut) == 1 and len(ic) == 2,
           "Interface methods called by Properties::set: %s" % [short(c.declared) for c in ic], s.where)
    check_lookup(ctx, f, s, "set", tag, ic)
    if len(c_set) != 1 or len(c_mut) != 1:
        return
    c_set, c_mut = c_set[0], c_mut[0]
    unknown_property_on_none(ctx, f, s, "set", c_mut, tag)
    up = {b for b, v, rv, ln in L.adt_aggs(s, L.FDO_ERROR) if v == "UnknownProperty"}
    sw = None
    for sb, pl, adt, arms, oth in mir.discr_switches(s, f, L.DISPATCH_RESULT):
        if L.value_source(f, s, ["c", [pl[0], []]]) is c_set:
            sw = (sb, pl, arms, oth)
    ctx.ob("P-TABLE", tag + "set:switch-on-set-result", sw is not None,
           "the DispatchResult of Interface::set is matched" if sw else "no match on the result of Interface::set", c_set.where)
    if sw is None:
        return
    sb, pl, arms, oth = sw
    site = "%s:%d" % (s.file, mir.term(s, sb)[5])
    tgt = lambda n: arms.get(n, oth)
    ok = no_return_avoiding(s, tgt("NotFound"), up)
    ctx.ob("P-TABLE", tag + "set:NotFound->UnknownProperty", ok,
           "NotFound from Interface::set: every path to return builds UnknownProperty" if ok else
           "NotFound from Interface::set can return without UnknownProperty", site)
    for b, v, rv, ln in L.adt_aggs(s, L.FDO_ERROR):
        if v != "UnknownProperty" or not mir.block_dominates(s, tgt("NotFound"), b):
            continue
        dst = [p for bb, i, p, r, l in mir.assignments(s) if r is rv]
        der = mir.derives(s, {dst[0][0]}, through_calls=False) if dst else set()
        ret_err = any(p[0] == mir.RET and not p[1] and r[0] == "agg" and r[2] == "core::result::Result" and r[3] == "Err"
                      and any(x in der for op in r[4] for x in mir.operand_locals(op)) for bb, i, p, r, l in mir.assignments(s))
        ctx.ob("P-TABLE", tag + "set:UnknownProperty-returned-as-Err", ret_err,
               "the UnknownProperty value of the NotFound arm is %s" % ("returned as Err" if ret_err else "not returned as Err"),
               "%s:%d" % (s.file, ln))
    ok = no_return_avoiding(s, tgt("RequiresMut"), {c_mut.b})
    ctx.ob("P-TABLE", tag + "set:RequiresMut->set_mut", ok,
           "RequiresMut: every path to return goes through Interface::set_mut" if ok else "RequiresMut can return without set_mut", site)
    aw_b = set()
    for c in calls:
        if c.is_("into_future") and c.args:
            o = mir.origin(s, c.args[0])
            if o[0] in ("place", "ref") and o[1][0] == pl[0] and any(isinstance(p, list) and p[0] == "as" and p[1] == "Async" for p in o[1][1]):
                aw_b.add(c.b)
    ok = bool(aw_b) and no_return_avoiding(s, tgt("Async"), aw_b)
    ctx.ob("P-TABLE", tag + "set:Async->awaited", ok,
           "Async arm awaits the setter future on every path to return" if ok else "Async arm can return without awaiting the setter future", site)
    r = mir.reachable(s, [tgt("Async")])
    ctx.ob("P-TABLE", tag + "set:Async-no-second-set", c_mut.b not in r,
           "after an Async result of set, set_mut is %sreachable" % ("" if c_mut.b in r else "not "), site)


# =========================================================================================== generated code
def const_str(body, op):
    k = mir.resolve_const(body, op)
    if k is None:
        o = mir.origin(body, op)
        k = o[1] if o[0] == "const" else None
    if k is not None and isinstance(k.get("v"), str):
        return k["v"]
    return None


def arm_table(ctx, it, body, what, rule="P-ACCESS"):
    """{name: true_target} of a string match; fails closed on unnamed / repeated arms"""
    arms = L.eq_arms(body)
    out = {}
    for c, tt, ft, nm in arms:
        if nm is None:
            ctx.ob(rule, "%s:%s:arm-name-readable" % (it.key, what), False,
                   "a string pattern of the generated match has no value in the facts", c.where)
            continue
        ctx.ob(rule, "%s:%s:%s:matched-once" % (it.key, what, nm), nm not in out, "name `%s` matched by one arm" % nm, c.where)
        out[nm] = tt
    return out, arms


def classify_emitter(it, E):
    """What a generated `*_changed` / `*_invalidate` method sends: dict(kind, name, iface, getter, value_ok) or None"""
    f = it.f
    cos = [k for k in L.kids(f, E) if k.kind == "coroutine"]
    for co in cos:
        pcs = [c for c in mir.calls(co) if c.callee == PROPS_CHANGED or c.declared == PROPS_CHANGED]
        if len(pcs) != 1 or len(pcs[0].args) < 4:
            continue
        pc = pcs[0]
        map_local = mir.root_local(co, pc.args[2])
        keys, vals = [], []
        for c in mir.calls(co):
            if c.is_("insert") and "HashMap" in c.callee and len(c.args) > 2:
                o = mir.origin(co, c.args[0])
                if o[0] in ("place", "ref") and o[1][0] == map_local:
                    keys.append(const_str(co, c.args[1]))
                    vals.append(c.args[2])
        inval = None
        o = mir.origin(co, pc.args[3])
        if o[0] == "rv" and o[1][0] == "agg" and o[1][2] == "alloc::borrow::Cow" and o[1][3] == "Borrowed":
            k = mir.origin(co, o[1][4][0])
            k = k[1] if k[0] == "const" else None
            pv = k.get("pv") if k else None
            if isinstance(pv, dict) and pv.get("agg") == "array":
                inval = list(pv.get("items", []))
        isrc = L.value_source(f, co, pc.args[1])
        iface = const_str(co, isrc.args[0]) if isrc is not None and isrc.args and isrc.is_("from_static_str_unchecked", "from_static_str") else None
        getters = [c for c in mir.calls(co) if it.is_handler_call(c)]
        value_ok = False
        if len(getters) == 1 and len(vals) == 1:
            der = mir.derives(co, {getters[0].dest[0]})
            value_ok = any(l in der for l in mir.operand_locals(vals[0]))
        kind = None
        name = None
        if len(keys) == 1 and keys[0] is not None and inval == []:
            kind, name = "true", keys[0]
        elif not keys and inval is not None and len(inval) == 1:
            # (the element of the promoted `&[name]` is not always evaluated by the extractor: name may be None)
            kind, name = "invalidates", inval[0] if isinstance(inval[0], str) else None
        return {"kind": kind, "name": name, "iface": iface, "getter": getters[0].callee if len(getters) == 1 else None,
                "value_ok": value_ok, "keys": keys, "inval": inval, "where": pc.where}
    return None


def iface_name(ctx, it):
    b = it.method(ctx, "name")
    for c in mir.calls(b):
        if c.is_("from_static_str_unchecked", "from_static_str") and c.args:
            return const_str(b, c.args[0])
    return None


SETTERS = {}   # interface -> property -> setter method called by its arm (filled by check_setter_arm)

# What the fixture crate /verif/fixtures/ifaces (K6) declares: property -> (access, getter, setter, annotation).
# `SetPoint` is the awkward one: its setter is `set_set_point`, the prefix must be removed exactly once.
FIXTURE_PROPS = {
    "zverif_ifaces::Ordered": {
        "SetPoint": ("readwrite", "set_point", "set_set_point", "true"),
        "Settings": ("readwrite", "settings", "set_settings", "true"),
        "Fixed": ("read", "fixed", None, "const"),
        "Secret": ("read", "secret", None, "invalidates"),
        "Quiet": ("readwrite", "quiet", "set_quiet", "false"),
    },
    "zverif_ifaces::Spawning": {"Level": ("readwrite", "level", "set_level", "true")},
}


def check_setter_arm(ctx, it, M, name, props, emitters, getters_by_name, used):
    f = it.f
    key = "%s:set:%s" % (it.key, name)
    calls = mir.calls(M)
    em_calls = [c for c in calls if c.callee in emitters]
    hs = [c for c in calls if it.is_handler_call(c)]
    where = hs[0].where if hs else M.where
    ctx.ob("P-SET", key + ":one-setter-call-site", len(hs) == 1, "%d setter call site(s) in the arm: %s" % (len(hs), [short(c.callee) for c in hs]), where)
    if len(hs) != 1:
        return
    SETTERS.setdefault(it.key, {})[name] = short(hs[0].callee)
    h = hs[0]
    hw = L.weights(hs)
    ew = L.weights(em_calls)
    whole = L.count_range(M, 0, hw)
    ctx.ob("P-SET", key + ":setter-at-most-once", whole is not None and whole[1] <= 1, "setter calls per path (min, max) = %s" % (whole,), where)
    # conversions the value goes through before the setter
    convs = []
    for sb, pl, okt, errt in L.result_switches(M, f):
        src = L.value_source(f, M, ["c", [pl[0], []]])
        if src is not None and src.is_(*CONVERSIONS) and mir.block_dominates(M, sb, h.b):
            convs.append((sb, pl, okt, errt, src))
    ctx.ob("P-SET", key + ":value-is-converted", any(s.is_("try_into", "try_from") for sb, pl, o, e, s in convs),
           "conversions matched before the setter: %s" % [short(s.callee) for sb, pl, o, e, s in convs], where)
    avoid = set()
    for sb, pl, okt, errt, src in convs:
        ck = key + ":" + short(src.callee)
        ctx.ob("P-SET", ck + "-success-edge-leads-to-setter", edge_dominates(M, sb, okt, h.b),
               "the setter runs only on the success edge of %s" % short(src.callee), src.where)
        hh = L.count_range(M, errt, hw) if errt is not None else None
        ee = L.count_range(M, errt, ew) if errt is not None else None
        rv = L.ret_variants(M, errt, "core::result::Result") if errt is not None else {"?"}
        ok = errt is not None and hh is not None and hh[1] == 0 and ee[1] == 0 and rv == {"Err"}
        ctx.ob("P-SET", ck + "-failure-returns-Err", ok,
               "conversion failure: setter calls %s, emissions %s, returns %s" % (hh, ee, sorted(rv)), src.where)
        if errt is not None:
            avoid.add((sb, errt))
    conv_vals = set()
    for sb, pl, okt, errt, src in convs:
        if src.is_("try_into", "try_from"):
            conv_vals |= mir.derives(M, {src.dest[0]})
    ctx.ob("P-SET", key + ":setter-gets-converted-value", any(l in conv_vals for a in h.args for l in mir.operand_locals(a)),
           "an argument of the setter derives from the converted value", where)
    once = L.count_range(M, 0, hw, avoid_edges=avoid)
    ctx.ob("P-SET", key + ":setter-exactly-once-on-success", once == (1, 1),
           "setter calls per path avoiding the conversion-failure edges (min, max) = %s" % (once,), where)
    # ---- emission
    exp = props.get(name, (None, None))[1]
    herr = set()
    for sb, pl, okt, errt in L.result_switches(M, f):
        o = mir.origin(M, ["c", [pl[0], []]])
        src = L.value_source(f, M, ["c", [pl[0], []]])
        wraps = o[0] == "rv" and o[1][0] == "agg" and o[1][2] == "core::result::Result"
        if (src is h or (wraps and any(L.value_source(f, M, op) is h for op in o[1][4]))) and errt is not None:
            herr.add((sb, errt))
    succ = L.count_range(M, h.b, ew, avoid_edges=herr)
    kinds = sorted({(emitters[c.callee]["kind"], emitters[c.callee]["name"]) for c in em_calls}, key=str)
    for c in em_calls:
        used.setdefault(c.callee, set()).add(name)
    if exp in ("true", "invalidates"):
        good = succ == (1, 1) and len(kinds) == 1 and kinds[0][0] == exp and \
            (kinds[0][1] == name or (kinds[0][1] is None and exp == "invalidates"))
        detail = "annotation `%s`: emission calls after a successful set (min, max) = %s, emitters called: %s" % (exp, succ, kinds)
    elif exp in ("false", "const"):
        good = not em_calls and (succ is None or succ == (0, 0))
        detail = "annotation `%s`: emission calls in the arm: %s" % (exp, kinds)
    else:
        good = False
        detail = "property `%s` is not in the introspection data" % name
    ctx.ob("P-EMIT", key + ":emission-matches-annotation", good, detail, where)
    for c in em_calls:
        rec = mir.origin(M, c.args[0]) if c.args else ("none",)
        same = rec[0] in ("place", "ref") and rec[1][0] == 1
        ctx.ob("P-EMIT", key + ":emitter-on-same-object", same, "the emitter is invoked on the interface object of the arm", c.where)
        ctx.ob("P-EMIT", key + ":emission-after-setter", mir.block_dominates(M, h.b, c.b) and c.b != h.b,
               "the emission is issued after the setter returned", c.where)


def generated(ctx, its, full=True):
    n_if = n_set = n_get = 0
    kinds_seen = set()
    fixture_seen = set()
    fallible_seen = [0]
    for it in its:
        if not all(k in it.m for k in ("get", "get_all", "set", "set_mut", "introspect_to_writer", "name")):
            ctx.ob("P-ACCESS", it.key + ":has-property-methods", False, "Interface impl lacks get/get_all/set/set_mut bodies in the facts", it.where)
            continue
        if not it.is_generated(it.m["get"]):
            ctx.note("hand-written Interface impl %s not analysed" % it.key)
            continue
        f = it.f
        props, bad = L.introspected_properties(ctx, it)
        ctx.ob("P-ACCESS", it.key + ":introspection-readable", bad == 0,
               "%d property template(s) read, %d unreadable" % (len(props), bad), it.where)
        G = it.coroutine(ctx, "get")
        GA = it.coroutine(ctx, "get_all")
        S = it.method(ctx, "set")
        SM = it.coroutine(ctx, "set_mut")
        gt, garms = arm_table(ctx, it, G, "get")
        st, sarms = arm_table(ctx, it, S, "set")
        mt, marms = arm_table(ctx, it, SM, "set_mut")
        readable = {n for n, (a, e) in props.items() if "read" in a}
        writable = {n for n, (a, e) in props.items() if "write" in a}
        if not props and not gt and not st and not mt:
            # interface without properties: get -> None, set -> NotFound, set_mut -> None, get_all inserts nothing
            ins = [c for c in mir.calls(GA) if c.is_("insert") and "HashMap" in c.callee]
            ctx.ob("P-ACCESS", it.key + ":no-properties", not ins and L.ret_variants(S, 0, L.DISPATCH_RESULT) == {"NotFound"},
                   "interface without properties: get_all inserts %d key(s), set returns %s" % (len(ins), sorted(L.ret_variants(S, 0, L.DISPATCH_RESULT))), it.where)
            continue
        n_if += 1
        ctx.ob("P-ACCESS", it.key + ":get-arms=readable", set(gt) == readable,
               "get matches %s; advertised readable %s" % (sorted(gt), sorted(readable)), G.where)
        ctx.ob("P-ACCESS", it.key + ":set-arms=writable", set(st) == writable,
               "set matches %s; advertised writable %s" % (sorted(st), sorted(writable)), S.where)
        # ---- get_all and fallible getters (added after seeded change C28b): GetAll returns the properties that can be
        # read; a getter that currently fails is skipped, it must not fail the whole call -- so the result of a getter
        # is matched (`if let Ok(..)`), never handed to `?` (the `?` on the value *conversion* is a different value)
        bad_getters = {}
        for c in mir.calls(GA):
            if c.is_("branch") and "ops::try_trait::Try" in (c.callee + " " + c.declared) and c.args:
                src = L.value_source(f, GA, c.args[0])
                if src is not None and it.is_handler_call(src):
                    bad_getters[src.callee] = c.where
        n_fallible = 0
        for c in mir.calls(GA):
            if it.is_handler_call(c):
                d = f.fnsigs.get(c.callee)
                if (d and "core::result::Result<" in d["sig"].split("->")[-1]) or c.callee in bad_getters:
                    n_fallible += 1
                    ok = c.callee not in bad_getters
                    ctx.ob("P-GET", "%s:get_all:failing-getter-is-skipped:%s" % (it.key, short(c.callee)), ok,
                           "the Result of the fallible getter %s is matched, not propagated" % short(c.callee) if ok else
                           "get_all applies `?` to the result of the getter %s: one failing getter makes GetAll fail and hides "
                           "every other readable property" % short(c.callee), bad_getters.get(c.callee, c.where))
        fallible_seen[0] += n_fallible
        # ---- get_all keys
        fam = {b.id: b for b in L.kids(f, S)}
        ga_keys = {}
        for c in mir.calls(GA):
            if c.is_("insert") and "HashMap" in c.callee and len(c.args) > 2:
                ks = L.value_source(f, GA, c.args[1])
                k = const_str(GA, ks.args[0]) if ks is not None and ks.args and ks.is_("to_string", "from", "into", "to_owned") else const_str(GA, c.args[1])
                ctx.ob("P-ACCESS", it.key + ":get_all:key-readable", k is not None, "key of a get_all insertion is a literal", c.where)
                if k is None:
                    continue
                ctx.ob("P-ACCESS", it.key + ":get_all:%s:inserted-once" % k, k not in ga_keys, "key `%s` inserted by one site" % k, c.where)
                ga_keys[k] = c
        ctx.ob("P-ACCESS", it.key + ":get_all-keys=readable", set(ga_keys) == readable,
               "get_all inserts %s; advertised readable %s" % (sorted(ga_keys), sorted(readable)), GA.where)
        # ---- get arms
        getters_by_name = {}
        handler_calls_GA = [c for c in mir.calls(GA) if it.is_handler_call(c)]
        for nm, tt in sorted(gt.items()):
            n_get += 1
            reg = mir.region(G, tt)
            hs = [c for c in mir.calls(G) if c.b in reg and it.is_handler_call(c)]
            key = "%s:get:%s" % (it.key, nm)
            ctx.ob("P-GET", key + ":one-getter", len(hs) == 1, "getter call site(s) in the arm: %s" % [short(c.callee) for c in hs], G.where)
            if len(hs) != 1:
                continue
            h = hs[0]
            getters_by_name[nm] = h.callee
            der = mir.derives(G, {h.dest[0]})
            some = [1 for b, v, rv, ln in L.adt_aggs(G, "core::option::Option", reg) if v == "Some"
                    and any(l in der for op in rv[4] for l in mir.operand_locals(op))]
            ctx.ob("P-GET", key + ":returns-getter-value", bool(some),
                   "the arm returns Some(value derived from %s)" % short(h.callee) if some else "the arm does not return the getter's value", h.where)
            ic = ga_keys.get(nm)
            if ic is not None:
                cands = [g for g in handler_calls_GA if any(l in mir.derives(GA, {g.dest[0]}) for l in mir.operand_locals(ic.args[2]))]
                same = [g for g in cands if g.callee == h.callee]
                ctx.ob("P-GET", key + ":get_all-uses-same-getter", bool(same) and len({g.callee for g in cands}) == 1,
                       "get_all inserts `%s` from %s; get uses %s" % (nm, sorted({short(g.callee) for g in cands}), short(h.callee)), ic.where)
        fts = L.fallthrough_target(G, garms)
        if garms:
            vs = L.ret_variants_local(G, fts[0], "core::option::Option") if len(fts) == 1 else {"?"}
            ctx.ob("P-ACCESS", it.key + ":get:unmatched->None", vs == {"None"}, "an unknown property name makes get return %s" % sorted(vs), G.where)
        # ---- emitters
        iname = iface_name(ctx, it)
        emitters = {}
        for E in it.generated_inherent():
            info = classify_emitter(it, E)
            if info is None:
                continue
            emitters[E.id] = info
            ek = "%s:emitter:%s" % (it.key, short(E.id))
            ctx.ob("P-EMIT", ek + ":well-formed", info["kind"] is not None,
                   "sends changed keys %s, invalidated %s" % (info["keys"], info["inval"]), info["where"])
            ctx.ob("P-EMIT", ek + ":names-this-interface", info["iface"] is not None and info["iface"] == iname,
                   "PropertiesChanged is sent for interface %r (this interface is %r)" % (info["iface"], iname), info["where"])
            if info["kind"] == "true":
                g = getters_by_name.get(info["name"])
                ok = info["value_ok"] and g is not None and info["getter"] == g
                ctx.ob("P-EMIT", ek + ":carries-current-value", ok,
                       "the value sent for `%s` comes from %s (get uses %s)" % (info["name"], info["getter"] and short(info["getter"]), g and short(g)), info["where"])
        # ---- set / set_mut routing
        mut_names = set()
        arm_cor = {}
        for nm, tt in sorted(st.items()):
            vs = L.ret_variants(S, tt, L.DISPATCH_RESULT)
            if vs == {"RequiresMut"}:
                mut_names.add(nm)
                continue
            ctx.ob("P-ACCESS", "%s:set:%s:returns-Async" % (it.key, nm), vs == {"Async"}, "set for `%s` returns %s" % (nm, sorted(vs)), S.where)
            reg = mir.region(S, tt)
            cors = [fam[i] for i in L.aggs_in(S, reg, ("coroutine",)) if i in fam]
            arm_cor[nm] = [b for b in cors if any(it.is_handler_call(x) for x in mir.calls(b))]
        ctx.ob("P-ACCESS", it.key + ":RequiresMut-names=set_mut-arms", mut_names == set(mt),
               "set answers RequiresMut for %s; set_mut matches %s" % (sorted(mut_names), sorted(mt)), S.where)
        fts = L.fallthrough_target(S, sarms)
        if sarms:
            vs = L.ret_variants(S, fts[0], L.DISPATCH_RESULT) if len(fts) == 1 else {"?"}
            ctx.ob("P-ACCESS", it.key + ":set:unmatched->NotFound", vs == {"NotFound"}, "an unknown property name makes set return %s" % sorted(vs), S.where)
        fts = L.fallthrough_target(SM, marms)
        if marms:
            vs = L.ret_variants_local(SM, fts[0], "core::option::Option") if len(fts) == 1 else {"?"}
            ctx.ob("P-ACCESS", it.key + ":set_mut:unmatched->None", vs == {"None"}, "an unknown property name makes set_mut return %s" % sorted(vs), SM.where)
        famm = {b.id: b for b in L.kids(f, SM)}
        for nm, tt in sorted(mt.items()):
            reg = mir.region(SM, tt)
            # the arm builds a closure whose coroutine holds the setter code
            cl = [i for i in L.aggs_in(SM, reg, ("closure", "coroutine")) if i in famm]
            cors = [b for b in famm.values() if b.kind == "coroutine" and any(b.id.startswith(c + "::") or b.id == c for c in cl)
                    and any(it.is_handler_call(x) for x in mir.calls(b))]
            arm_cor[nm] = cors
        used = {}
        for nm, cors in sorted(arm_cor.items()):
            n_set += 1
            ctx.ob("P-SET", "%s:set:%s:one-arm-coroutine" % (it.key, nm), len(cors) == 1,
                   "%d coroutine(s) with setter code for `%s`" % (len(cors), nm), S.where)
            for M in cors:
                check_setter_arm(ctx, it, M, nm, props, emitters, getters_by_name, used)
                kinds_seen.add(props.get(nm, (None, None))[1])
        for eid, names in sorted(used.items()):
            ctx.ob("P-EMIT", "%s:emitter:%s:used-by-one-property" % (it.key, short(eid)), len(names) == 1,
                   "emitter is called by the setter arm(s) of %s" % sorted(names), emitters[eid]["where"])
        spec = FIXTURE_PROPS.get(it.key)
        if spec is not None:
            fixture_seen.add(it.key)
            got = {}
            for nm, (acc, kind) in props.items():
                got[nm] = (acc if isinstance(acc, str) else "".join(sorted(acc)), short(getters_by_name[nm]) if nm in getters_by_name else None,
                           SETTERS.get(it.key, {}).get(nm), kind)
            for nm in sorted(set(spec) | set(got)):
                w, g = spec.get(nm), got.get(nm)
                ok = w is not None and g is not None and ("read" in g[0]) == ("read" in w[0]) and ("write" in g[0]) == ("write" in w[0]) \
                    and g[1] == w[1] and g[2] == w[2] and (g[3] == w[3])
                ctx.ob("P-TABLE", "%s:fixture-declaration:%s" % (it.key, nm), ok,
                       "declared %s, generated code implements %s" % (w, g), it.where)
    if any(it.cfg == "K6" for it in its):
        ctx.floor("P-GET", "fallible getters seen in generated get_all bodies", fallible_seen[0], 1)
        for k in FIXTURE_PROPS:
            ctx.ob("P-TABLE", "fixture-interface-analysed:" + k, k in fixture_seen,
                   "fixture interface %s found among the generated impls of K6" % k, "-")
    if not full:
        return  # K1 only: the library's own interfaces have no properties (each is checked for exactly that above)
    # MyIface (zbus/tests/iface_and_proxy/iface.rs) alone has 14 readable and 11 writable properties
    ctx.floor("P-ACCESS", "generated interfaces with properties analysed", n_if, 2)
    ctx.floor("P-GET", "generated get arms analysed", n_get, 14)
    ctx.floor("P-SET", "generated setter arms analysed", n_set, 11)
    ctx.floor("P-EMIT", "annotation kinds covered by setter arms (true / invalidates / false|const)",
              len({"true", "invalidates"} & kinds_seen) + (1 if kinds_seen & {"false", "const"} else 0), 3)


def macro_setter_name(ctx, f):
    """M-SETNAME (added after seeded change C28): the #[interface] macro maps the method `set_<p>` to the property the
    getter `<p>` defines; the name must be derived by removing the `set_` prefix exactly once. `trim_start_matches`
    / `replace` remove it repeatedly or anywhere: a property called `SetPoint` (`set_set_point`) would be registered
    as a second, write-only property `Point`. Decided on the macro's own code (zbus_macros is a normal crate to rustc)."""
    fam = [b for b in f.all_bodies("zbus_macros") if b.root == "zbus_macros::iface::MethodInfo::new"]
    ctx.need(fam, "zbus_macros::iface::MethodInfo::new")
    tests = []
    for b in fam:
        for c in mir.calls(b):
            if c.is_("starts_with") and any((mir.origin(b, a)[0] == "const" and mir.origin(b, a)[1].get("v", mir.origin(b, a)[1].get("pv")) == "set_") for a in c.args):
                tests.append((b, c))
    ctx.floor("M-SETNAME", "`starts_with(\"set_\")` tests in MethodInfo::new", len(tests), 1)
    for b, t in tests:
        good, bad = [], []
        for c in mir.calls(b):
            name = c.callee.rsplit("::", 1)[-1]
            consts = []
            for a in c.args:
                o = mir.origin(b, a)
                if o[0] == "const":
                    consts.append(o[1].get("v", o[1].get("pv")))
            if name == "strip_prefix" and "set_" in consts:
                good.append(c)
            elif name in ("index", "get") and len(c.args) > 1:
                o = mir.origin(b, c.args[1])
                if o[0] == "rv" and o[1][0] == "agg" and (o[1][2] or "").endswith("RangeFrom"):
                    k = mir.resolve_const(b, o[1][4][0])
                    if k is not None and k.get("v") == len("set_"):
                        good.append(c)
                    elif k is not None:
                        bad.append((c, "slices off %s characters, the prefix has %d" % (k.get("v"), len("set_"))))
            elif name in ("trim_start_matches", "trim_matches", "replace", "replacen", "trim_end_matches") and "set_" in consts:
                bad.append((c, "%s removes the prefix repeatedly / anywhere" % name))
        ctx.ob("M-SETNAME", "setter-property-name:prefix-removed-once", bool(good) and not bad,
               "the property name of a setter is the method name without its first `set_`" if good and not bad else
               ("; ".join(w for c, w in bad) if bad else "no recognised derivation of the property name from `set_<name>`"),
               (bad[0][0].where if bad else (good[0].where if good else t.where)))


def run(ctx):
    ctx.explanation = (
        "Static rules over MIR. Library (K1): R-TABLE on fdo::Properties::{get,set,get_all}: missing node/interface -> "
        "UnknownInterface before any Interface method runs; None from Interface::get / set_mut and NotFound from "
        "Interface::set -> UnknownProperty; RequiresMut -> set_mut; Async -> awaited; get_all returns the interface's map. "
        "Generated code (every #[interface] expansion with properties in K1/K4): the property table {name: access, "
        "EmitsChangedSignal} read from the generated introspection writer is compared with the names matched by get / "
        "set / set_mut and the keys of get_all; each setter arm is path-counted: conversion failure returns Err without "
        "calling the setter, the setter is called exactly once, and after a successful set exactly the emission named by "
        "the annotation is called (emitters classified by the arguments they pass to Properties::properties_changed).")
    ctx.not_decided = ("run-time values (getter returns what the setter stored, signal body bytes); correctness of the zvariant "
                       "conversions; interfaces not compiled in the repository; hand-written Interface impls.")
    ctx.assumptions.append("the literal pieces of the generated introspect_to_writer format templates are contiguous in the "
                           "template constant (rustc 1.97 format_args lowering); unreadable templates fail the check")
    cfgs = L.generated_configs(ctx)
    L.prefetch(ctx, cfgs + (["K3"] if ctx.tier == "thorough" else []))
    f1 = ctx.facts("K1")
    library(ctx, f1, "")
    macro_setter_name(ctx, f1)
    if ctx.tier == "thorough":
        library(ctx, ctx.facts("K3"), "K3:")
    its = L.interfaces(ctx, cfgs)
    generated(ctx, its, full="K4" in cfgs)
    if "K4" not in cfgs:
        ctx.note("quick tier: only the Properties handlers (P-TABLE) and the property-less fdo interfaces are decided; the "
                 "generated get/set/emission rules need the fixtures of K4 (thorough tier, or ZCHECK_K4=1)")
