"""C18 — Concurrent sends never interleave on the wire (DESIGN §5.C18).

  W-GUARD   Connection::send awaits WriteHalf::send_message while the MutexGuard obtained from
            ConnectionInner.socket_write is among the locals saved across that suspension point, and
            the receiver of send_message is that guard (R-AWAIT)
  W-WHO     send_message / sendmsg of the WriteHalf trait are called only from the confirmed set
            (Connection::send, the default send_message loop, the Box forwarding impl, the
            pre-connection handshake writer); ConnectionInner.socket_write is touched only by the
            confirmed set and only Connection::send writes a message through it (R-WHO)
  W-FDS     in the default send_message the file descriptors are collected only under `pos == 0`
            for the same `pos` that slices the buffer, `pos` advances only by sendmsg's return value,
            and Ok is reached only through the `pos < len` test failing (R-CTRL)
"""
from .. import mir, awaits as aw

TRAIT = "zbus::connection::socket::WriteHalf"
GUARD = "MutexGuard<'_, alloc::boxed::Box<dyn zbus::connection::socket::WriteHalf>>"


def is_wh(c, name):
    return c.declared == "%s::%s" % (TRAIT, name) or c.callee == "%s::%s" % (TRAIT, name) or \
        (c.is_(name) and "WriteHalf" in c.fnargs and "as zbus::connection::socket::WriteHalf" in c.fnargs)


def check_config(ctx, f, tag):
    send = ctx.one([b for b in f.children.get("zbus::connection::Connection::send", []) if b.kind == "coroutine"],
                   "coroutine of Connection::send")
    # ---- W-GUARD
    aws = aw.awaits(f, send)
    sm = [a for a in aws if a.call is not None and is_wh(a.call, "send_message")]
    ctx.floor("W-GUARD", tag + "awaits of send_message in Connection::send", len(sm), 1)
    for a in sm:
        held = a.holds(GUARD)
        ctx.ob("W-GUARD", tag + "guard-live-across-send_message", bool(held),
               "saved across the await: %s" % [(n, t) for t, n, l in a.saved], a.where)
        # the receiver is the guard: arg0 <- deref_mut(&mut guard) ; guard <- await of Mutex::lock on socket_write
        recv = mir.origin_base(send, a.call.args[0])
        ok = False
        detail = "receiver origin %s" % (recv[0],)
        if recv[0] == "call" and recv[1].is_("deref_mut", "deref") and "MutexGuard" in recv[1].callee:
            go = mir.origin(send, recv[1].args[0])
            gl = go[1][0] if go[0] in ("place", "ref") else None
            gname = mir.local_name(send, gl)
            saved_names = {n for t, n, l in held}
            ok = gname in saved_names
            detail = "receiver is guard local `%s`; saved guards %s" % (gname, sorted(saved_names))
            # the guard comes from locking socket_write
            locks = [x for x in aws if x.call is not None and x.call.is_("lock") and "Mutex" in x.call.callee]
            from_sw = False
            for lk in locks:
                o = mir.origin(send, lk.call.args[0])
                if o[0] in ("place", "ref") and "socket_write" in mir.place_fields(o[1]):
                    from_sw = True
                elif o[0] == "call":
                    # deref of Arc then field
                    pass
            # field access may sit behind Arc::deref: look for any place mentioning socket_write feeding a lock call
            if not from_sw:
                for lk in locks:
                    arg = lk.call.args[0]
                    l0 = mir.op_local(arg)
                    for d in mir.defs_of(send, l0):
                        if d[0] == "assign" and d[4][0] == "ref" and "socket_write" in mir.place_fields(d[4][2]):
                            from_sw = True
            ctx.ob("W-GUARD", tag + "guard-is-socket_write-lock", from_sw,
                   "the lock awaited before send_message is taken on ConnectionInner.socket_write", a.where)
        ctx.ob("W-GUARD", tag + "receiver-is-guard", ok, detail, a.where)
    # no other await between lock and send_message that lacks the guard is implied; additionally
    # send must not call sendmsg itself
    for c in mir.calls(send):
        if is_wh(c, "sendmsg"):
            ctx.ob("W-WHO", tag + "send-calls-sendmsg", False, "Connection::send writes chunks itself", c.where)

    # ---- W-WHO
    allowed = {
        "zbus::connection::Connection::send": ("send_message", "the single message writer, under the socket_write guard"),
        TRAIT + "::send_message": ("sendmsg", "default chunk loop of one message"),
        "<alloc::boxed::Box<(dyn zbus::connection::socket::WriteHalf + 'static)> as zbus::connection::socket::WriteHalf>::send_message": ("send_message", "Box forwarding"),
        "<alloc::boxed::Box<(dyn zbus::connection::socket::WriteHalf + 'static)> as zbus::connection::socket::WriteHalf>::sendmsg": ("sendmsg", "Box forwarding"),
        "zbus::connection::handshake::common::Common::write_commands": ("sendmsg", "SASL handshake, before the write half is moved into the connection"),
    }
    n = 0
    for b in f.all_bodies("zbus"):
        for c in mir.calls(b):
            for name in ("send_message", "sendmsg"):
                if is_wh(c, name):
                    n += 1
                    ent = allowed.get(b.root)
                    ok = ent is not None and ent[0] == name
                    ctx.ob("W-WHO", tag + "caller:%s->%s" % (b.root, name), ok,
                           ent[1] if ok else "unexpected caller of WriteHalf::%s" % name, c.where)
    ctx.floor("W-WHO", tag + "call sites of WriteHalf::{send_message,sendmsg}", n, 4)
    touch_allowed = {
        "zbus::connection::Connection::send": "locks and writes one message",
        "zbus::connection::Connection::new": "construction",
        "zbus::connection::Connection::peer_credentials": "locks; queries credentials, writes nothing",
        "zbus::connection::Connection::close": "locks; closes the half",
        "<zbus::connection::ConnectionInner as core::fmt::Debug>::fmt": "derived Debug",
    }
    for b in f.all_bodies("zbus"):
        touched = False
        for bi, i, pl, rv, ln in mir.assignments(b):
            for op in mir.rvalue_operands(rv) + [["c", pl]]:
                p = mir.op_place(op)
                if p:
                    for pr in p[1]:
                        if isinstance(pr, list) and pr[0] == "." and pr[2] == "socket_write" and pr[3] == "zbus::connection::ConnectionInner":
                            touched = True
        if touched:
            ctx.ob("W-WHO", tag + "socket_write-user:" + b.root, b.root in touch_allowed,
                   touch_allowed.get(b.root, "unexpected user of ConnectionInner.socket_write"), b.where)

    # ---- W-FDS (default send_message loop)
    smb = ctx.one([b for b in f.children.get(TRAIT + "::send_message", []) if b.kind == "coroutine"],
                  "coroutine of default WriteHalf::send_message")
    sends = [c for c in mir.calls(smb) if is_wh(c, "sendmsg")]
    ctx.floor("W-FDS", tag + "sendmsg calls in default send_message", len(sends), 1)
    for c in sends:
        # buffer argument: index(.., RangeFrom(pos))
        bo = mir.origin(smb, c.args[1])
        pos = None
        if bo[0] == "call" and bo[1].is_("index") and len(bo[1].args) > 1:
            ro = mir.origin(smb, bo[1].args[1])
            if ro[0] == "rv" and ro[1][0] == "agg" and ro[1][2].endswith("RangeFrom"):
                pos = mir.root_local(smb, ro[1][4][0])
        ctx.ob("W-FDS", tag + "buffer-is-data[pos..]", pos is not None,
               "buffer passed to sendmsg is data[%s..]" % mir.local_name(smb, pos) if pos is not None else
               "buffer passed to sendmsg is not a `[pos..]` slice (origin %s)" % bo[0], c.where)
        if pos is None:
            continue
        # fds only under pos == 0
        fdcalls = [x for x in mir.calls(smb) if x.is_("fds") and ("Data" in x.callee or "Message" in x.callee)]
        ctx.floor("W-FDS", tag + "fd sources in send_message", len(fdcalls), 1)
        zero_edges = []
        for sb, op, l, r, tt, ft, ln in mir.cmp_switches(smb):
            if op not in ("Eq", "Ne"):
                continue
            kl, kr = mir.resolve_const(smb, l), mir.resolve_const(smb, r)
            var = l if (kr is not None and kr.get("v") == 0) else (r if (kl is not None and kl.get("v") == 0) else None)
            if var is None or mir.root_local(smb, var) != pos:
                continue
            zero_edges.append(tt if op == "Eq" else ft)
        for x in fdcalls:
            ok = any(ze is not None and mir.block_dominates(smb, ze, x.b) for ze in zero_edges)
            ctx.ob("W-FDS", tag + "fds-only-with-first-chunk", ok,
                   "fds are read only on the `%s == 0` edge" % mir.local_name(smb, pos) if ok else
                   "fds are read outside the `pos == 0` branch", x.where)
        # the fds argument of sendmsg derives from those sources or from an empty constructor
        fl = mir.origin(smb, c.args[2]) if len(c.args) > 2 else None
        # pos advances only by the awaited sendmsg result
        pdefs = mir.defs_of(smb, pos)
        okp = True
        why = []
        res_locals = set()
        for a in aw.awaits(f, smb):
            if a.call is not None and a.call is not None and is_wh(a.call, "sendmsg"):
                pass
        for d in pdefs:
            if d[0] == "assign":
                rv = d[4]
                if rv[0] == "use" and mir.op_const(rv[1]) is not None and mir.op_const(rv[1]).get("v") == 0:
                    why.append("init 0")
                    continue
                if rv[0] == "use":
                    o = mir.origin(smb, rv[1])
                    # tuple field .0 of AddWithOverflow(pos, n)
                    pl = mir.op_place(rv[1])
                    src = mir.single_def(smb, pl[0]) if pl else None
                    if src and src[0] == "assign" and src[4][0] == "bin" and src[4][1] in ("AddWithOverflow", "Add"):
                        a_, b_ = src[4][2], src[4][3]
                        if mir.root_local(smb, a_) == pos or mir.root_local(smb, b_) == pos:
                            why.append("pos += n")
                            continue
                okp = False
                why.append("other assignment %s" % (rv[0],))
            else:
                okp = False
                why.append("assigned from call %s" % d[1].callee)
        ctx.ob("W-FDS", tag + "pos-monotone", okp, "definitions of pos: %s" % why, c.where)
        # loop exit: the Ok(()) completion is reachable only through the false edge of `pos < len`
        heads = []
        for sb, op, l, r, tt, ft, ln in mir.cmp_switches(smb):
            if op in ("Lt", "Gt", "Le", "Ge", "Ne") and (mir.root_local(smb, l) == pos or mir.root_local(smb, r) == pos):
                other = r if mir.root_local(smb, l) == pos else l
                oo = mir.origin(smb, other)
                if oo[0] == "call" and oo[1].is_("len"):
                    heads.append((sb, op, tt, ft))
        ctx.ob("W-FDS", tag + "loop-until-len", bool(heads) and all(mir.block_dominates(smb, h[0], c.b) for h in heads),
               "sendmsg is issued under a `pos < data.len()` loop head" if heads else "no `pos < len` loop head found", c.where)
        for sb, op, tt, ft in heads:
            # after a sendmsg, a normal return must pass through the loop head again or be an error return
            okret = True
            rets = mir.exits(smb)
            after = mir.reachable(smb, [c.b], avoid={sb})
            for rb in rets:
                if rb in after:
                    # allowed only if it is an error path: passes a from_residual / Err construction
                    errs = {x.b for x in mir.calls(smb) if x.is_("from_residual")}
                    if not errs or rb in mir.reachable(smb, [c.b], avoid={sb} | errs):
                        okret = False
            ctx.ob("W-FDS", tag + "no-early-ok", okret,
                   "after a chunk the only way to return without re-testing `pos < len` is the error path", c.where)


def no_cancel(ctx, f, tag):
    """W-NOCANCEL (added after seeded change C18b): the guard keeps other senders out only while the send future
    lives. Dropping that future between two chunks (a timeout / race wrapped around it) releases the guard with a
    message half written, and the next sender's bytes follow the torn prefix. So inside zbus the future of
    Connection::send (and of the functions that just forward to it) is awaited directly, never handed to
    `timeout` / `or` / `race` / `select`."""
    SEND = "zbus::connection::Connection::send"
    n = 0
    for b in f.all_bodies("zbus"):
        for c in mir.calls(b):
            if c.callee != SEND:
                continue
            n += 1
            der = mir.derives(b, {c.dest[0]}, through_calls=False)
            bad = None
            for x in mir.calls(b):
                if x is c:
                    continue
                nm = x.callee.rsplit("::", 1)[-1]
                if nm in ("timeout", "or", "race", "select", "select_biased", "timeout_at", "try_zip", "zip") and \
                        any(l in der for a in x.args for l in mir.operand_locals(a)):
                    bad = x
            ctx.ob("W-NOCANCEL", tag + "send-future-awaited-directly:" + b.root, bad is None,
                   "the future of Connection::send is awaited in place" if bad is None else
                   "the future of Connection::send is handed to %s: it can be dropped between two chunks of one message" % bad.callee, c.where)
    ctx.floor("W-NOCANCEL", tag + "internal callers of Connection::send", n, 3)


def run(ctx):
    ctx.explanation = ("R-AWAIT on rustc's coroutine layout: the socket_write MutexGuard is saved across the only await of "
                       "send_message in Connection::send and is its receiver; R-WHO: the call sites of WriteHalf::send_message/"
                       "sendmsg and the users of ConnectionInner.socket_write equal the confirmed table; R-CTRL in the default "
                       "send_message loop: fds only with the first chunk, pos advances by the written count, loop until pos == len.")
    ctx.not_decided = "behaviour of the transport's sendmsg; fairness/order of the async mutex (third-party async-lock)."
    f = ctx.facts("K1")
    check_config(ctx, f, "")
    no_cancel(ctx, f, "")
    if ctx.tier == "thorough":
        f3 = ctx.facts("K3")
        check_config(ctx, f3, "K3:")
