"""C03 — The D-Bus decoder accepts exactly the valid encodings (DESIGN §5.C03).

Each rule decides the *presence and effect* of one rejection the property enumerates, on the MIR of
zvariant's D-Bus deserializer (K1: as built for zbus; K2: zvariant with gvariant+option-as-array).
Keys carry no configuration tag: the same function in K1 and K2 is the same instance.

  PAD-ZERO   parse_padding: a byte loaded from `bytes[..]` whose index ranges over the computed padding is
             compared with 0 inside a loop; the non-zero edge builds Err(PaddingNot0) and can reach
             neither the `pos` advance nor an Ok result
  PAD-CALL   next_const_size_slice takes its slice only after prep_deserialize_basic succeeded (error edge
             leaves), and prep_deserialize_basic always calls parse_padding and propagates its error
  BOOL       deserialize_bool decided by evaluation: with the decoded u32 fixed to 0 / 1 every path calls
             visit_bool(false) / visit_bool(true); fixed to 2, 3, 255, 256, 257, 2^31, 2^32-1 no path
             calls any Visitor method and the function returns an Err
  STR-NUL    deserialize_str: the payload slice is tested with `contains(&0)` before the visitor is
             called; the `found` edge returns Err without calling the visitor
  STR-UTF8   the &str handed to the visitor comes from checked `core::str::from_utf8` of the payload slice
             through `?`/map_err only; no `from_utf8_unchecked` in the D-Bus deserializer
  STR-TERM   the terminator byte is loaded and compared with 0 before the visitor is called, non-zero
             edge rejecting                                  (violated on the pinned tree: DESIGN §7 F1)
  ARR-BOUND  ArrayDeserializer::next: after the element is deserialized `pos` is compared strictly with
             `start + len` on every path to a return, the overrun edge returns Err only
  ARR-WHO    the array/dict access types deserialize an element only through ArrayDeserializer::next
  ARR-USE    any other function of the D-Bus deserializer that obtains an ArrayDeserializer and then lets a
             visitor/seed decode from the same deserializer compares the position with start+len afterwards
             (violated in K2 by deserialize_option under `option-as-array`: new finding)
  ARR-END    done() compares `pos` with `start + len`; next_element consults done() before reading and
             reads nothing on the done edge
  FD         get_fd looks the index up with checked `get` (no indexing, no unwrap) and maps a miss to
             Error::UnknownFd; deserialize_i32 resolves the wire index through get_fd in its Fd arm
  VAR-SIG    the child deserializer of a variant gets its signature from the validating signature parser
             applied to wire bytes, error edge leaving
  V-CTOR     strings inside variants / typed targets: the ObjectPath and Signature arms of
             ValueSeed::visit_*str, ObjectPathVisitor::visit_*str and <Signature as Deserialize> build
             their value only through the validating constructors; no `*_unchecked` constructor
                                                             (violated on the pinned tree: DESIGN §7 F2)

Dropped clauses: "termination test is equality, not >=" for done() — with ARR-BOUND in place `>=` is
behaviour-equivalent, so demanding `==` would be a false alarm; depth limits are C07's rules.
"""
from .. import mir
from .. import lib_pathsim as ps

META = {
    "technique": "MIR guard/fall-through rules plus path-sensitive constant evaluation of the bool decoder",
    "level": ("Every rejection listed in the property statement that is implemented in the D-Bus deserializer is "
              "located by trait/def-path identity and decided structurally: the test exists on the right operand, "
              "dominates the acceptance, and its failing edge can only return Err. deserialize_bool is decided by "
              "evaluating the function for concrete decoded values. Not decided: that nothing else is accepted "
              "wrongly (e.g. multi-type variant signatures), the object-path and signature grammars themselves, "
              "depth limits (C07)."),
}

DE = "zvariant::dbus::de::Deserializer"
COMMON = "zvariant::de::DeserializerCommon"
SERDE_DE = "serde_core::de::Deserializer"
ARR = "zvariant::dbus::de::ArrayDeserializer"
SIG = "zvariant_utils::signature::Signature"


# ------------------------------------------------------------------------------------- helpers
def is_visit(c):
    return c.declared.startswith("serde_core::de::Visitor::visit_")


def ret_assigns(body, blocks):
    """assignments / call results stored to the return place inside `blocks`: list of kind strings"""
    out = []
    for b, i, pl, rv, ln in mir.assignments(body):
        if b in blocks and pl[0] == mir.RET and not pl[1]:
            if rv[0] == "agg" and rv[1] == "adt" and rv[2].endswith("result::Result"):
                out.append(rv[3])
            else:
                out.append("other")
    for c in mir.calls(body):
        if c.b in blocks and c.dest[0] == mir.RET and not c.dest[1]:
            out.append("residual" if c.is_("from_residual") else "call:" + c.callee)
    return out


def rejects(body, edge, forbidden=()):
    """From `edge` on: only Err / residual results, at least one, and none of `forbidden` blocks reachable."""
    if edge is None:
        return False, "edge not found"
    r = mir.reachable(body, [edge])
    ra = ret_assigns(body, r)
    bad = [x for x in ra if x not in ("Err", "residual")]
    if bad:
        return False, "result %s is reachable from the rejecting edge" % bad
    if not ra:
        return False, "no Err is built on the rejecting edge"
    hit = [b for b in forbidden if b in r]
    if hit:
        return False, "acceptance (bb%s) is reachable from the rejecting edge" % hit
    return True, "edge returns Err only"


def through_try(body, op, extra=()):
    """Where does the success value `op` come from: follow `?` (Try::branch .. Continue.0), `match Ok(x)`,
    map_err and re-borrows back to the producing call. Returns ('call', Call) or another origin tuple."""
    for _ in range(12):
        o = mir.origin(body, op)
        if o[0] == "call":
            c = o[1]
            if c.is_("map_err", *extra) and c.args:
                op = c.args[0]
                continue
            return o
        if o[0] in ("place", "ref"):
            l, proj = o[1]
            if 0 < l <= body.d["argc"]:
                return o
            d = mir.single_def(body, l)
            if d is not None and d[0] == "call" and proj:
                c = d[1]
                down = [p for p in proj if isinstance(p, list) and p[0] == "as"]
                if c.is_("branch") and down and down[0][1] == "Continue" and c.args:
                    op = c.args[0]
                    continue
                if down and down[0][1] == "Ok":
                    return ("call", c)
            if d is not None and d[0] == "assign" and d[4][0] == "use" and not d[3][1]:
                src = d[4][1]
                if src[0] != "k":
                    op = ["c", [src[1][0], list(src[1][1]) + list(proj)]]
                    continue
        return o
    return ("deep",)


CORE_VARIANTS = {"ControlFlow": {"0": "Continue", "1": "Break"}, "Result": {"0": "Ok", "1": "Err"},
                 "Option": {"0": "None", "1": "Some"}}


def named_arms(adt, arms):
    """discr_switches names variants of workspace ADTs only; name the core ones here"""
    m = CORE_VARIANTS.get(adt.rsplit("::", 1)[-1], {})
    return {m.get(k, k): v for k, v in arms.items()}


def reads_field(body, op, name, depth=0):
    """does the operand's value derive (through temporaries, `?` and call arguments) from a read of field `name`"""
    if depth > 4:
        return False
    at = ps.atoms(body, op)
    if name in ps.atom_fields(at):
        return True
    for c in ps.atom_calls(at):
        for a in c.args:
            if reads_field(body, a, name, depth + 1):
                return True
    return False


def try_edges(body, f, call):
    """(ok_target, err_target) of the inspection of `call`'s Result (`?` or match)."""
    for sb, place, adt, arms, other in mir.discr_switches(body, f):
        arms = named_arms(adt, arms)
        if place[1]:
            continue
        base = place[0]
        if adt.endswith("ControlFlow"):
            d = mir.single_def(body, base)
            if d is None or d[0] != "call" or not d[1].is_("branch") or not d[1].args:
                continue
            o = through_try(body, d[1].args[0])
            if o[0] == "call" and o[1].b == call.b:
                return arms.get("Continue"), arms.get("Break")
        elif adt.endswith("result::Result"):
            o = through_try(body, ["c", [base, []]])
            if o[0] == "call" and o[1].b == call.b:
                return arms.get("Ok"), arms.get("Err")
    return None, None


def zero_compares(body):
    """Switches that compare a value with the constant 0: yields (block, var operand, zero_edge,
    nonzero_edge, line). Accepts `x == 0`, `x != 0`, `0 == x` and `match x { 0 => .., _ => .. }`."""
    for sb, op, l, r, tt, ft, ln in mir.cmp_switches(body):
        if op not in ("Eq", "Ne"):
            continue
        kl, kr = mir.resolve_const(body, l), mir.resolve_const(body, r)
        var = None
        if kr is not None and kr.get("v") == 0 and kl is None:
            var = l
        elif kl is not None and kl.get("v") == 0 and kr is None:
            var = r
        if var is None:
            continue
        ze, nz = (tt, ft) if op == "Eq" else (ft, tt)
        yield sb, var, ze, nz, ln
    for sb, t in mir.switches(body):
        if t[2] == "bool" or t[1][0] == "k":
            continue
        sc = mir.switch_scrutinee(body, sb)
        if sc[0] == "discr":
            continue
        vals = dict((int(v), tg) for v, tg in t[3])
        if list(vals) == [0]:
            yield sb, t[1], vals[0], t[4], t[5]


def is_loaded_byte(body, var):
    at = ps.atoms(body, var)
    return ("idx",) in at, at


def feeds(body, local):
    """locals whose value can flow into `local`: backward closure over whole-local assignments and call
    results. Writes through a projection (`(*self).pos = ..`) are ignored, so a pointer is not tainted
    by what is stored behind it."""
    deps = {}
    for b, i, pl, rv, ln in mir.assignments(body):
        if not pl[1]:
            deps.setdefault(pl[0], set()).update(l for op in mir.rvalue_operands(rv) for l in mir.operand_locals(op))
    for c in mir.calls(body):
        if not c.dest[1]:
            deps.setdefault(c.dest[0], set()).update(l for a in c.args for l in mir.operand_locals(a))
    seen, work = set(), [local]
    while work:
        x = work.pop()
        if x in seen:
            continue
        seen.add(x)
        work.extend(deps.get(x, ()))
    return seen


def in_cycle(body, b):
    return b in mir.reachable(body, mir.succs(body)[b])


def where(body, line):
    return "%s:%d" % (body.file, line)


# ------------------------------------------------------------------------------------- PAD
def check_padding(ctx, f, cfg):
    pp = ctx.one(f.find(name="parse_padding", adt=COMMON, trait=""), "DeserializerCommon::parse_padding")
    pads = [c for c in mir.calls(pp) if c.is_("padding_for_n_bytes")]
    ctx.need(pads, "padding_for_n_bytes call in parse_padding")
    pos_writes = {b for b, i, pl, rv, ln in mir.assignments(pp) if "pos" in mir.place_fields(pl)}
    ok_blocks = {b for b, i, pl, rv, ln in mir.assignments(pp)
                 if pl[0] == mir.RET and rv[0] == "agg" and rv[3] == "Ok"}
    n = 0
    for sb, var, ze, nz, ln in zero_compares(pp):
        loaded, at = is_loaded_byte(pp, var)
        if not loaded or "bytes" not in ps.atom_fields(at):
            continue
        n += 1
        ok, why = rejects(pp, nz, forbidden=pos_writes | ok_blocks)
        r = mir.reachable(pp, [nz]) if nz is not None else set()
        named = any(rv[0] == "agg" and rv[3] == "PaddingNot0" for b, i, pl, rv, l2 in mir.assignments(pp) if b in r)
        ctx.ob("PAD-ZERO", "parse_padding:nonzero-edge-rejects", ok and named,
               "[%s] non-zero padding byte: %s%s" % (cfg, why, "" if named else "; Error::PaddingNot0 is not built there"),
               where(pp, ln))
        byte_local = mir.root_local(pp, var)
        over_padding = bool(feeds(pp, byte_local) & {c.dest[0] for c in pads})
        ctx.ob("PAD-ZERO", "parse_padding:every-padding-byte", over_padding and in_cycle(pp, sb),
               "[%s] the tested byte's index derives from the padding count (%s) and the test is inside a loop (%s)" % (
                   cfg, over_padding, in_cycle(pp, sb)), where(pp, ln))
    ctx.floor("PAD-ZERO", "comparisons of a padding byte with 0 in parse_padding", n, 1)

    # PAD-CALL
    ncs = ctx.one(f.find(name="next_const_size_slice", adt=COMMON, trait=""), "next_const_size_slice")
    prep = ctx.one(f.find(name="prep_deserialize_basic", adt=COMMON, trait=""), "prep_deserialize_basic")
    takes = [c for c in mir.calls(ncs) if c.is_("next_slice")]
    ctx.floor("PAD-CALL", "next_slice calls in next_const_size_slice", len(takes), 1)
    guards = [c for c in mir.calls(ncs) if c.is_("prep_deserialize_basic", "parse_padding")]
    for t in takes:
        g = [c for c in guards if mir.block_dominates(ncs, c.b, t.b) and c.b != t.b]
        ok, detail = False, "no padding step dominates the slice"
        for c in g:
            oke, erre = try_edges(ncs, f, c)
            if erre is None:
                detail = "result of %s is not inspected" % c.callee
                continue
            if t.b in mir.reachable(ncs, [erre]):
                detail = "slice is still taken on the error edge of the padding step"
                continue
            ok, detail = True, "slice taken only after the padding step succeeded"
        ctx.ob("PAD-CALL", "next_const_size_slice:padding-before-slice", ok, "[%s] %s" % (cfg, detail), t.where)
    pcs = [c for c in mir.calls(prep) if c.is_("parse_padding")]
    ctx.floor("PAD-CALL", "parse_padding calls in prep_deserialize_basic", len(pcs), 1)
    for c in pcs:
        all_paths = all(mir.block_dominates(prep, c.b, e) for e in mir.exits(prep))
        oke, erre = try_edges(prep, f, c)
        prop = False
        if erre is not None:
            prop, _ = rejects(prep, erre)
        else:
            # tail position: the Result is returned as is
            prop = c.dest[0] == mir.RET
        ctx.ob("PAD-CALL", "prep_deserialize_basic:always-pads", all_paths and prop,
               "[%s] parse_padding on every path (%s), its error propagated (%s)" % (cfg, all_paths, prop), c.where)


# ------------------------------------------------------------------------------------- BOOL
OTHER_VALUES = (2, 3, 255, 256, 257, 1 << 31, (1 << 32) - 1)


def check_bool(ctx, f, cfg):
    fn = ctx.one(f.find(name="deserialize_bool", adt=DE, trait=SERDE_DE), "dbus deserialize_bool")
    reads = [c for c in mir.calls(fn) if c.is_("read_u32")]
    ctx.floor("BOOL", "reads of the 32-bit boolean in deserialize_bool", len(reads), 1)

    def event(c, vals):
        if is_visit(c):
            return ("visit", c.declared.rsplit("::", 1)[1], vals[1] if len(vals) > 1 else None)
        if c.is_("from_residual"):
            return ("residual",)
        return None

    for rd in reads:
        if rd.dest[1] or rd.c["t"] is None:
            ctx.ob("BOOL", "deserialize_bool:decoded-value-is-a-local", False, "[%s] read_u32 result is not a plain local" % cfg, rd.where)
            continue
        key = "deserialize_bool:"
        try:
            for v, want in ((0, False), (1, True)):
                outs = ps.simulate(fn, rd.c["t"], {rd.dest[0]: v}, event)
                rets = [o for o in outs if o[0] == "ret"]
                good = bool(rets)
                seen = set()
                for kind, env, tags in rets:
                    vis = {t for t in tags if t[0] == "visit"}
                    seen |= vis
                    if vis != {("visit", "visit_bool", want)}:
                        good = False
                ctx.ob("BOOL", key + ("one-is-true" if want else "zero-is-false"), good,
                       "[%s] decoded %d: visitor calls on returning paths %s" % (cfg, v, sorted(map(str, seen))), rd.where)
            bad = []
            for v in OTHER_VALUES:
                outs = ps.simulate(fn, rd.c["t"], {rd.dest[0]: v}, event)
                for kind, env, tags in outs:
                    if kind != "ret":
                        continue
                    vis = [t for t in tags if t[0] == "visit"]
                    r = env.get(mir.RET)
                    is_err = (isinstance(r, ps.Agg) and r[2] == "Err") or (r is None and ("residual",) in tags and not vis)
                    if vis or not is_err:
                        bad.append((v, [str(t) for t in vis] or "returns without Err"))
            ctx.ob("BOOL", key + "other-values-rejected", not bad,
                   "[%s] decoded values %s: %s" % (cfg, list(OTHER_VALUES), "all return Err, no visitor call" if not bad else "ACCEPTED: %s" % bad[:4]),
                   rd.where)
        except ps.TooManyStates:
            ctx.ob("BOOL", key + "evaluable", False, "[%s] state space exceeded" % cfg, rd.where)


# ------------------------------------------------------------------------------------- STR
def check_str(ctx, f, cfg):
    fn = ctx.one(f.find(name="deserialize_str", adt=DE, trait=SERDE_DE), "dbus deserialize_str")
    key = "deserialize_str:"
    visits = [c for c in mir.calls(fn) if is_visit(c)]
    ctx.floor("STR-UTF8", "visitor calls in deserialize_str", len(visits), 1)
    payloads = {}
    slices = [c for c in mir.calls(fn) if c.is_("next_slice") and not c.dest[1]]
    for v in visits:
        if len(v.args) < 2 or mir.op_local(v.args[1]) is None:
            continue
        src = feeds(fn, mir.op_local(v.args[1]))
        cand = [c for c in slices if c.dest[0] in src and mir.block_dominates(fn, c.b, v.b)]
        # the payload is the innermost one: the slice taken last before the visitor runs
        last = [c for c in cand if all(mir.block_dominates(fn, o.b, c.b) for o in cand)]
        for c in last:
            payloads[c.b] = c
    for v in visits:
        if len(v.args) < 2:
            ctx.ob("STR-UTF8", key + "checked-utf8", False, "[%s] visitor call without a string argument" % cfg, v.where)
            continue
        o = through_try(fn, v.args[1])
        ok = o[0] == "call" and o[1].callee == "core::str::converts::from_utf8"
        detail = "string handed to %s comes from %s" % (v.declared.rsplit("::", 1)[1], o[1].callee if o[0] == "call" else o[0])
        if ok:
            p = through_try(fn, o[1].args[0])
            ok = p[0] == "call" and p[1].is_("next_slice")
            detail += " of %s" % (p[1].callee if p[0] == "call" else p[0])
            if ok:
                ok = p[1].b in payloads and mir.block_dominates(fn, p[1].b, v.b)
        ctx.ob("STR-UTF8", key + "checked-utf8", ok, "[%s] %s" % (cfg, detail), v.where)
    for b in f.all_bodies("zvariant"):
        if "zvariant::dbus::de::" in b.root or b.root == fn.id:
            for c in mir.calls(b):
                if c.is_("from_utf8_unchecked", "from_utf8_lossy", "from_boxed_utf8_unchecked"):
                    ctx.ob("STR-UTF8", "no-unchecked-utf8:" + b.root, False,
                           "[%s] %s used in the D-Bus deserializer" % (cfg, c.callee), c.where)
    ctx.need(list(payloads.values()), "payload next_slice in deserialize_str", rule="STR-NUL")
    visit_blocks = {v.b for v in visits}

    # STR-NUL
    n = 0
    for sb, c, tt, ft, neg in mir.call_bool_switches(fn):
        if not (c.is_("contains") and ("[u8]" in c.fnargs or "[T]" in c.callee)):
            continue
        src = through_try(fn, c.args[0])
        if not (src[0] == "call" and src[1].b in payloads):
            continue
        no = mir.origin(fn, c.args[1]) if len(c.args) > 1 else ("none",)
        needle = no[1].get("pv", no[1].get("v")) if no[0] == "const" else None
        n += 1
        ok, why = rejects(fn, tt, forbidden=visit_blocks)
        dom = all(mir.block_dominates(fn, sb, vb) for vb in visit_blocks)
        ctx.ob("STR-NUL", key + "interior-nul-rejected", ok and dom and needle == 0,
               "[%s] `contains(&%s)` on the payload: found-edge %s; test dominates the visitor call: %s" % (cfg, needle, why, dom), c.where)
    ctx.floor("STR-NUL", "interior-nul tests on the payload in deserialize_str", n, 1)

    # STR-TERM
    found = []
    for sb, var, ze, nz, ln in zero_compares(fn):
        loaded, at = is_loaded_byte(fn, var)
        if not loaded:
            continue
        # not the length byte: the compared value must not flow into the payload length
        fwd = mir.derives(fn, {mir.root_local(fn, var)})
        if any(l in fwd for p in payloads.values() for a in p.args[1:] for l in mir.operand_locals(a)):
            continue
        ok, why = rejects(fn, nz, forbidden=visit_blocks)
        dom = all(mir.block_dominates(fn, sb, vb) for vb in visit_blocks)
        found.append((ok and dom, why, ln))
    good = any(x[0] for x in found)
    skip_lines = [ln for b, i, pl, rv, ln in mir.assignments(fn) if "pos" in mir.place_fields(pl)]
    ctx.ob("STR-TERM", key + "terminator-checked", good,
           "[%s] %s" % (cfg, "terminator byte is compared with 0 before the visitor runs" if good else
                        "no byte is loaded and compared with 0 between the payload and the visitor call: the terminator is "
                        "skipped unread%s" % (" (blind `pos` advance at line %s)" % skip_lines if skip_lines else "")),
           where(fn, found[0][2] if found else (skip_lines[0] if skip_lines else fn.span[0])))


# ------------------------------------------------------------------------------------- ARR
def pos_vs_end(body, l, r):
    """classify a comparison's operands: returns 'pos,end' / 'end,pos' / None"""
    al, ar = ps.atoms(body, l), ps.atoms(body, r)
    fl, fr = ps.atom_fields(al), ps.atom_fields(ar)

    def is_pos(fs):
        return "pos" in fs and not ({"start", "len"} & fs)

    def is_end(fs, at):
        return {"start", "len"} <= fs and "pos" not in fs and ("op", "Add") in at

    if is_pos(fl) and is_end(fr, ar):
        return "pos,end"
    if is_end(fl, al) and is_pos(fr):
        return "end,pos"
    return None


def check_array(ctx, f, cfg):
    nxt = ctx.one(f.find(name="next", adt=ARR, trait=""), "dbus ArrayDeserializer::next")
    des = [c for c in mir.calls(nxt) if c.declared == "serde_core::de::DeserializeSeed::deserialize"]
    ctx.floor("ARR-BOUND", "element deserializations in ArrayDeserializer::next", len(des), 1)
    tests = []
    for sb, op, l, r, tt, ft, ln in mir.cmp_switches(nxt):
        cls = pos_vs_end(nxt, l, r)
        if cls is None:
            continue
        if cls == "end,pos":
            op = {"Gt": "Lt", "Lt": "Gt", "Ge": "Le", "Le": "Ge"}.get(op, op)
        # now: pos <op> end
        if op == "Gt":
            tests.append((sb, tt, True, ln))
        elif op == "Le":
            tests.append((sb, ft, True, ln))
        elif op == "Ge":
            tests.append((sb, tt, False, ln))
        elif op == "Lt":
            tests.append((sb, ft, False, ln))
    ctx.floor("ARR-BOUND", "comparisons of pos with start+len in ArrayDeserializer::next", len(tests), 1)
    for d in des:
        covered = False
        for sb, edge, strict, ln in tests:
            after = mir.reachable(nxt, [d.b], avoid={sb})
            if not any(e in after for e in mir.exits(nxt)) and sb in mir.reachable(nxt, [d.b]):
                covered = True
        ctx.ob("ARR-BOUND", "ArrayDeserializer::next:overrun-test-after-element", covered,
               "[%s] every path from the element's deserialization to a return passes the `pos > start+len` test: %s" % (cfg, covered), d.where)
    for sb, edge, strict, ln in tests:
        ok, why = rejects(nxt, edge)
        ctx.ob("ARR-BOUND", "ArrayDeserializer::next:overrun-edge-rejects", ok, "[%s] overrun edge: %s" % (cfg, why), where(nxt, ln))
        ctx.ob("ARR-BOUND", "ArrayDeserializer::next:exact-end-accepted", strict,
               "[%s] comparison is %s" % (cfg, "strict (an element ending exactly at start+len is accepted)" if strict
                                           else "NOT strict: an array whose last element ends at start+len is rejected"), where(nxt, ln))

    # ARR-WHO
    fam = ("zvariant::dbus::de::ArrayDeserializer", "zvariant::dbus::de::ArraySeqDeserializer", "zvariant::dbus::de::ArrayMapDeserializer")
    n = 0
    for b in f.all_bodies("zvariant"):
        if b.d.get("impl_adt") not in fam:
            continue
        for c in mir.calls(b):
            if c.declared == "serde_core::de::DeserializeSeed::deserialize":
                n += 1
                ctx.ob("ARR-WHO", "element-deserialized-in:" + b.root, b.root == nxt.id,
                       "[%s] %s" % (cfg, "the bounds-checked step" if b.root == nxt.id else
                                    "element deserialized outside ArrayDeserializer::next (no overrun test)"), c.where)
    ctx.floor("ARR-WHO", "element deserializations in the array access types", n, 1)

    # ARR-USE: whoever else obtains an ArrayDeserializer must not let an element be decoded unbounded
    n_users = 0
    for b in f.all_bodies("zvariant"):
        if "zvariant::dbus::de::" not in b.root or b.d.get("impl_adt") in fam:
            continue
        news = [c for c in mir.calls(b) if c.callee.startswith(ARR) and c.is_("new")]
        if not news:
            continue
        n_users += 1
        reentries = []
        for c in mir.calls(b):
            if c.declared == "serde_core::de::DeserializeSeed::deserialize":
                reentries.append(c)
            elif is_visit(c):
                for a in c.args[1:]:
                    l = mir.op_local(a)
                    ty = b.locals[l][0] if l is not None else ""
                    if ty.startswith("&mut ") and "dbus::de::Deserializer<" in ty:
                        reentries.append(c)
        for c in reentries:
            after = mir.reachable(b, [c.b])
            bounded = False
            for sb, op, l, r, tt, ft, ln in mir.cmp_switches(b):
                if sb in after and pos_vs_end(b, l, r) is not None:
                    bounded = True
            for c2 in mir.calls(b):
                if c2.b in after and c2.b != c.b and c2.callee.startswith(ARR) and c2.is_("done", "next", "next_element"):
                    bounded = True
            ctx.ob("ARR-USE", "%s:element-bounded" % b.name, bounded,
                   "[%s] %s reads the array length with ArrayDeserializer::new and then lets %s decode an element from the same "
                   "deserializer; %s" % (cfg, b.name, c.callee.rsplit("::", 1)[-1],
                                         "the position is compared with start+len afterwards" if bounded else
                                         "the position is never compared with start+len: any non-zero length is accepted, "
                                         "whatever the element consumes"), c.where)
    ctx.floor("ARR-USE", "users of ArrayDeserializer::new outside the array access types", n_users, 2)

    # ARR-END
    done = ctx.one(f.find(name="done", adt=ARR, trait=""), "dbus ArrayDeserializer::done")
    cmps = []
    for b, i, pl, rv, ln in mir.assignments(done):
        if rv[0] == "bin" and rv[1] in ("Eq", "Ne", "Ge", "Le", "Gt", "Lt"):
            cmps.append((rv, ln))
    good = []
    for rv, ln in cmps:
        cls = pos_vs_end(done, rv[2], rv[3])
        op = rv[1]
        if cls == "end,pos":
            op = {"Gt": "Lt", "Lt": "Gt", "Ge": "Le", "Le": "Ge"}.get(op, op)
        good.append(cls is not None and op in ("Eq", "Ge", "Ne", "Lt"))
    ctx.ob("ARR-END", "ArrayDeserializer::done:compares-pos-with-end", bool(good) and all(good),
           "[%s] done() is a comparison of `pos` with `start + len`: %s" % (cfg, good), done.where)
    ne = ctx.one(f.find(name="next_element", adt=ARR, trait=""), "dbus ArrayDeserializer::next_element")
    reads = [c for c in mir.calls(ne) if c.callee.startswith(ARR) and c.is_("next")]
    ctx.floor("ARR-END", "calls of next in next_element", len(reads), 1)
    sw = [(sb, c, tt, ft) for sb, c, tt, ft, neg in mir.call_bool_switches(ne) if c.callee.startswith(ARR) and c.is_("done")]
    for rd in reads:
        ok = False
        for sb, c, tt, ft in sw:
            if tt is None or ft is None:
                continue
            on_done = mir.reachable(ne, [tt])
            if mir.block_dominates(ne, sb, rd.b) and rd.b not in on_done and rd.b in mir.reachable(ne, [ft]):
                ok = True
        ctx.ob("ARR-END", "ArrayDeserializer::next_element:stops-at-end", ok,
               "[%s] an element is read only on the not-done edge of done()" % cfg, rd.where)


# ------------------------------------------------------------------------------------- FD
def check_fd(ctx, f, cfg):
    roots = f.find(name="get_fd", adt=COMMON, trait="")
    if not roots:
        ctx.note("[%s] get_fd not built (non-unix)" % cfg)
        return
    gf = ctx.one(roots, "DeserializerCommon::get_fd")
    fam = f.family(gf)
    gets, idxs, unwraps, unknown = [], [], [], 0
    for b in fam:
        for c in mir.calls(b):
            if c.is_("get") and "slice" in c.callee:
                gets.append(c)
            if c.is_("index", "index_mut", "get_unchecked"):
                idxs.append(c)
            if c.is_("unwrap", "expect", "unwrap_unchecked", "unwrap_or_default", "unwrap_or"):
                unwraps.append(c)
        for blk_i, blk in enumerate(b.blocks):
            t = blk["t"]
            if t[0] == "assert" and t[3][0] == "bounds" and blk_i in mir.live_blocks(b):
                idxs.append(None)
        for bi, i, pl, rv, ln in mir.assignments(b):
            if rv[0] == "agg" and rv[1] == "adt" and rv[3] == "UnknownFd":
                unknown += 1
    ctx.ob("FD", "get_fd:checked-lookup", bool(gets) and not idxs and not unwraps,
           "[%s] checked slice::get: %d, indexing: %d, unwraps: %d" % (cfg, len(gets), len(idxs), len(unwraps)), gf.where)
    ctx.ob("FD", "get_fd:miss-is-UnknownFd", unknown >= 1, "[%s] Error::UnknownFd constructions: %d" % (cfg, unknown), gf.where)
    i32 = ctx.one(f.find(name="deserialize_i32", adt=DE, trait=SERDE_DE), "dbus deserialize_i32")
    n = 0
    for sb, place, adt, arms, other in mir.discr_switches(i32, f, SIG):
        if "Fd" not in arms:
            continue
        n += 1
        reg = mir.reachable(i32, [arms["Fd"]], avoid={other} | {t for k, t in arms.items() if k != "Fd"})
        gfc = [c for c in mir.calls(i32) if c.b in reg and c.is_("get_fd")]
        ok = False
        detail = "no get_fd call in the Fd arm"
        for c in gfc:
            src = through_try(i32, c.args[1]) if len(c.args) > 1 else ("none",)
            ok = src[0] == "call" and src[1].is_("read_u32")
            detail = "get_fd(index) with index from %s" % (src[1].callee if src[0] == "call" else src[0])
        visits = [c for c in mir.calls(i32) if is_visit(c)]
        fwd = mir.derives(i32, {c.dest[0] for c in gfc})
        flows = any(l in fwd for v in visits for a in v.args[1:] for l in mir.operand_locals(a))
        ctx.ob("FD", "deserialize_i32:fd-arm-resolves-index", ok and flows,
               "[%s] %s; its result reaches the visitor: %s" % (cfg, detail, flows), where(i32, i32.span[0]))
    ctx.floor("FD", "Fd arms in deserialize_i32", n, 1)


# ------------------------------------------------------------------------------------- VAR-SIG
PARSERS = ("zvariant_utils::signature::Signature::from_bytes",
           "<zvariant_utils::signature::Signature as core::convert::TryFrom<&[u8]>>::try_from",
           "<zvariant_utils::signature::Signature as core::convert::TryFrom<&str>>::try_from",
           "<zvariant_utils::signature::Signature as core::str::traits::FromStr>::from_str")


def check_variant_sig(ctx, f, cfg):
    fn = ctx.one(f.find(name="next_element_seed", adt="zvariant::dbus::de::ValueDeserializer", trait="serde_core::de::SeqAccess"),
                 "dbus ValueDeserializer::next_element_seed")
    aggs = [(b, i, rv, ln) for b, i, pl, rv, ln in mir.assignments(fn) if rv[0] == "agg" and rv[1] == "adt" and rv[2] == COMMON]
    ctx.floor("VAR-SIG", "child deserializers built in ValueDeserializer::next_element_seed", len(aggs), 1)
    parses = [c for c in mir.calls(fn) if c.callee in PARSERS]
    for b, i, rv, ln in aggs:
        op = rv[4][rv[5].index("signature")]
        o = mir.origin(fn, op)
        src = through_try(fn, ["c", o[1]]) if o[0] in ("ref", "place") else o
        ok = src[0] == "call" and src[1].callee in PARSERS
        detail = "child signature comes from %s" % (src[1].callee if src[0] == "call" else src[0])
        if ok:
            wire = reads_field(fn, src[1].args[0], "bytes")
            oke, erre = try_edges(fn, f, src[1])
            left = erre is not None and b not in mir.reachable(fn, [erre])
            ok = wire and left
            detail += "; parsed from the wire bytes: %s; parse error leaves before the child is built: %s" % (wire, left)
        ctx.ob("VAR-SIG", "ValueDeserializer::next_element_seed:signature-parsed", ok, "[%s] %s" % (cfg, detail), where(fn, ln))


# ------------------------------------------------------------------------------------- V-CTOR
def is_obj_valid(c):
    return c.callee.startswith("<zvariant::object_path::ObjectPath<") and " as core::convert::TryFrom<" in c.callee and c.is_("try_from") \
        or (c.callee.startswith("zvariant::object_path::ObjectPath::") and c.is_("from_static_str"))


def is_unchecked_ctor(c):
    n = c.callee
    return ("object_path::ObjectPath" in n or "signature::Signature" in n) and n.rsplit("::", 1)[-1].endswith("_unchecked")


def str_visitors(f, adt):
    out = []
    for b in f.all_bodies("zvariant"):
        if b.d.get("impl_adt") == adt and b.d.get("impl_trait") == "serde_core::de::Visitor" and \
                b.name in ("visit_str", "visit_borrowed_str", "visit_string", "visit_bytes", "visit_borrowed_bytes", "visit_byte_buf"):
            out.append(b)
    return out


def check_value_ctor(ctx, f, cfg):
    vs = str_visitors(f, "zvariant::value::ValueSeed")
    ctx.need(vs, "ValueSeed string visitors", rule="V-CTOR")
    n_arms = 0
    for b in vs:
        fam = f.family(b) if b.root == b.id else [b]
        for sb, place, adt, arms, other in mir.discr_switches(b, f, SIG):
            if "signature" not in mir.place_fields(mir.canon_place(b, place)) and "signature" not in mir.place_fields(place):
                # the scrutinee is the seed's signature (possibly through a re-borrow temp)
                o = mir.origin(b, ["c", [place[0], []]])
                if not (o[0] in ("ref", "place") and "signature" in mir.place_fields(o[1])):
                    continue
            for var, valid, what in (("ObjectPath", is_obj_valid, "ObjectPath"), ("Signature", lambda c: c.callee in PARSERS, "Signature")):
                if var not in arms:
                    continue
                n_arms += 1
                reg = mir.reachable(b, [arms[var]], avoid={other} | {t for k, t in arms.items() if t != arms[var]})
                cs = [c for c in mir.calls(b) if c.b in reg]
                val = [c for c in cs if valid(c)]
                unc = [c for c in cs if is_unchecked_ctor(c)]
                oks = {bb for bb, i, pl, rv, ln in mir.assignments(b) if bb in reg and pl[0] == mir.RET and rv[0] == "agg" and rv[3] == "Ok"}
                ok = bool(val) and not unc
                if ok:
                    # an Ok built in the arm must not be reachable from the validator's error edge
                    for c in val:
                        oke, erre = try_edges(b, f, c)
                        if erre is not None and oks & mir.reachable(b, [erre]):
                            ok = False
                ctx.ob("V-CTOR", "%s:%s-arm-validates" % (b.id, what), ok,
                       "[%s] %s arm: validating constructors %s, unchecked constructors %s" % (
                           cfg, what, [c.callee.rsplit("::", 1)[-1] for c in val], [c.callee for c in unc]),
                       (unc[0].where if unc else (val[0].where if val else b.where)))
    ctx.floor("V-CTOR", "ObjectPath/Signature arms in ValueSeed string visitors", n_arms, 2)

    # typed targets
    ov = str_visitors(f, "zvariant::object_path::ObjectPathVisitor")
    ctx.need(ov, "ObjectPathVisitor string visitors", rule="V-CTOR")
    for b in ov:
        cs = [c for bb in ([b] + [x for x in f.children.get(b.id, [])]) for c in mir.calls(bb)]
        val = [c for c in cs if is_obj_valid(c)]
        unc = [c for c in cs if is_unchecked_ctor(c)]
        fwd_ok = all(mir.block_dominates(b, c.b, e) for c in val for e in mir.exits(b)) if val else False
        ctx.ob("V-CTOR", "%s:validates" % b.id, bool(val) and not unc and fwd_ok,
               "[%s] validating constructors %s on every path (%s), unchecked constructors %s" % (
                   cfg, [c.callee.rsplit("::", 1)[-1] for c in val], fwd_ok, [c.callee for c in unc]), b.where)
    sd = ctx.one(f.find(name="deserialize", adt=SIG, trait="serde_core::de::Deserialize"), "<Signature as Deserialize>::deserialize")
    cs = [c for bb in f.family(sd) for c in mir.calls(bb)]
    val = [c for c in cs if c.callee in PARSERS]
    ctx.ob("V-CTOR", "%s:parses" % sd.id, bool(val), "[%s] signature strings go through %s" % (cfg, [c.callee for c in val]), sd.where)


def check_config(ctx, f, cfg):
    for fn in (check_padding, check_bool, check_str, check_array, check_fd, check_variant_sig, check_value_ctor):
        try:
            fn(ctx, f, cfg)
        except Exception as e:
            from ..core import AnchorMissing
            if not isinstance(e, AnchorMissing):
                raise


def run(ctx):
    ctx.explanation = (
        "Static rules over the MIR of zvariant's D-Bus deserializer (K1 and K2). Each rejection the property enumerates is "
        "located and its effect decided: padding bytes are each compared with 0 and a non-zero byte can only yield "
        "Err(PaddingNot0); deserialize_bool is evaluated for the decoded values 0, 1 and seven others (only 0/1 reach "
        "visit_bool, with the right constant; the others return Err); deserialize_str tests the payload for an interior nul, "
        "decodes it with checked from_utf8, and must read and compare the terminator; array elements are followed by a strict "
        "`pos > start+len` test whose failing edge returns Err and no element is deserialized elsewhere; get_fd uses a checked "
        "lookup mapped to UnknownFd; the variant's child signature comes from the validating parser on wire bytes; ObjectPath "
        "and Signature values built from decoded strings go through validating constructors only.")
    ctx.not_decided = ("that nothing else is accepted wrongly (variant signature with several complete types, DESIGN §7 O3); the "
                       "object-path and signature grammars (C10/C06); nesting limits (C07); GVariant decoding.")
    ctx.assumptions.append("serde Visitor implementations are only reached through the deserializer methods analysed here")
    for cfg in ("K1", "K2"):
        check_config(ctx, ctx.facts(cfg), cfg)
