"""C17 — The client-side handshake succeeds only on a proper server acceptance (DESIGN §5.C17).

Rules over rustc's MIR of zbus (K1).  "Under X" = on every feasible path to the site the match / `if`
edges taken leave X as the only possible value (variant-set dataflow `lib_hs.VarFacts`).

  AUTH      Client::authenticate: the command matched on is the Ok value of `read_command().await?`;
            every `Ok(..)` return happens under Command::Ok *and* after `set_guid(<payload of that OK>)`
            returned Ok (its `?` continued); every other return is an `Err(..)`, a `?` residual, or the
            result of set_guid itself; under each other command variant no Ok return is reachable
  SET-GUID  Client::set_guid: whenever an expected GUID is present it is compared with the argument
            (every path under `server_guid = Some` passes the comparison), the unequal edge cannot
            reach an Ok return, and the only write of `Client.server_guid` outside `Client::new`
            stores `Some(<argument>)` under `server_guid = None`; no `&mut` to the field exists
  GUID-CTOR every `Guid(..)` aggregate in the workspace is dominated by the successful `?` of
            validate_guid, or is a copy of an existing Guid (to_owned / Clone) or the freshly generated
            uuid; `Command::Ok` is built in Command::from_str only from the `?`-continued result of
            `Guid::from_str` / `try_from`
  FD-CAP    every `set_cap_unix_fd(..)` on the client side passes literal `true` and runs under
            Command::AgreeUnixFD of a command that was read from the server; `Common.cap_unix_fd` is
            written only by `Common::new` (literal false) and `set_cap_unix_fd`
  SECONDARY receive_secondary_responses / the flatpak branch of send_secondary_commands: under any
            command other than OK / AGREE_UNIX_FD / ERROR control reaches neither the next response,
            nor the BEGIN write, nor an Ok return
  PERFORM   <Client as Handshake>::perform builds `Authenticated` only after authenticate() and
            send_secondary_commands() continued through `?`; its server_guid is `Client.server_guid`
  HANDOFF   handshake part of the C14 chain, client and server: Common::into_components returns
            (socket, recv_buffer, received_fds, cap_unix_fd, mechanism) from the same-named fields, and both
            `perform` bodies put component 1 / 2 / 3 into Authenticated.already_received_bytes /
            already_received_fds / cap_unix_fd; on a bus connection the Hello reply is read with the same
            leftover buffer
  READ-N    Common::read_commands returns Ok only through the `received == n_commands` test and
            pushes exactly one command per increment
  WIRE      keyword tables: Command::from_str / AuthMechanism::from_str map exactly the specification's
            keywords to their variants, and Display / as_str write each variant with its own keyword
  PANIC     R-PANIC over the client handshake modules (client, common, command, auth_mechanism)

Not decided: transport behaviour, hex/uuid crates, the bus side of Hello (C14/C12 own receive_message);
the bus-hello path hands a fresh empty fd list to receive_message (noted in DESIGN, not a rule).
"""
from .. import mir
from .. import lib_hs as hs

META = {
    "technique": "MIR variant-set dataflow + return-path classification + who-may-write tables + scoped panic audit",
    "level": ("Necessary structural conditions decided on the type-checked MIR: which returns of authenticate are Ok and "
              "under which command, that a GUID mismatch cannot end in Ok, that fd passing is enabled only under "
              "AGREE_UNIX_FD, that unexpected secondary responses end the handshake, that leftover bytes/fds reach "
              "Authenticated, and that panic-capable constructs of the client modules are guarded. "
              "Transport behaviour and third-party crates are not analysed."),
}

HS = hs.HSMOD
CLIENT = HS + "client::Client"
SERVER = HS + "server::Server"
CMD = HS + "command::Command"
COMMON = HS + "common::Common"
AUTHD = HS + "Authenticated"
GUID = "zbus::guid::Guid"
OGUID = "zbus::guid::OwnedGuid"

CLIENT_PANIC_OK = {
    (CLIENT + "::send_secondary_commands", "overflow", "Sub(call:len,const:1)"):
        ("`commands` always holds BEGIN (pushed unconditionally before the subtraction)", "push-dominates"),
    ("<%s as %sHandshake>::perform" % (CLIENT, HS), "unwrap", "unwrap(capture.self.server_guid)"):
        ("authenticate() returned Ok, which implies set_guid ran and left server_guid = Some (AUTH, SET-GUID)", None),
    (HS + "client::create_hello_method_call", "unwrap", "unwrap(call:method_call)"):
        ("constant, valid path and member", None),
    (HS + "client::create_hello_method_call", "unwrap", "unwrap(call:destination)"):
        ("constant, valid bus name", None),
    (HS + "client::create_hello_method_call", "unwrap", "unwrap(call:interface)"):
        ("constant, valid interface name", None),
    (HS + "client::create_hello_method_call", "unwrap", "unwrap(call:build)"):
        ("empty body", None),
}


def _req_push_dominates(f, body, vf, blk, info):
    # the minuend is `v.len()`; a `push` on the same Vec dominates the site on every path
    lhs = info[3][2]
    o = mir.origin(body, lhs)
    if o[0] != "call" or not o[1].is_("len") or not o[1].args:
        return False
    vec = hs.canon(body, [mir.op_local(o[1].args[0]), ["*"]])
    for c in mir.calls(body):
        if c.is_("push") and c.args:
            v2 = hs.canon(body, [mir.op_local(c.args[0]), ["*"]])
            if hs.pkey(v2) == hs.pkey(vec) and mir.block_dominates(body, c.b, blk) and c.b != blk:
                return True
    return False


hs.PANIC_REQS["push-dominates"] = _req_push_dominates


def W(body, line):
    return "%s:%d" % (body.file, line)


def short(i):
    return i.replace(HS, "")


def code(ctx, f, root, pred, what):
    return ctx.one(hs.code_bodies(f, root.id, pred), "code body of %s (%s)" % (short(root.id), what))


def residual_blocks(body):
    return {c.b for c in mir.calls(body) if c.is_("from_residual")}


def pointee(body, op):
    l = mir.op_local(op)
    if l is None:
        return None
    return hs.canon(body, [l, list(op[1][1]) + ["*"]])


def deep_pointee(body, op):
    """the non-reference place behind a reference operand (`&T`, `&&T`, ...)"""
    p = pointee(body, op)
    for _ in range(3):
        if p is None or p[1]:
            break
        ty = body.locals[p[0]][0]
        if not ty.startswith("&"):
            break
        p = hs.canon(body, [p[0], ["*"]])
    return p


def read_key(ctx, rule, name, body, vf, reader):
    """canonical key of the single Command value matched on in `body`; it must derive from the result of the
    read call `reader` (read_command / read_commands)"""
    keys = vf.enum_keys(CMD)
    rcs = [c for c in mir.calls(body) if c.callee == COMMON + "::" + reader]
    if len(keys) != 1 or len(rcs) != 1:
        ctx.ob(rule, name + ":one-command-read-and-matched", False,
               "%d %s call(s), %d Command value(s) matched on" % (len(rcs), reader, len(keys)), body.where)
        return None, None, None
    key = list(keys)[0]
    rc = rcs[0]
    br = hs.try_of(body, rc)
    ok = False
    if br is not None:
        if key[0] == br.dest[0] and key[1][:2] == (("as", "Continue"), (".", 0)):
            ok = True
        else:
            der = mir.derives(body, {br.dest[0]})
            ok = key[0] in der
    ctx.ob(rule, name + ":matched-command-was-read-from-server", ok,
           "the command matched on is (an element of) the Ok value of %s().await?" % reader, rc.where)
    return (key, rc, br) if ok else (None, None, None)


# =========================================================================================== AUTH
def rule_auth(ctx, f, roots):
    body = code(ctx, f, roots["authenticate"], hs.has_call("read_command"), "calls read_command")
    vf = hs.vfacts(f, body)
    key, rc, br = read_key(ctx, "AUTH", "authenticate", body, vf, "read_command")
    if key is None:
        return
    sgs = [c for c in mir.calls(body) if c.callee == CLIENT + "::set_guid"]
    ctx.floor("AUTH", "set_guid call in authenticate", len(sgs), 1)
    for c in sgs:
        got = vf.possible(c.b, key)
        ctx.ob("AUTH", "authenticate:set_guid-under-OK", got == frozenset(["Ok"]), "set_guid runs under Command::Ok", c.where)
        p = mir.op_place(c.args[1]) if len(c.args) > 1 else None
        k = hs.ckey(body, p) if p is not None else None
        ok = k is not None and k[0] == key[0] and k[1] == key[1] + (("as", "Ok"), (".", 0))
        ctx.ob("AUTH", "authenticate:set_guid-gets-OK-payload", ok, "the GUID checked is the one carried by the server's OK", c.where)
    rets = hs.returns(body)
    n_ok = 0
    ok_blocks = set()
    for kind, b, info in rets:
        if kind == "ok":
            n_ok += 1
            ok_blocks.add(b)
            st = vf.state_at_term(b) or {}
            under_ok = st.get(key) == frozenset(["Ok"])
            guid_ok = False
            for c in sgs:
                sbr = hs.try_of(body, c)
                if sbr is not None and st.get((sbr.dest[0], ())) == frozenset(["Continue"]):
                    guid_ok = True
            ctx.ob("AUTH", "authenticate:Ok-only-under-Command::Ok", under_ok,
                   "authenticate returns Ok only under Command::Ok" if under_ok else
                   "authenticate can return Ok under command(s) %s" % (sorted(st.get(key)) if st.get(key) else "any"), body.where)
            ctx.ob("AUTH", "authenticate:Ok-only-after-set_guid-Ok", guid_ok,
                   "authenticate returns Ok only after set_guid(..)? continued" if guid_ok else
                   "authenticate can return Ok without set_guid having returned Ok", body.where)
        elif kind == "call":
            c = info
            is_sg = c is not None and c.callee == CLIENT + "::set_guid"
            if is_sg:
                n_ok += 1
                got = vf.possible(c.b, key)
                ctx.ob("AUTH", "authenticate:Ok-only-under-Command::Ok", got == frozenset(["Ok"]),
                       "the result of set_guid is returned under Command::Ok only", c.where)
            else:
                ctx.ob("AUTH", "authenticate:return-shape", False,
                       "authenticate returns the result of %s" % (c.callee if c is not None else "?"), body.where)
        elif kind == "other":
            ctx.ob("AUTH", "authenticate:return-shape", False, "unrecognised return value in authenticate", body.where)
    ctx.floor("AUTH", "successful returns of authenticate", n_ok, 1)
    # per variant: no Ok return reachable under any other command
    for v in [x["name"] for x in f.adts[CMD]["variants"]]:
        if v == "Ok":
            continue
        within = vf.blocks_where(key, v)
        seen = vf.reach([br.b], within=within)
        bad = seen & ok_blocks
        ctx.ob("AUTH", "authenticate:%s-is-an-error" % v, not bad,
               "a %s reply to AUTH never ends in Ok" % v if not bad else "a %s reply to AUTH can end in Ok(())" % v, rc.where)


# =========================================================================================== SET-GUID
def rule_set_guid(ctx, f, roots):
    body = roots["set_guid"]
    vf = hs.vfacts(f, body)
    # the Option<OwnedGuid> matched on is Client.server_guid
    opt_keys = {}
    for b, t in mir.switches(body):
        sc = mir.switch_scrutinee(body, b)
        if sc[0] == "discr" and sc[2] == "core::option::Option":
            cp = hs.canon(body, sc[1])
            if hs.place_has_field(cp, "server_guid", CLIENT):
                opt_keys[hs.pkey(cp)] = b
    ctx.ob("SET-GUID", "set_guid:matches-on-server_guid", len(opt_keys) == 1,
           "set_guid distinguishes server_guid = Some / None", body.where)
    if len(opt_keys) != 1:
        return
    sgkey = list(opt_keys)[0]
    cmps = []
    for c in mir.calls(body):
        if not (c.is_("eq", "ne") and "PartialEq" in (c.callee + c.declared) and len(c.args) == 2):
            continue
        sides = set()
        for a in c.args:
            p = deep_pointee(body, a)
            if p is None:
                continue
            if p[0] == 2 and not [x for x in p[1] if x != "*"]:
                sides.add("arg")
            elif hs.place_has_field(p, "server_guid", CLIENT) and any(isinstance(x, list) and x[0] == "as" and x[1] == "Some" for x in p[1]):
                sides.add("expected")
        if sides == {"arg", "expected"}:
            cmps.append(c)
    ctx.floor("SET-GUID", "comparison of the expected GUID with the received one", len(cmps), 1)
    if not cmps:
        return
    rets = hs.returns(body)
    ok_blocks = {b for kind, b, info in rets if kind == "ok"}
    ctx.floor("SET-GUID", "Ok returns of set_guid", len(ok_blocks), 1)
    for kind, b, info in rets:
        if kind in ("call", "other"):
            ctx.ob("SET-GUID", "set_guid:return-shape", False, "unrecognised return value in set_guid", body.where)
    exits = set(mir.exits(body))
    # (b) with an expected GUID the comparison cannot be bypassed
    within = vf.blocks_where(sgkey, "Some")
    seen = vf.reach([0], avoid={c.b for c in cmps}, within=within)
    ctx.ob("SET-GUID", "set_guid:comparison-not-bypassed", not (seen & exits),
           "with an expected GUID every path compares it with the received one" if not (seen & exits) else
           "set_guid can return without comparing although a GUID is expected", body.where)
    # (c) mismatch edge never reaches Ok
    for c in cmps:
        ck = (c.dest[0], ())
        neq = "false" if c.is_("eq") else "true"
        sw = [sb for sb, t in mir.switches(body) if mir.op_place(t[1]) is not None and hs.ckey(body, mir.op_place(t[1])) == ck]
        ok = bool(sw)
        why = "the result of the GUID comparison is not branched on"
        for sb in sw:
            tt, ft = mir.bool_switch_edges(mir.term(body, sb))
            edge = ft if c.is_("eq") else tt
            seen = vf.reach([edge], within=vf.blocks_where(ck, neq))
            if seen & ok_blocks:
                ok = False
                why = "a GUID different from the expected one can still end in Ok(())"
            if not (seen & exits):
                ok = False
                why = "the mismatch edge does not return"
        ctx.ob("SET-GUID", "set_guid:mismatch-is-Err", ok, "a GUID different from the expected one ends in Err" if ok else why, c.where)
    # writers of Client.server_guid
    ws = hs.writes_of_field(f, CLIENT, "server_guid")
    ctx.floor("SET-GUID", "writes of Client.server_guid", len(ws), 2)
    for wb, b, i, kind, rv, ln in ws:
        root = wb.root
        where = W(wb, ln)
        if root == roots["new"].id and kind == "agg":
            o = mir.origin(wb, rv)
            ok = o[0] == "place" and hs.is_arg(wb, o[1][0])
            ctx.ob("SET-GUID", "server_guid-writer:Client::new", ok, "initialised from the caller's expectation", where)
        elif root == roots["set_guid"].id and kind == "field":
            a = hs.agg_of(wb, rv[1]) if rv[0] == "use" else None
            is_some_arg = False
            if a is not None and a[3] == "Some" and a[4]:
                src = mir.op_place(a[4][0])
                is_some_arg = src is not None and hs.canon(wb, src)[0] == 2
            under_none = vf.possible(b, sgkey, at_term=False) == frozenset(["None"])
            ctx.ob("SET-GUID", "server_guid-writer:set_guid", is_some_arg and under_none,
                   "set_guid stores Some(received GUID) only when none was expected" if is_some_arg and under_none else
                   "set_guid overwrites server_guid (stores-argument=%s, only-when-None=%s)" % (is_some_arg, under_none), where)
        elif "core::fmt::Debug" in root or "core::clone::Clone" in root:
            continue
        else:
            ctx.ob("SET-GUID", "server_guid-writer:" + short(root), False, "unexpected writer of Client.server_guid", where)
    mb = hs.mut_borrows_of_field(f, CLIENT, "server_guid")
    ctx.ob("SET-GUID", "no-mutable-borrow-of-server_guid", not mb, "no `&mut self.server_guid` anywhere", mb[0][0].where if mb else "-")


# =========================================================================================== GUID-CTOR
def rule_guid_ctor(ctx, f):
    n = 0
    copies = {GUID + "::<'_>::to_owned": "copy of an existing Guid",
              GUID + "::<'_>::generate": "freshly generated uuid (simple format)"}
    for b in f.all_bodies():
        for bi, i, pl, rv, ln in mir.assignments(b):
            if not (rv[0] == "agg" and rv[1] == "adt" and rv[2] in (GUID, OGUID)):
                continue
            n += 1
            root = b.root
            where = W(b, ln)
            key = "ctor:%s-in-%s" % (rv[2].rsplit("::", 1)[-1], root)
            if "Clone" in (b.d.get("macro") or "") and "core::clone::Clone" in root:
                ctx.ob("GUID-CTOR", key, True, "derived Clone", where)
                continue
            if rv[2] == OGUID:
                # wraps an existing Guid value
                ty = b.locals[mir.op_local(rv[4][0])][0] if rv[4] and mir.op_local(rv[4][0]) is not None else ""
                ctx.ob("GUID-CTOR", key, ty.startswith(GUID), "OwnedGuid wraps an existing Guid (%s)" % ty, where)
                continue
            if root in copies:
                ctx.ob("GUID-CTOR", key, True, copies[root], where)
                continue
            vf = hs.vfacts(f, b)
            st = vf.state_at_term(bi) or {}
            ok = False
            for c in mir.calls(b):
                if c.callee == "zbus::guid::validate_guid":
                    br = hs.try_of(b, c)
                    if br is not None and st.get((br.dest[0], ())) == frozenset(["Continue"]):
                        ok = True
            ctx.ob("GUID-CTOR", key, ok, "built only after validate_guid(..)? continued" if ok else
                   "a Guid is built without a dominating successful validate_guid", where)
    ctx.floor("GUID-CTOR", "constructions of Guid / OwnedGuid", n, 6)
    # Command::Ok in from_str
    fs = ctx.one(f.find(name="from_str", adt=CMD, trait="core::str::traits::FromStr"), "<Command as FromStr>::from_str")
    vf = hs.vfacts(f, fs)
    oks = [(bi, rv, ln) for bi, i, pl, rv, ln in mir.assignments(fs) if rv[0] == "agg" and rv[1] == "adt" and rv[2] == CMD and rv[3] == "Ok"]
    ctx.floor("GUID-CTOR", "Command::Ok built in Command::from_str", len(oks), 1)
    for bi, rv, ln in oks:
        cur = rv[4][0]
        ok = False
        why = "the GUID of Command::Ok does not come from Guid::from_str(..)?"
        for _ in range(6):
            o = mir.origin(fs, cur)
            if o[0] == "call" and o[1].is_("into", "from", "to_owned") and o[1].args:
                cur = o[1].args[0]
                continue
            if o[0] == "place":
                d = hs.single_def(fs, o[1][0])
                if d is not None and d[0] == "call" and d[1].is_("branch") and d[1].args:
                    src = mir.origin(fs, d[1].args[0])
                    if src[0] == "call" and GUID in (src[1].callee + src[1].fnargs) and \
                            (src[1].is_("from_str", "try_from", "try_into", "parse")):
                        st = vf.state_at_term(bi) or {}
                        ok = st.get((d[1].dest[0], ())) == frozenset(["Continue"]) and \
                            hs.pkey(o[1])[1][:2] == (("as", "Continue"), (".", 0))
                        if not ok:
                            why = "Command::Ok is built although Guid parsing may have failed"
            break
        ctx.ob("GUID-CTOR", "Command::from_str:OK-carries-parsed-guid", ok,
               "Command::Ok carries the `?`-continued result of Guid::from_str" if ok else why, W(fs, ln))
    # Guid::from_str goes through the validating TryFrom
    gfs = f.find(name="from_str", adt=GUID, trait="core::str::traits::FromStr")
    ctx.need(gfs, "<Guid as FromStr>::from_str")
    for g in gfs:
        viaval = any(("TryInto<" + GUID in c.fnargs) or ("TryFrom" in c.callee and GUID in c.callee) or c.callee == "zbus::guid::validate_guid"
                     for c in mir.calls(g))
        aggs = [1 for bi, i, pl, rv, ln in mir.assignments(g) if rv[0] == "agg" and rv[2] == GUID]
        ctx.ob("GUID-CTOR", "Guid::from_str:uses-validating-conversion", viaval and not aggs,
               "Guid::from_str obtains the Guid from the validating TryFrom<&str>", g.where)


# =========================================================================================== FD-CAP / SECONDARY
def rule_fd_secondary(ctx, f, roots):
    sites = 0
    for name, reader in (("receive_secondary_responses", "read_commands"), ("send_secondary_commands", "read_command")):
        cands = hs.code_bodies(f, roots[name].id, hs.has_call(reader))
        if not cands and name == "send_secondary_commands":
            # the xdg-dbus-proxy special case may legitimately disappear; then nothing may enable fd passing here
            stray = [c for b in hs.family(f, roots[name].id) for c in mir.calls(b) if c.callee == COMMON + "::set_cap_unix_fd"]
            ctx.ob("FD-CAP", name + ":no-set_cap_unix_fd-without-a-server-reply", not stray,
                   "send_secondary_commands reads no reply and does not touch the fd capability", roots[name].where)
            continue
        body = ctx.one(cands, "code body of %s (calls %s)" % (short(roots[name].id), reader))
        vf = hs.vfacts(f, body)
        key, rc, br = read_key(ctx, "SECONDARY", name, body, vf, reader)
        if key is None:
            continue
        for c in mir.calls(body):
            if c.callee != COMMON + "::set_cap_unix_fd":
                continue
            sites += 1
            v = hs.const_arg(body, c.args[1]) if len(c.args) > 1 else None
            got = vf.possible(c.b, key)
            ok = v is True and got == frozenset(["AgreeUnixFD"])
            ctx.ob("FD-CAP", "%s:set_cap_unix_fd(true)-only-under-AGREE_UNIX_FD" % name, ok,
                   "fd passing is enabled only when the server answered AGREE_UNIX_FD" if ok else
                   "set_cap_unix_fd(%s) runs under command(s) %s" % ("true" if v is True else "non-literal" if v is None else v,
                                                                    sorted(got) if got else "any / no command"), c.where)
        # SECONDARY: unexpected commands end the handshake
        rets = hs.returns(body)
        forbidden = {b for kind, b, info in rets if kind == "ok"}
        if reader == "read_commands":
            forbidden |= {c.b for c in mir.calls(body) if c.is_("next") and "Iterator" in (c.callee + c.declared)}
        else:
            forbidden |= {c.b for c in mir.calls(body) if c.callee == COMMON + "::write_commands"}
        ctx.floor("SECONDARY", name + ": continuation points", len(forbidden), 2)
        heads = vf.enum_keys(CMD)[key]
        for v in [x["name"] for x in f.adts[CMD]["variants"]]:
            if v in ("Ok", "AgreeUnixFD", "Error"):
                continue
            within = vf.blocks_where(key, v)
            seen = vf.reach(heads, within=within)
            # the head blocks themselves may be `next`-free; only blocks after the switch count
            bad = (seen - set(heads)) & forbidden
            ctx.ob("SECONDARY", "%s:%s-ends-the-handshake" % (name, v), not bad,
                   "an unexpected %s response makes %s return Err" % (v, name) if not bad else
                   "after an unexpected %s response %s carries on" % (v, name), rc.where)
        if reader == "read_command":
            # flatpak branch accepts only AGREE / ERROR: an OK there must not continue either
            within = vf.blocks_where(key, "Ok")
            seen = vf.reach(heads, within=within)
            bad = (seen - set(heads)) & forbidden
            ctx.ob("SECONDARY", "%s:Ok-ends-the-handshake" % name, not bad,
                   "a second OK in answer to NEGOTIATE_UNIX_FD is an error", rc.where)
    ctx.floor("FD-CAP", "client call sites of set_cap_unix_fd", sites, 1)
    # setter and field writers
    setter = ctx.one(f.find(name="set_cap_unix_fd", adt=COMMON, trait=""), "Common::set_cap_unix_fd")
    ws = hs.writes_of_field(f, COMMON, "cap_unix_fd")
    ctx.floor("FD-CAP", "writes of Common.cap_unix_fd", len(ws), 2)
    cnew = ctx.one(f.find(name="new", adt=COMMON, trait=""), "Common::new")
    for wb, b, i, kind, rv, ln in ws:
        root = wb.root
        if root == cnew.id and kind == "agg":
            v = hs.const_arg(wb, rv)
            ctx.ob("FD-CAP", "cap_unix_fd-writer:Common::new", v is False, "initially false", W(wb, ln))
        elif root == setter.id and kind == "field":
            src = mir.op_place(rv[1]) if rv[0] == "use" else None
            ctx.ob("FD-CAP", "cap_unix_fd-writer:set_cap_unix_fd", src is not None and hs.canon(wb, src)[0] == 2,
                   "the setter stores its argument", W(wb, ln))
        elif "core::fmt::Debug" in root:
            continue
        else:
            ctx.ob("FD-CAP", "cap_unix_fd-writer:" + short(root), False, "unexpected writer of Common.cap_unix_fd", W(wb, ln))
    allowed = {roots["receive_secondary_responses"].id, roots["send_secondary_commands"].id, SERVER + "::finalize"}
    for b in f.all_bodies("zbus"):
        for c in mir.calls(b):
            if c.callee == setter.id:
                ctx.ob("FD-CAP", "set_cap_unix_fd-caller:" + short(b.root), b.root in allowed,
                       "confirmed caller (server side is decided by C16)", c.where)


# =========================================================================================== PERFORM / HANDOFF
def rule_perform_handoff(ctx, f, roots):
    perf = ctx.one(f.find(name="perform", adt=CLIENT, trait=HS + "Handshake"), "<Client as Handshake>::perform")
    body = code(ctx, f, perf, hs.has_call("authenticate"), "calls authenticate")
    vf = hs.vfacts(f, body)
    aggs = [(b, i, rv, ln) for b, i, pl, rv, ln in mir.assignments(body) if rv[0] == "agg" and rv[1] == "adt" and rv[2] == AUTHD]
    ctx.floor("PERFORM", "construction of Authenticated in client perform", len(aggs), 1)
    for name in ("authenticate", "send_secondary_commands"):
        cs = [c for c in mir.calls(body) if c.callee == roots[name].id]
        ctx.ob("PERFORM", "client-perform:calls-" + name, len(cs) == 1, "%d call(s) of %s" % (len(cs), name), body.where)
        if len(cs) != 1:
            continue
        br = hs.try_of(body, cs[0])
        for b, i, rv, ln in aggs:
            st = vf.state_at_term(b) or {}
            ok = br is not None and st.get((br.dest[0], ())) == frozenset(["Continue"])
            ctx.ob("PERFORM", "client-perform:authenticated-only-after-%s-Ok" % name, ok,
                   "Authenticated is built only after %s().await? continued" % name, W(body, ln))
    # secondary responses are read whenever some are expected
    rs = [c for c in mir.calls(body) if c.callee == roots["receive_secondary_responses"].id]
    ss = [c for c in mir.calls(body) if c.callee == roots["send_secondary_commands"].id]
    if len(rs) == 1 and len(ss) == 1:
        br = hs.try_of(body, ss[0])
        p = mir.op_place(rs[0].args[1]) if len(rs[0].args) > 1 else None
        k = hs.ckey(body, p) if p is not None else None
        ok = br is not None and k == hs.continue_payload_key(body, br)
        ctx.ob("PERFORM", "client-perform:expected-count-from-send_secondary_commands", ok,
               "the number of responses awaited is the one send_secondary_commands returned", rs[0].where)
        # skipped only when that number is 0
        okskip = False
        for sb, op, l, r, tt, ft, ln in mir.cmp_switches(body):
            lk, rk = hs.op_key(body, l), hs.op_key(body, r)
            cl, cr = hs.const_arg(body, l), hs.const_arg(body, r)
            if br is None:
                break
            ck = hs.continue_payload_key(body, br)
            skip_edge = None
            if lk == ck and cr == 0 and op in ("Gt", "Ne"):
                skip_edge = ft
            elif lk == ck and cr == 0 and op in ("Eq", "Le"):
                skip_edge = tt
            elif rk == ck and cl == 0 and op in ("Lt", "Ne"):
                skip_edge = ft
            elif lk == ck and cr == 1 and op == "Ge":
                skip_edge = ft
            if skip_edge is not None and mir.block_dominates(body, sb, rs[0].b):
                okskip = True
        # every path from send_secondary to the Authenticated aggregate avoiding the receive call goes through a `== 0` edge
        if aggs:
            seen = vf.reach([ss[0].b], avoid={rs[0].b})
            reach_without = any(a[0] in seen for a in aggs)
            ctx.ob("PERFORM", "client-perform:responses-read-unless-none-expected", okskip or not reach_without,
                   "receive_secondary_responses is skipped only under `expected == 0`", rs[0].where)
    else:
        ctx.ob("PERFORM", "client-perform:calls-receive_secondary_responses", False, "%d call(s)" % len(rs), body.where)

    def agg_field(rv, name):
        names = rv[5] if len(rv) > 5 else []
        return rv[4][names.index(name)] if name in names else None

    # server_guid of the result
    for b, i, rv, ln in aggs:
        op = agg_field(rv, "server_guid")
        o = mir.origin(body, op) if op is not None else ("none",)
        src = None
        if o[0] == "call" and o[1].is_("unwrap", "expect", "ok_or", "ok_or_else", "clone") and o[1].args:
            o2 = mir.origin(body, o[1].args[0])
            if o2[0] in ("place", "ref"):
                src = hs.canon(body, o2[1])
        ok = src is not None and hs.place_has_field(src, "server_guid", CLIENT)
        ctx.ob("PERFORM", "client-perform:server_guid-is-the-checked-one", ok,
               "Authenticated.server_guid is Client.server_guid (set / compared by set_guid)", W(body, ln))

    # ---- HANDOFF
    ic = ctx.one(f.find(name="into_components", adt=COMMON, trait=""), "Common::into_components")
    order = ["socket", "recv_buffer", "received_fds", "cap_unix_fd", "mechanism"]
    rv0 = [rv for bi, i, pl, rv, ln in mir.assignments(ic) if pl[0] == mir.RET and not pl[1]]
    good = len(rv0) == 1 and rv0[0][0] == "agg" and rv0[0][1] == "tuple" and len(rv0[0][4]) == len(order)
    if good:
        for idx, nm in enumerate(order):
            p = mir.op_place(rv0[0][4][idx])
            cp = hs.canon(ic, p) if p is not None else None
            okf = cp is not None and cp[0] == 1 and hs.place_has_field(cp, nm, COMMON) and len([x for x in cp[1] if x != "*"]) == 1
            ctx.ob("HANDOFF", "into_components:%d-is-%s" % (idx, nm), okf, "component %d of into_components is Common.%s" % (idx, nm), ic.where)
    else:
        ctx.ob("HANDOFF", "into_components:shape", False, "into_components does not return a 5-tuple of its fields", ic.where)
    sperf = f.find(name="perform", adt=SERVER, trait=HS + "Handshake")
    ctx.need(sperf, "<Server as Handshake>::perform")
    sides = [("client", body)]
    for sp in sperf:
        sides.append(("server", code(ctx, f, sp, hs.has_call("into_components"), "calls into_components")))
    want = {"already_received_bytes": 1, "already_received_fds": 2, "cap_unix_fd": 3}
    for side, pb in sides:
        ics = [c for c in mir.calls(pb) if c.callee == ic.id]
        paggs = [(b, i, rv, ln) for b, i, pl, rv, ln in mir.assignments(pb) if rv[0] == "agg" and rv[1] == "adt" and rv[2] == AUTHD]
        ctx.ob("HANDOFF", side + "-perform:one-into_components", len(ics) == 1, "%d call(s) of into_components" % len(ics), pb.where)
        if len(ics) != 1:
            continue
        # receiver is self.common
        rp = mir.op_place(ics[0].args[0])
        rcp = hs.canon(pb, rp) if rp is not None else None
        ctx.ob("HANDOFF", side + "-perform:components-of-own-common", rcp is not None and hs.place_has_field(rcp, "common"),
               "into_components is applied to the handshake's own Common", ics[0].where)
        for b, i, rv, ln in paggs:
            for fld, idx in want.items():
                op = agg_field(rv, fld)
                ok = False
                if op is not None:
                    l = mir.root_local(pb, op)
                    # the local (recv_buffer / received_fds / cap_unix_fd) is defined once, from component idx
                    ds = hs.defs_of(pb, l)
                    whole = [d for d in ds if d[0] == "assign" and not d[3][1]]
                    if len(whole) == 1 and whole[0][4][0] == "use":
                        sp_ = mir.op_place(whole[0][4][1])
                        if sp_ is not None:
                            k = hs.pkey(sp_)
                            ok = k == (ics[0].dest[0], ((".", idx),))
                    # nothing else assigns the local as a whole
                    ok = ok and len([d for d in ds if (d[0] == "assign" and not d[3][1]) or d[0] == "call"]) == 1
                ctx.ob("HANDOFF", "%s-perform:%s-is-component-%d" % (side, fld, idx), ok,
                       "Authenticated.%s is component %d of into_components" % (fld, idx), W(pb, ln))
    # bus: Hello reply is parsed from the same leftover buffer
    hcs = [c for c in mir.calls(body) if c.is_("receive_hello_response")]
    for c in hcs:
        ok = False
        if len(c.args) > 1 and aggs:
            p = pointee(body, c.args[1])
            op = agg_field(aggs[0][2], "already_received_bytes")
            q = hs.canon(body, mir.op_place(op)) if op is not None and mir.op_place(op) is not None else None
            ok = p is not None and q is not None and hs.pkey(p) == hs.pkey(q)
        ctx.ob("HANDOFF", "client-perform:hello-reply-read-from-leftover-buffer", ok,
               "receive_hello_response consumes the same buffer that is then handed to Authenticated", c.where)


# =========================================================================================== run
PANIC_SCOPE = (HS + "client::", HS + "common::", HS + "command::", HS + "auth_mechanism::", HS + "Authenticated::client",
               HS + "sasl_auth_id")


def run(ctx):
    ctx.explanation = (
        "Static rules over the MIR of zbus (K1): return-path classification of Client::authenticate and set_guid under "
        "variant-set dataflow (Ok only under Command::Ok and after the GUID check; mismatch is Err), who-may-write tables "
        "for Client.server_guid and Common.cap_unix_fd, control dependence of set_cap_unix_fd(true) on AGREE_UNIX_FD, "
        "error arms of the secondary responses, construction discipline of Guid, the leftover hand-off from Common through "
        "into_components into Authenticated on both sides, exit condition of read_commands, and a panic-site audit of "
        "the client handshake modules.")
    ctx.not_decided = ("transport behaviour, hex/uuid crates; the Hello exchange itself (receive_message belongs to C14); "
                       "that the bus-hello path passes a fresh empty fd list is noted in DESIGN §5.C17, not a rule.")
    check_config(ctx, ctx.facts("K1"))
    if ctx.tier == "thorough":
        check_config(hs.Tagged(ctx, "K3:"), ctx.facts("K3"))


def check_config(ctx, f):
    roots = {}
    for n in ("new", "set_guid", "authenticate", "send_secondary_commands", "receive_secondary_responses"):
        roots[n] = ctx.one(f.find(name=n, adt=CLIENT, trait=""), "Client::" + n)
    rule_auth(ctx, f, roots)
    rule_set_guid(ctx, f, roots)
    rule_guid_ctor(ctx, f)
    rule_fd_secondary(ctx, f, roots)
    rule_perform_handoff(ctx, f, roots)
    hs.rule_read_n(ctx, f)
    hs.rule_wire(ctx, f)
    table = dict(hs.COMMON_PANIC_OK)
    table.update(CLIENT_PANIC_OK)
    n = hs.panic_audit(ctx, f, PANIC_SCOPE, table)
    ctx.floor("PANIC", "panic-capable constructs audited in the client handshake modules", n, 10)
