"""C24 — The object server exposes exactly the registered interfaces (DESIGN §5.C24).

  DUP-REFUSED      Node::add_arc_interface: the `interfaces` map is written only through an insertion that
                   cannot overwrite (VacantEntry::insert, or HashMap::insert on the false edge of
                   `contains_key` of the same map); `true` is returned only on paths through such an
                   insertion and `false` only on paths without one; ObjectServer::add_arc_interface returns
                   `Ok(x)` only with x = that result; the connection builder turns `false` into an error.
  ABSENT-NODE      ObjectServer::remove: the node Option from `get_child_mut` becomes
                   `Err(Error::InterfaceNotFound)` when None (ok_or / ok_or_else / match), never unwrap.
                   ObjectServer::interface: same for `get_child`, `interface_lock` and the downcast.
  ABSENT-IFACE     ObjectServer::remove: the bool of Node::remove_interface is tested and its false edge
                   returns `Err(Error::InterfaceNotFound)` without reaching a signal emission, the pruning,
                   or an `Ok`; Node::remove_interface returns `is_some()` of `interfaces.remove(name)`.
  NO-CREATE        Node::get_child_mut inserts into `children` (and calls Node::new) only under the true edge
                   of its `create` parameter, and returns `(None, _)` only under the false edge;
                   ObjectServer::remove passes the constant `false`, only ObjectServer::add_arc_interface
                   passes `true`; `get_child` takes `&self`.
  ABSENT-CHILD     Node::get_child_mut: from the failure edge of every child lookup (Entry::Vacant, `get` -> None,
                   `!contains_key`), paths that create nothing reach only `(None, _)` returns and never the next
                   loop iteration (added after seeded change C24b)
  PRUNE-EMPTY      the guard of Node::remove_node can be true only over the true edge of `children.is_empty()`
                   (added after seeded change C24: a guard looking at direct children only still drops grandchildren)
  PRUNE-CHILDREN   every call of Node::remove_node (which drops a whole subtree) is control-dependent on a
                   predicate that reads `Node.children` (of the node about to be dropped).
  TREE-WRITERS     `Node.children` / `Node.interfaces` are borrowed mutably (or moved) only in the confirmed
                   functions; remove_node / remove_interface / get_child_mut are called only from
                   ObjectServer::{remove, add_arc_interface}.  (R-WHO)
  WALK-SIBLING     get_child and get_child_mut both look the segment up in `children` only after the
                   `is_empty` (skip empty segment) test — the root path "/" must address the root node in both.
  LOOKUP-FIELDS    lookup (`interface`), dispatch and introspection read the same two maps: get_child reads
                   `children`, interface_lock reads `interfaces`, introspect_to_writer reads both.  (R-FIELDS)
  PANIC            panic-site audit (unwrap/expect/panic!/assert!/index/MIR Assert) over the closure of
                   ObjectServer::{at, add_arc_interface, remove, interface} inside the object_server module:
                   each site is discharged by a recognised guard (unwrap of get_child_mut(.., true).0 given
                   NO-CREATE; SignalEmitter::new::<ObjectPath> cannot fail) or a table line with its
                   invariant (a line covers a fixed number of sites; a further site with the same key is
                   not covered); anything else is a violation.  Sites inside tracing macro expansions are
                   skipped.  Instance key = function : panic-callee(source of the operand).

Dropped: that `remove` computes the right parent path / last segment for remove_node (string fold in a
closure; no exact structural clause); equality of what `interface`, method calls and introspection *show*
beyond reading the same maps.
"""
from .. import mir
from .. import lib_cflow as cf

NODE = "zbus::object_server::node::Node"
OS = "zbus::object_server::ObjectServer"
ERR = "zbus::error::Error"
INF = "InterfaceNotFound"

META = {
    "technique": "arm/edge analysis of the registration and removal functions, who-may-write on the node maps, guard-or-table panic audit",
    "level": ("Decides the error arms (duplicate -> false, absent node/interface -> InterfaceNotFound), that lookups and "
              "removals create nothing, that the predicate guarding subtree removal consults the children map, the writer "
              "set of the two node maps, and that every panic-capable construct on the at/remove/interface paths is guarded "
              "or table-justified. Does not decide the full history-to-state equivalence nor the parent-path string computation."),
}

PANIC_NAMES = ("unwrap", "expect", "unwrap_err", "expect_err", "unwrap_unchecked", "panic", "panic_fmt", "panic_display",
               "unreachable", "unreachable_display", "assert_failed", "index", "index_mut", "unwrap_failed", "expect_failed",
               "begin_panic", "panic_explicit", "split_at", "split_at_mut", "swap_remove", "copy_from_slice")

# reviewed table: (function root, panic callee suffix, source) -> invariant; PANIC_TABLE_MULT gives the number of
# sites a line was written for (default 1): a further site with the same key is not covered by it.
PANIC_TABLE_MULT = {(NODE + "::new", "panic", "assert!"): 3}
PANIC_TABLE = {
    (NODE + "::get_child_mut", "unwrap", "write_fmt"):
        "fmt::Write for String never returns Err",
    (NODE + "::get_child_mut", "expect", "try_into"):
        "node_path is '/'+non-empty segments of an already validated ObjectPath, itself a valid object path",
    (NODE + "::new", "panic", "assert!"):
        "fresh Default node: the three standard interface names are distinct, each add_interface returns true",
    (OS + "::new", "expect", "try_into"):
        "the constant \"/\" is a valid object path",
    (OS + "::connection", "expect", "upgrade"):
        "ASSUMPTION: the Connection outlives the use of its ObjectServer (documented expect message)",
    (NODE + "::get_properties", "expect", "interface_lock"):
        "callers pass a name taken from node.interfaces (keys() iteration / just inserted) under the tree guard",
    (OS + "::remove", "unwrap", "get_child_mut.0"):
        "the parent of a node that was just found exists: nodes are created along the path from the root and the "
        "tree write guard is held since the lookup",
}


# --------------------------------------------------------------------------------------------- helpers
def fam(f, fn_id):
    b = f.byid(fn_id)
    out = [b] if b is not None else []
    return out + list(f.children.get(fn_id, []))


def main_body(ctx, f, fn_id, what):
    """the body holding the user code: the coroutine child for an async fn, else the fn itself"""
    b = ctx.one([x for x in [f.byid(fn_id)] if x is not None], what)
    co = [c for c in f.children.get(fn_id, []) if c.kind == "coroutine" and c.d.get("parent") == fn_id]
    return co[0] if len(co) == 1 else b


def is_agg(rv, adt, variant=None):
    return rv[0] == "agg" and rv[1] == "adt" and rv[2] == adt and (variant is None or rv[3] == variant)


def blocks_with_agg(body, adt, variant):
    return {b for b, i, pl, rv, ln in mir.assignments(body) if is_agg(rv, adt, variant)}


def field_places(body, owner, field):
    """(block, line, how) for every mention of owner.field: how in {'mut','shared','move','copy','write'}"""
    out = []

    def has(place):
        return any(isinstance(p, list) and p[0] == "." and p[2] == field and p[3] == owner for p in place[1])

    def last_is(place):
        ps = [p for p in place[1]]
        return bool(ps) and isinstance(ps[-1], list) and ps[-1][0] == "." and ps[-1][2] == field and ps[-1][3] == owner

    for b, i, pl, rv, ln in mir.assignments(body):
        if has(pl):
            out.append((b, ln, "write"))
        if rv[0] in ("ref", "rawptr") and has(rv[2]):
            kind = str(rv[1]).lower()
            out.append((b, ln, "mut" if "mut" in kind else "shared"))
        else:
            for op in mir.rvalue_operands(rv):
                p = mir.op_place(op)
                if p and has(p):
                    out.append((b, ln, "move" if op[0] == "m" else "copy"))
    for c in mir.calls(body):
        for a in c.args:
            p = mir.op_place(a)
            if p and has(p):
                out.append((c.b, c.line, "move" if a[0] == "m" else "copy"))
    return out


def from_call(body, op, call, fld=None):
    """operand's value is the result of `call` (fld None) or its tuple field `fld`"""
    o = mir.origin(body, op)
    if fld is None:
        return o[0] == "call" and o[1].b == call.b
    if o[0] in ("place", "ref") and o[1][0] == call.dest[0]:
        pr = [p for p in o[1][1] if p != "*"]
        return len(pr) == 1 and isinstance(pr[0], list) and pr[0][0] == "." and pr[0][1] == fld
    return False


def constructs_inf(f, body, blocks=None):
    return any(is_agg(rv, ERR, INF) and (blocks is None or b in blocks) for b, i, pl, rv, ln in mir.assignments(body))


def none_handling(ctx, f, body, src_call, fld, rule, key, what):
    """The Option produced by src_call(.fld) must turn into Err(InterfaceNotFound) when None."""
    n = 0
    verdicts = []
    for c in mir.calls(body):
        if not c.args or c.b == src_call.b:
            continue
        if not from_call(body, c.args[0], src_call, fld):
            continue
        if c.is_("ok_or") and "Option" in c.callee:
            o = mir.origin(body, c.args[1])
            ok = o[0] == "rv" and is_agg(o[1], ERR, INF)
            verdicts.append((ok, "ok_or(%s)" % (o[1][3] if o[0] == "rv" and o[1][0] == "agg" else o[0]), c))
        elif c.is_("ok_or_else") and "Option" in c.callee:
            o = mir.origin(body, c.args[1])
            clo = f.byid(o[1][2]) if o[0] == "rv" and o[1][0] == "agg" and o[1][1] == "closure" else None
            ok = clo is not None and constructs_inf(f, clo)
            verdicts.append((ok, "ok_or_else(closure %s InterfaceNotFound)" % ("building" if ok else "not building"), c))
        elif c.is_("unwrap", "expect", "unwrap_unchecked", "unwrap_or_default", "unwrap_or", "unwrap_or_else"):
            verdicts.append((False, "%s: an absent entry panics or is replaced instead of returning InterfaceNotFound" % c.callee.rsplit("::", 1)[-1], c))
        elif c.is_("deref", "deref_mut", "as_ref", "as_mut", "as_deref", "as_deref_mut", "is_some", "is_none", "branch", "clone", "cloned", "map", "and_then"):
            continue
        else:
            continue
    # match / let-else on the option itself
    for sb, pl, adt, arms, other in mir.discr_switches(body, None):
        if adt != "core::option::Option":
            continue
        if not from_call(body, ["c", pl], src_call, fld):
            continue
        none_edge = arms.get("0", other)
        reg = mir.reachable(body, [none_edge], avoid={arms.get("1")} if arms.get("1") is not None else ())
        ok = constructs_inf(f, body, reg) and not (reg & blocks_with_agg(body, "core::result::Result", "Ok"))
        verdicts.append((ok, "match: None arm %s Err(InterfaceNotFound)" % ("returns" if ok else "does not return"), None))
    ctx.floor(rule, key + ":consumers of " + what, len(verdicts), 1)
    for ok, how, c in verdicts:
        ctx.ob(rule, key, ok, "%s absent -> %s" % (what, how), c.where if c is not None else body.where)


def ret_sources(body, seen=None):
    """[(block, const value or None)] of everything that flows into the return place through copies"""
    out = []

    def follow(local, depth):
        for d in mir.defs_of(body, local):
            if d[0] == "call":
                out.append((d[1].b, None, "call " + d[1].callee))
                continue
            _, b, i, pl, rv = d
            if pl[1]:
                out.append((b, None, "partial write"))
                continue
            if rv[0] == "use":
                k = mir.op_const(rv[1])
                if k is not None:
                    out.append((b, k.get("v"), "const"))
                elif not rv[1][1][1] and depth < 6 and not (0 < rv[1][1][0] <= body.d["argc"]):
                    follow(rv[1][1][0], depth + 1)
                else:
                    out.append((b, None, "place"))
            else:
                out.append((b, None, rv[0]))
    follow(mir.RET, 0)
    return out


def param_switches(body, param):
    """(switch block, true_target, false_target) for bool switches on parameter `param`"""
    out = []
    for sb, t in mir.switches(body):
        if t[2] != "bool":
            continue
        if mir.root_local(body, t[1]) == param:
            tt, ft = mir.bool_switch_edges(t)
            out.append((sb, tt, ft))
    return out


def only_under(body, blk, edges_in, edges_out):
    """blk is reachable only through one of edges_in and not from edges_out-only paths: i.e. unreachable
    from entry when the blocks of edges_in are removed."""
    return blk not in mir.reachable(body, [0], avoid=set(edges_in))


# --------------------------------------------------------------------------------------------- rules
def dup_refused(ctx, f):
    nadd = ctx.one(f.find(name="add_arc_interface", adt=NODE, trait=""), "Node::add_arc_interface")
    muts = [x for x in field_places(nadd, NODE, "interfaces") if x[2] in ("mut", "write", "move")]
    ctx.floor("DUP-REFUSED", "mutable uses of Node.interfaces in Node::add_arc_interface", len(muts), 1)
    inserts, bad = [], []
    contains_false = []
    for sb, c, tt, ft, neg in mir.call_bool_switches(nadd):
        if c.is_("contains_key") and "HashMap" in c.callee and ft is not None:
            contains_false.append(ft)
    for c in mir.calls(nadd):
        if c.is_("insert", "insert_entry") and "VacantEntry" in c.callee:
            inserts.append(c)
        elif c.is_("insert") and "HashMap" in c.callee and "hash::map::HashMap" in c.callee:
            if any(mir.block_dominates(nadd, ft, c.b) for ft in contains_false):
                inserts.append(c)
            else:
                bad.append(c)
        elif (c.is_("insert", "insert_entry", "or_insert", "or_insert_with", "or_insert_with_key", "or_default", "and_modify",
                    "extend", "get_mut", "iter_mut", "values_mut", "clear", "drain", "retain", "remove", "remove_entry")
              and ("OccupiedEntry" in c.callee or "hash::map::Entry" in c.callee or "hash::map::HashMap" in c.callee)):
            bad.append(c)
    for c in bad:
        ctx.ob("DUP-REFUSED", "no-overwrite:" + c.callee.split("<")[0].rsplit("::", 2)[-2] + "::" + c.callee.rsplit("::", 1)[-1], False,
               "Node::add_arc_interface modifies the map through %s: an existing registration can be replaced or altered" % c.callee, c.where)
    ctx.ob("DUP-REFUSED", "insert-only-when-vacant", bool(inserts) and not bad,
           "interfaces is written only by %s" % sorted({c.callee.split("::<")[0] + "::" + c.callee.rsplit("::", 1)[-1] for c in inserts}), nadd.where)
    ins_blocks = {c.b for c in inserts}
    srcs = ret_sources(nadd)
    ctx.floor("DUP-REFUSED", "return sources of Node::add_arc_interface", len(srcs), 2)
    after_insert = mir.reachable(nadd, list(ins_blocks)) if ins_blocks else set()
    for b, v, how in srcs:
        where = "%s:%d" % (nadd.file, nadd.span[0])
        if v is True or v == 1 and isinstance(v, bool):
            ok = bool(ins_blocks) and b not in mir.reachable(nadd, [0], avoid=ins_blocks)
            ctx.ob("DUP-REFUSED", "true-only-after-insert", ok,
                   "`true` is returned only on paths through the vacant insertion" if ok else
                   "`true` can be returned on a path that did not insert (duplicate reported as added)", where)
        elif v is False:
            ok = b not in after_insert
            ctx.ob("DUP-REFUSED", "false-only-without-insert", ok,
                   "`false` is returned only on paths that inserted nothing" if ok else "`false` returned after an insertion", where)
        else:
            ctx.ob("DUP-REFUSED", "return-is-constant", False,
                   "return value of Node::add_arc_interface comes from %s, not from the vacant/occupied arms" % how, where)
    # propagation through ObjectServer::add_arc_interface
    oadd = main_body(ctx, f, OS + "::add_arc_interface", "ObjectServer::add_arc_interface")
    ncalls = [c for c in mir.calls(oadd) if (c.c.get("res") or c.c.get("fn")) == nadd.id]
    nc = ctx.one(ncalls, "call of Node::add_arc_interface in ObjectServer::add_arc_interface")
    oks = [(b, rv, ln) for b, i, pl, rv, ln in mir.assignments(oadd) if pl[0] == mir.RET and is_agg(rv, "core::result::Result", "Ok")]
    ctx.floor("DUP-REFUSED", "Ok returns of ObjectServer::add_arc_interface", len(oks), 1)
    for b, rv, ln in oks:
        l = mir.root_local(oadd, rv[4][0])
        ok = l == nc.dest[0] or from_call(oadd, rv[4][0], nc)
        ctx.ob("DUP-REFUSED", "server-returns-node-result", ok,
               "Ok(..) carries the result of Node::add_arc_interface" if ok else "Ok(..) does not carry the node's added/duplicate result",
               "%s:%d" % (oadd.file, ln))
    # builder: false -> error
    bld = [b for b in f.all_bodies("zbus") if b.root.startswith("zbus::connection::builder::Builder") and
           any((c.c.get("res") or c.c.get("fn")) == OS + "::add_arc_interface" for c in mir.calls(b))]
    for b in bld:
        errs = blocks_with_agg(b, ERR, "InterfaceExists")
        ok = False
        for sb, t in mir.switches(b):
            if t[2] != "bool":
                continue
            o = mir.origin(b, t[1])
            neg = False
            if o[0] == "rv" and o[1][0] == "un" and o[1][1] == "Not":
                neg = True
            tt, ft = mir.bool_switch_edges(t)
            for e in (tt, ft):
                if e is not None and errs and any(mir.block_dominates(b, e, x) for x in errs):
                    ok = True
        ctx.ob("DUP-REFUSED", "builder-duplicate-is-error:" + b.root, ok,
               "serve_at duplicates end in Error::InterfaceExists under a bool test" if ok else
               "connection builder no longer turns a duplicate registration into Error::InterfaceExists", b.where)


def absent(ctx, f):
    rem = main_body(ctx, f, OS + "::remove", "ObjectServer::remove")
    gcm = [c for c in mir.calls(rem) if c.is_("get_child_mut") and NODE in c.callee]
    ctx.need(gcm, "get_child_mut call in ObjectServer::remove")
    first = [c for c in gcm if all(mir.block_dominates(rem, c.b, o.b) for o in gcm)]
    lookup = ctx.one(first, "dominating get_child_mut call in ObjectServer::remove")
    none_handling(ctx, f, rem, lookup, 0, "ABSENT-NODE", OS + "::remove:node", "node")
    # remove_interface
    ri = ctx.need([c for c in mir.calls(rem) if c.is_("remove_interface") and NODE in c.callee], "remove_interface call in ObjectServer::remove")
    tested = 0
    for sb, c, tt, ft, neg in mir.call_bool_switches(rem):
        if c.b not in {x.b for x in ri}:
            continue
        tested += 1
        reg = mir.reachable(rem, [ft], avoid={tt}) if ft is not None else set()
        oks = blocks_with_agg(rem, "core::result::Result", "Ok")
        effects = {x.b for x in mir.calls(rem) if x.is_("interfaces_removed", "remove_node", "is_empty")}
        good = constructs_inf(f, rem, reg) and not (reg & oks) and not (reg & effects)
        ctx.ob("ABSENT-IFACE", OS + "::remove:false-edge", good,
               "remove_interface == false returns Err(InterfaceNotFound) and nothing else" if good else
               "the false edge of remove_interface %s" % ("reaches an Ok / a signal / the pruning" if (reg & oks or reg & effects) else "does not build Error::InterfaceNotFound"),
               "%s:%d" % (rem.file, mir.term(rem, sb)[5]))
    ctx.floor("ABSENT-IFACE", "tests of the remove_interface result in ObjectServer::remove", tested, 1)
    # Node::remove_interface itself
    nri = ctx.one(f.find(name="remove_interface", adt=NODE, trait=""), "Node::remove_interface")
    srcs = ret_sources(nri)
    good = False
    why = "return value sources: %s" % [s[2] for s in srcs]
    if len(srcs) == 1 and srcs[0][2].startswith("call "):
        d = [c for c in mir.calls(nri) if c.dest[0] == mir.RET]
        d = d or [c for c in mir.calls(nri) if c.b == srcs[0][0]]
        c = d[0]
        if c.is_("is_some") and "Option" in c.callee:
            o = mir.origin(nri, c.args[0])
            src = None
            if o[0] in ("ref", "place"):
                dd = mir.single_def(nri, o[1][0])
                if dd and dd[0] == "call":
                    src = dd[1]
            elif o[0] == "call":
                src = o[1]
            if src is not None and src.is_("remove", "remove_entry") and "hash::map::HashMap" in src.callee:
                m = mir.origin(nri, src.args[0])
                k = mir.origin(nri, src.args[1])
                on_map = m[0] in ("ref", "place") and "interfaces" in mir.place_fields(m[1])
                key_is_param = k[0] in ("ref", "place") and k[1][0] == 2
                good = on_map and key_is_param
                why = "is_some(interfaces.remove(&name)): map=%s key-is-parameter=%s" % (on_map, key_is_param)
    ctx.ob("ABSENT-IFACE", NODE + "::remove_interface:reports-presence", good, why, nri.where)

    # ObjectServer::interface
    itf = main_body(ctx, f, OS + "::interface", "ObjectServer::interface")
    for name, pred in (("get_child", lambda c: c.is_("get_child") and NODE in c.callee),
                       ("interface_lock", lambda c: c.is_("interface_lock") and NODE in c.callee),
                       ("downcast_ref", lambda c: c.is_("downcast_ref", "downcast_mut", "downcast"))):
        cs = [c for c in mir.calls(itf) if pred(c)]
        ctx.floor("ABSENT-NODE", "%s calls in ObjectServer::interface" % name, len(cs), 1)
        for c in cs:
            none_handling(ctx, f, itf, c, None, "ABSENT-NODE", OS + "::interface:" + name, name)


def absent_child(ctx, f, g, creators):
    """ABSENT-CHILD (added after seeded change C24b): when the lookup of a path component in `children` fails and no
    node is created for it, the walk must stop with `(None, _)`: from the failure edge of every child lookup, the
    paths that do not pass a node-creating call may only reach returns whose first component is `None`, and may not
    go on to the next component. (The seed turned the failure into `break`, so `remove(Q)` for an unregistered Q
    acted on Q's deepest existing ancestor.)"""
    fails = []   # (switch block, failure target, what)
    for sb, place, adt, arms, other in mir.discr_switches(g, f, None):
        names = cf.EXT_ENUMS.get(adt)
        if names:   # enums defined outside the workspace are keyed by variant index
            arms = {(names[int(k)] if str(k).isdigit() and int(k) < len(names) else k): v for k, v in arms.items()}
        if adt == "std::collections::hash::map::Entry":
            tgt = arms.get("Vacant", other if "Occupied" in arms else None)
            if tgt is not None:
                fails.append((sb, tgt, "Entry::Vacant"))
        elif adt == "core::option::Option":
            src = mir.single_def(g, place[0])
            if src and src[0] == "call" and src[1].is_("get", "get_mut") and "hash::map" in src[1].callee:
                tgt = arms.get("None", other if "Some" in arms else None)
                if tgt is not None:
                    fails.append((sb, tgt, "children.get -> None"))
    for sb, c, tt, ft, neg in mir.call_bool_switches(g):
        if c.is_("contains_key") and "hash::map" in c.callee and field_of(g, c.args[0]) == "children":
            if ft is not None:
                fails.append((sb, ft, "!children.contains_key"))
    ctx.floor("ABSENT-CHILD", "child-lookup failure edges in get_child_mut", len(fails), 1)
    cblocks = {c.b for c in creators}
    nexts = {c.b for c in mir.calls(g) if c.is_("next") and "Iterator" in (c.callee + c.declared)}
    for sb, tgt, what in fails:
        r = cf.reach_e(g, [tgt], avoid_blocks=cblocks, avoid_edges=[])
        # blocks from which a creator is still reachable are on the creating path: only blocks that can no longer create count
        cannot_create = {b for b in r if not (mir.reachable(g, [b]) & cblocks)}
        somes = []
        for b, i, pl, rv, ln in mir.assignments(g):
            if b in cannot_create and pl[0] == mir.RET and not pl[1] and rv[0] == "agg" and rv[1] == "tuple":
                o = mir.origin(g, rv[4][0])
                if not (o[0] == "rv" and is_agg(o[1], "core::option::Option", "None")):
                    somes.append(ln)
        goes_on = sorted(cannot_create & nexts)
        ok = not somes and not goes_on
        ctx.ob("ABSENT-CHILD", "lookup-failure-ends-in-None:" + what, ok,
               "a component without a child node (and without creation) ends the walk with (None, _)" if ok else
               "after a failed child lookup without creation the walk %s: an operation on an unregistered path acts on "
               "another node" % ("returns Some(node) (line %s)" % somes[0] if somes else "continues with the next component"),
               "%s:%s" % (g.file, mir.term(g, sb)[-1] if isinstance(mir.term(g, sb)[-1], int) else g.span[0] if g.span else "?"))


def field_of(body, op):
    """name of the last field projection of the place `op` borrows, if any"""
    o = mir.origin(body, op)
    if o[0] in ("ref", "place"):
        fl = mir.place_fields(o[1])
        return fl[-1] if fl else None
    return None


def no_create(ctx, f):
    g = ctx.one(f.find(name="get_child_mut", adt=NODE, trait=""), "Node::get_child_mut")
    # the bool parameter
    bools = [i for i in range(1, g.d["argc"] + 1) if g.locals[i][0] == "bool"]
    create = ctx.one(bools, "bool parameter of get_child_mut")
    sw = param_switches(g, create)
    ctx.floor("NO-CREATE", "tests of `create` in get_child_mut", len(sw), 1)
    t_edges = [tt for sb, tt, ft in sw if tt is not None]
    f_edges = [ft for sb, tt, ft in sw if ft is not None]
    t_pairs = [(sb, tt) for sb, tt, ft in sw if tt is not None]   # CFG edges, not target blocks: with `!create && ..`
    f_pairs = [(sb, ft) for sb, tt, ft in sw if ft is not None]   # the true target is also reached around the test
    creators = [c for c in mir.calls(g) if
                (c.is_("insert", "insert_entry", "or_insert", "or_insert_with", "or_insert_with_key", "or_default", "extend") and
                 ("hash::map" in c.callee)) or (c.is_("new", "default") and NODE in c.callee)]
    ctx.floor("NO-CREATE", "node-creating calls in get_child_mut", len(creators), 1)
    # `entry(k).or_insert*` behind the true edge of `children.contains_key(k)` finds an occupied entry: no creation
    has_pairs = [(sb, tt) for sb, c, tt, ft, neg in mir.call_bool_switches(g)
                 if c.is_("contains_key") and "hash::map" in c.callee and tt is not None]
    for c in creators:
        ok = bool(t_pairs) and cf.edges_dominate(g, t_pairs + (has_pairs if c.is_("or_insert", "or_insert_with", "or_insert_with_key", "or_default") else []), c.b)
        ctx.ob("NO-CREATE", "creation-only-under-create:" + c.callee.rsplit("::", 1)[-1], ok,
               "%s is reachable only through the `create == true` edge" % c.callee if ok else
               "%s can run with create == false (a lookup/removal creates nodes)" % c.callee, c.where)
    # (None, _) only under create == false
    n_none = 0
    none_ok = True
    for b, i, pl, rv, ln in mir.assignments(g):
        if pl[0] == mir.RET and not pl[1] and rv[0] == "agg" and rv[1] == "tuple":
            o = mir.origin(g, rv[4][0])
            if o[0] == "rv" and is_agg(o[1], "core::option::Option", "None"):
                n_none += 1
                ok = bool(f_pairs) and cf.edges_dominate(g, f_pairs, b)
                none_ok = none_ok and ok
                ctx.ob("NO-CREATE", "none-only-without-create", ok,
                       "(None, _) is returned only through the `create == false` edge" if ok else
                       "get_child_mut can return None although create == true", "%s:%d" % (g.file, ln))
            elif not (o[0] == "rv" and is_agg(o[1], "core::option::Option", "Some")):
                none_ok = False
                ctx.ob("NO-CREATE", "return-shape", False, "first component of the result is neither Some(..) nor None literal", "%s:%d" % (g.file, ln))
    ctx.floor("NO-CREATE", "(None, _) returns of get_child_mut", n_none, 1)
    absent_child(ctx, f, g, creators)
    # callers and their constant
    allowed_true = {OS + "::add_arc_interface"}
    n = 0
    for b in f.all_bodies("zbus"):
        for c in mir.calls(b):
            if (c.c.get("res") or c.c.get("fn")) != g.id:
                continue
            n += 1
            k = mir.resolve_const(b, c.args[create - 1])
            v = k.get("v") if k else None
            if b.root == OS + "::remove":
                ctx.ob("NO-CREATE", "remove-passes-false", v is False, "ObjectServer::remove calls get_child_mut(.., %s)" % v, c.where)
            elif v is not False:
                ctx.ob("NO-CREATE", "creating-caller:" + b.root, b.root in allowed_true and v is True,
                       "get_child_mut(.., create=%s) from %s" % (v, b.root), c.where)
            else:
                ctx.ob("NO-CREATE", "non-creating-caller:" + b.root, True, "get_child_mut(.., false)", c.where)
    ctx.floor("NO-CREATE", "callers of get_child_mut", n, 2)
    gc = ctx.one(f.find(name="get_child", adt=NODE, trait=""), "Node::get_child")
    ctx.ob("NO-CREATE", "get_child-takes-shared-self", gc.locals[1][0].startswith("&") and not gc.locals[1][0].startswith("&mut"),
           "self: %s" % gc.locals[1][0], gc.where)
    return g, create, none_ok


def reads_field(f, fn_id, owner, field, depth=0, seen=None):
    """fn (with its closures, and zbus callees up to depth 2) reads owner.field (shared borrow / copy, not a mutation)"""
    seen = seen if seen is not None else set()
    if fn_id in seen or depth > 2:
        return False
    seen.add(fn_id)
    for b in fam(f, fn_id):
        if any(how in ("shared", "copy") for bl, ln, how in field_places(b, owner, field)):
            return True
        for c in mir.calls(b):
            callee = c.c.get("res") or c.c.get("fn") or ""
            if callee.startswith("zbus::") and f.byid(callee) is not None:
                if reads_field(f, callee, owner, field, depth + 1, seen):
                    return True
    return False


def prune_children(ctx, f):
    sites = []
    for b in f.all_bodies("zbus"):
        for c in mir.calls(b):
            if c.is_("remove_node") and NODE in c.callee:
                sites.append((b, c))
    ctx.floor("PRUNE-CHILDREN", "calls of Node::remove_node", len(sites), 1)
    for b, c in sites:
        guards = []
        consult = False
        for sb, pc, tt, ft, neg in mir.call_bool_switches(b):
            doms = [e for e in (tt, ft) if e is not None and mir.block_dominates(b, e, c.b) and
                    not all(mir.block_dominates(b, x, c.b) for x in (tt, ft) if x is not None)]
            if not doms:
                continue
            callee = pc.c.get("res") or pc.c.get("fn") or ""
            guards.append(callee)
            if callee.startswith("zbus::") and reads_field(f, callee, NODE, "children"):
                consult = True
            for a in pc.args:
                o = mir.origin(b, a)
                if o[0] in ("ref", "place") and "children" in mir.place_fields(o[1]):
                    consult = True
        for sb, op, l, r, tt, ft, ln in mir.cmp_switches(b):
            doms = [e for e in (tt, ft) if e is not None and mir.block_dominates(b, e, c.b)]
            if not doms:
                continue
            for x in (l, r):
                o = mir.origin(b, x)
                if o[0] == "call" and o[1].args:
                    oo = mir.origin(b, o[1].args[0])
                    if oo[0] in ("ref", "place") and "children" in mir.place_fields(oo[1]):
                        consult = True
                        guards.append(o[1].callee)
        ctx.ob("PRUNE-CHILDREN", b.root + ":remove_node-guard-reads-children", consult,
               "remove_node is guarded by %s, which consults Node.children" % guards if consult else
               "remove_node (drops the whole subtree) is guarded only by %s, which never reads Node.children: "
               "removing the last interface of a node deletes its descendants' registrations" % (guards or "nothing"), c.where)


def implies_children_empty(f, fn_id, depth=0):
    """The bool function `fn_id` can return true only over the true edge of `self.children.is_empty()` (or the equal
    edge of `self.children.len() == 0`): with that edge removed, every assignment of the return value still reachable
    stores the constant false. (Looks one level into zbus callees that are the only source of the return value.)"""
    from .. import lib_cflow as cf
    b = f.byid(fn_id)
    if b is None or depth > 2:
        return False, "no body"
    edges = []
    for sb, pc, tt, ft, neg in mir.call_bool_switches(b):
        if pc.is_("is_empty") and ("HashMap" in pc.callee or "hash::map" in pc.callee or "BTreeMap" in pc.callee) and pc.args:
            o = mir.origin(b, pc.args[0])
            if o[0] in ("ref", "place") and "children" in mir.place_fields(o[1]) and tt is not None:
                edges.append((sb, tt))
    for sb, op, l, r, tt, ft, ln in mir.cmp_switches(b):
        for x, y in ((l, r), (r, l)):
            o = mir.origin(b, x)
            k = mir.resolve_const(b, y)
            if o[0] == "call" and o[1].is_("len") and o[1].args and k is not None and k.get("v") == 0:
                oo = mir.origin(b, o[1].args[0])
                if oo[0] in ("ref", "place") and "children" in mir.place_fields(oo[1]):
                    e = tt if op == "Eq" else (ft if op in ("Ne", "Gt") else None)
                    if e is not None:
                        edges.append((sb, e))
    if not edges:
        # alternative that also preserves the property: the predicate recurses over the children (an entirely
        # empty subtree may be pruned): it must mention itself (call or fn item passed to all/any) and read `children`
        fam = [b] + [x for x in f.children.get(b.id, [])]
        selfref = False
        for x in fam:
            for c in mir.calls(x):
                if c.callee == fn_id or any((mir.op_const(a) or {}).get("fn") == fn_id for a in c.args):
                    selfref = True
        if selfref and reads_field(f, fn_id, NODE, "children"):
            return True, "%s recurses over the children: only a subtree without any interface is pruned" % fn_id
        return False, "no `children.is_empty()` / `children.len() == 0` test (and no recursion over the children) in %s" % fn_id
    reach = cf.reach_e(b, [0], avoid_edges=edges)
    for bi, i, pl, rv, ln in mir.assignments(b):
        if pl[0] != mir.RET or pl[1] or bi not in reach:
            continue
        k = mir.resolve_const(b, rv[1]) if rv[0] == "use" else None
        if k is None or k.get("v") is not False:
            return False, "%s can return a non-false value without passing the `children` emptiness test (line %d)" % (fn_id, ln)
    for c in mir.calls(b):
        if c.dest[0] == mir.RET and not c.dest[1] and c.b in reach:
            return False, "%s can return the result of %s without passing the `children` emptiness test" % (fn_id, c.callee)
    return True, "%s is true only when `children` is empty" % fn_id


def prune_needs_no_children(ctx, f):
    """PRUNE-EMPTY: the guard under which Node::remove_node runs implies that the node has no children at all
    (a test that only looks at *some* descendants lets deeper registrations disappear)."""
    for b in f.all_bodies("zbus"):
        for c in mir.calls(b):
            if not (c.is_("remove_node") and NODE in c.callee):
                continue
            ok, why = False, "remove_node is not guarded by a bool function of the node"
            for sb, pc, tt, ft, neg in mir.call_bool_switches(b):
                if tt is None or not mir.block_dominates(b, tt, c.b) or (ft is not None and mir.block_dominates(b, ft, c.b)):
                    continue
                callee = pc.c.get("res") or pc.c.get("fn") or ""
                if callee.startswith("zbus::"):
                    ok2, why2 = implies_children_empty(f, callee)
                    if ok2:
                        ok, why = True, why2
                    elif not ok:
                        why = why2
                elif pc.is_("is_empty") and pc.args:
                    o = mir.origin(b, pc.args[0])
                    if o[0] in ("ref", "place") and "children" in mir.place_fields(o[1]):
                        ok, why = True, "guarded directly by children.is_empty()"
            ctx.ob("PRUNE-EMPTY", b.root + ":remove_node-only-when-no-children", ok, why, c.where)


def tree_writers(ctx, f):
    allowed = {
        "children": {NODE + "::get_child_mut": "walk / create on registration", NODE + "::remove_node": "pruning",
                     NODE + "::new": "construction from Default"},
        "interfaces": {NODE + "::add_arc_interface": "registration", NODE + "::remove_interface": "removal",
                       NODE + "::new": "construction from Default"},
    }
    for field, table in allowed.items():
        n = 0
        for b in f.all_bodies("zbus"):
            derived = bool(b.d.get("macro")) and ("Default" in str(b.d.get("macro")) or "Debug" in str(b.d.get("macro")))
            hows = {h for bl, ln, h in field_places(b, NODE, field) if h in ("mut", "write", "move")}
            if not hows:
                continue
            n += 1
            ok = b.root in table or derived
            ctx.ob("TREE-WRITERS", "%s-writer:%s" % (field, b.root), ok,
                   table.get(b.root, "derived impl" if derived else "unexpected mutable access (%s) to Node.%s" % (sorted(hows), field)), b.where)
        ctx.floor("TREE-WRITERS", "functions mutating Node." + field, n, 2)
    # default/derive aggregates of Node
    for b in f.all_bodies("zbus"):
        for bl, i, pl, rv, ln in mir.assignments(b):
            if is_agg(rv, NODE):
                derived = bool(b.d.get("macro"))
                ctx.ob("TREE-WRITERS", "node-constructor:" + b.root, b.root == NODE + "::new" or derived,
                       "Node built in %s" % b.root, "%s:%d" % (b.file, ln))
    callers = {
        "remove_node": {OS + "::remove"},
        "remove_interface": {OS + "::remove"},
        "get_child_mut": {OS + "::remove", OS + "::add_arc_interface"},
        "add_arc_interface": {OS + "::add_arc_interface", NODE + "::add_interface"},
        "add_interface": {NODE + "::new"},
    }
    for name, allow in callers.items():
        n = 0
        for b in f.all_bodies("zbus"):
            for c in mir.calls(b):
                if (c.c.get("res") or c.c.get("fn")) == NODE + "::" + name:
                    n += 1
                    ctx.ob("TREE-WRITERS", "%s-caller:%s" % (name, b.root), b.root in allow,
                           "Node::%s called from %s" % (name, b.root), c.where)
        ctx.floor("TREE-WRITERS", "callers of Node::" + name, n, 1)


def walk_sibling(ctx, f):
    for name in ("get_child", "get_child_mut"):
        g = ctx.one(f.find(name=name, adt=NODE, trait=""), "Node::" + name)
        lookups = []
        for c in mir.calls(g):
            if c.is_("get", "get_mut", "entry", "contains_key", "get_key_value") and "hash::map::HashMap" in c.callee and c.args:
                o = mir.origin(g, c.args[0])
                if o[0] in ("ref", "place") and "children" in mir.place_fields(o[1]):
                    lookups.append(c)
        ctx.floor("WALK-SIBLING", "children lookups in " + name, len(lookups), 1)
        nonempty = []
        for sb, c, tt, ft, neg in mir.call_bool_switches(g):
            if c.is_("is_empty") and "str" in c.callee and ft is not None:
                nonempty.append((ft, tt))
        for c in lookups:
            ok = any(c.b not in mir.reachable(g, [0], avoid={ft}) for ft, tt in nonempty)
            ctx.ob("WALK-SIBLING", "%s:lookup-skips-empty-segment" % name, ok,
                   "children lookup happens only for a non-empty path segment" if ok else
                   "children lookup is not guarded by the empty-segment test (the root path \"/\" would address a child \"\")", c.where)


def lookup_fields(ctx, f):
    need = {
        NODE + "::get_child": ["children"],
        NODE + "::interface_lock": ["interfaces"],
        NODE + "::introspect_to_writer": ["children", "interfaces"],
        NODE + "::get_managed_objects": ["children", "interfaces"],
    }
    for fn, fields in need.items():
        ctx.need(fam(f, fn), fn)
        for fld in fields:
            ok = any(field_places(b, NODE, fld) for b in fam(f, fn))
            ctx.ob("LOOKUP-FIELDS", "%s:reads-%s" % (fn, fld), ok, "%s %s Node.%s" % (fn, "reads" if ok else "does not read", fld),
                   fam(f, fn)[0].where)
    # consumers use the shared walkers
    users = {
        OS + "::interface": ("get_child", "interface_lock"),
        OS + "::dispatch_method_call_try": ("get_child", "interface_lock"),
        "zbus::fdo::introspectable::Introspectable::introspect": ("get_child", "introspect"),
    }
    for fn, names in users.items():
        bodies = ctx.need(fam(f, fn), fn)
        for nm in names:
            ok = any(c.is_(nm) and NODE in c.callee for b in bodies for c in mir.calls(b))
            ctx.ob("LOOKUP-FIELDS", "%s:uses-%s" % (fn, nm), ok, "%s %s Node::%s" % (fn, "calls" if ok else "no longer calls", nm), bodies[0].where)


def panic_audit(ctx, f, gcm, create_idx, none_ok):
    roots = [OS + "::at", OS + "::add_arc_interface", OS + "::remove", OS + "::interface"]
    scope, work = set(), list(roots)
    while work:
        x = work.pop()
        if x in scope:
            continue
        bodies = fam(f, x)
        if not bodies:
            continue
        scope.add(x)
        for b in bodies:
            for c in mir.calls(b):
                callee = c.c.get("res") or c.c.get("fn") or ""
                if (callee.startswith(OS + "::") or callee.startswith(NODE + "::")) and f.byid(callee) is not None:
                    work.append(f.byid(callee).root)
    for r in roots:
        ctx.need(fam(f, r), r)
    n = 0
    counts = {}
    for fn in sorted(scope):
        for b in fam(f, fn):
            live = mir.live_blocks(b)
            for bi, blk in enumerate(b.blocks):
                t = blk["t"]
                if t[0] == "assert" and not blk.get("c") and bi in live:
                    n += 1
                    kind = t[3][0] if t[3] else "?"
                    key = "%s:Assert(%s)" % (fn, kind)
                    ctx.ob("PANIC", key, False, "MIR Assert %s without a recognised guard" % (t[3][:2],), "%s:%d" % (b.file, t[6]))
            for c in mir.calls(b):
                is_panic = c.is_(*PANIC_NAMES) or "core::panicking" in c.callee
                if not is_panic:
                    continue
                x = str(c.c.get("x") or "")
                if "valueset!" in x or "tracing" in x or "format_args" in x and "panicking" not in c.callee:
                    continue
                if c.is_("index", "index_mut") and "core::ops::index" not in c.declared:
                    continue
                n += 1
                kind = c.callee.rsplit("::", 1)[-1]
                src = "?"
                srccall = None
                if "core::panicking" in c.callee:
                    src = "assert!" if "assert" in x else ("unreachable!" if "unreachable" in x else "panic!")
                elif c.args:
                    o = mir.origin(b, c.args[0])
                    if o[0] == "call":
                        srccall = o[1]
                        src = o[1].callee.rsplit("::", 1)[-1]
                    elif o[0] in ("place", "ref"):
                        d = mir.single_def(b, o[1][0])
                        if d and d[0] == "call":
                            srccall = d[1]
                            flds = [p[2] for p in o[1][1] if isinstance(p, list) and p[0] == "."]
                            src = d[1].callee.rsplit("::", 1)[-1] + "".join("." + x for x in flds)
                        else:
                            src = "place"
                    else:
                        src = o[0]
                key = "%s:%s(%s)" % (fn, kind, src)
                counts[key] = counts.get(key, 0) + 1
                # recognised guards
                why = None
                why_not = None
                if (kind in ("unwrap", "expect") and srccall is not None and (srccall.c.get("res") or srccall.c.get("fn")) == gcm.id
                        and src.endswith(".0")):
                    k = mir.resolve_const(b, srccall.args[create_idx - 1])
                    if k is not None and k.get("v") is True and none_ok:
                        why = "guard: get_child_mut(.., create = true) returns (None, _) only under create == false (NO-CREATE)"
                if why is None and kind in ("unwrap", "expect") and srccall is not None and srccall.is_("new") and \
                        "signal_emitter::SignalEmitter" in srccall.callee and \
                        "::new::<zvariant::object_path::ObjectPath<" in srccall.fnargs:
                    se = f.byid("zbus::object_server::signal_emitter::SignalEmitter::<'s>::new")
                    fallible = None
                    if se is not None:
                        fallible = [x.callee for x in mir.calls(se) if x.is_("from_residual")]
                        conv = [x for x in mir.calls(se) if x.is_("try_into", "try_from")]
                        others = [x for x in mir.calls(se) if not x.is_("try_into", "try_from", "map_err", "branch", "from_residual",
                                                                      "into", "from", "clone", "deref")]
                        if len(conv) == 1 and len(fallible) <= 1:
                            why = "guard: SignalEmitter::new::<ObjectPath> — its only fallible step is P::try_into, the identity for ObjectPath"
                if why is None:
                    ent = PANIC_TABLE.get((fn, kind, src))
                    if ent and counts[key] > PANIC_TABLE_MULT.get((fn, kind, src), 1):
                        ent = None
                        why_not = "the table line for this key covers %d site(s); this is a further one" % PANIC_TABLE_MULT.get((fn, kind, src), 1)
                    if ent:
                        why = "table: " + ent
                        if ent.startswith("ASSUMPTION"):
                            if ent not in ctx.assumptions:
                                ctx.assumptions.append("%s %s(%s): %s" % (fn, kind, src, ent))
                ctx.ob("PANIC", key if counts[key] == 1 or why is not None else "%s#%d" % (key, counts[key]), why is not None,
                       why or "%s of %s can panic and no guard or table line discharges it%s" % (
                           kind, src, " (%s)" % why_not if why_not else ""), c.where)
    ctx.floor("PANIC", "panic-capable sites on the at/remove/interface paths", n, 5)


def run(ctx):
    ctx.explanation = (
        "Static rules over MIR of zbus (K1): arms and edges of Node::add_arc_interface / ObjectServer::{add_arc_interface, remove, "
        "interface} / Node::get_child_mut (duplicate -> false without overwrite; absent node or interface -> InterfaceNotFound; "
        "create == false creates nothing), the predicate guarding Node::remove_node must read Node.children, who-may-write on "
        "Node.children / Node.interfaces and who-may-call the mutators, both tree walkers skip empty segments, lookup / dispatch / "
        "introspection read the same maps, and a guard-or-table audit of every panic-capable construct on those paths.")
    ctx.not_decided = ("full equivalence of the exposed (path, interface) set with the history; the parent-path / last-segment "
                       "string computation in ObjectServer::remove; behaviour of std HashMap.")
    f = ctx.facts("K1")
    dup_refused(ctx, f)
    absent(ctx, f)
    gcm, create_idx, none_ok = no_create(ctx, f)
    prune_children(ctx, f)
    prune_needs_no_children(ctx, f)
    tree_writers(ctx, f)
    walk_sibling(ctx, f)
    lookup_fields(ctx, f)
    panic_audit(ctx, f, gcm, create_idx, none_ok)
