"""C11 — Built messages parse back to the same header and body (DESIGN §5.C11).

Rules (all over K1 facts; oracle rows come from /verif/spec/header_fields.json):

  T-CODES    `FieldCode` discriminants equal the spec's header-field codes (9 rows; a further catch-all variant is
             tolerated, the writer table below never emits it); its `Deserialize` maps integer n to the variant
             whose discriminant is n; its `Serialize` writes that discriminant as a `u8`.
  T-FIELDS-W writer table: every `serialize_element` of `<Fields as Serialize>::serialize` pairs a `FieldCode`
             variant with the like-named struct field of `Fields`, wrapped in the `Value` variant whose D-Bus
             type the spec prescribes for that code; each code and each struct field is written exactly once;
             an `Option` field is written on the `Some` edge of a test of the same field.
  T-FIELDS-R reader table: every `FieldCode` arm of `FieldsVisitor::visit_seq` stores into the like-named
             struct field and converts the value with a `TryFrom<Value>` that accepts exactly the `Value`
             variant of the spec's type (resolved by following the conversion into zvariant / zbus_names).
             Reader and writer tables are equal row by row (sibling agreement).
  T-SIG      the SIGNATURE row's value is written by `SignatureSerializer`: a variant whose signature slot is
             a `Signature` and whose value slot is the `String` returned by `to_string_no_parens` on the wrapped
             signature (no outer parentheses), in that order.
  Q-FIELDS   cached-field wiring by name: `QuickFields::new` fills slot X from `Header::X()`, `Header::X()`
             reads `fields.X`, `QuickFields::X()` reads slot X, and `Message::header()` fills `Fields.X` from
             `QuickFields::X()` — for all nine fields.
  OFFSET     builder and parser both store `x + padding_for_8_bytes(x)` into `Inner.body_offset`; in the builder
             x is the serialized size of the very `header` value that is written; in the parser
             x = MIN_MESSAGE_SIZE + fields_len with fields_len from `PrimaryHeader::read_from_data`,
             MIN_MESSAGE_SIZE = PRIMARY_HEADER_SIZE + 4 = 16, and the fields are decoded from offset
             PRIMARY_HEADER_SIZE = 12 = byte size of the six fixed header members; `Message::body` slices the
             bytes from exactly `body_offset`.
  ORDER      `build_generic` writes header → `[..body_padding]` zero slice → body, in this order, into the one
             cursor over the one byte vector that becomes `Inner.bytes`; the header fields are not mutated
             after the header was measured, the primary header not after it was written.
  LEN        `set_body_len` receives `body_size.size()`; `Fields.unix_fds` receives `body_size.num_fds()` and
             is written whenever that count is non-zero; `build` measures (`serialized_size`) and writes
             (`to_writer` in the body closure) the same value with the same context and hands that size to
             `build_generic`; the fds stored with the bytes are the ones the body writer returned; `build_raw_body`
             declares `len()` of the very bytes its closure writes and `len()` of the very fds it returns.
  MAX        the `> MAX_MESSAGE_SIZE` (= 134217728) test on header+padding+body length dominates the allocation
             and its over-limit edge returns Err without allocating.
  CTX        every `Context::new_dbus` in the builder takes the endianness from the header's `endian_sig()`
             and position 0; `from_raw_parts` rejects bytes whose first byte disagrees with the data's context.
  ENDIAN     `EndianSig` is 'l' = 108 / 'B' = 66; `EndianSig`→`Endian` is name-preserving, `Endian`→`EndianSig` is a
             bijection (its name-preservation is not decided: `Endian` is an external enum whose variant names
             are not in the facts); `TryFrom<u8>` maps 108→Little, 66→Big and anything else to Err.
  LAYOUT     `PrimaryHeader`'s members are, in wire order, endianness / type / flags / version (bytes),
             body length / serial (u32); `Type` and `Flags` discriminants equal the spec's; `new` writes
             protocol version 1; `Header` is primary header followed by the field array.

Not decided: byte equality; the arithmetic of lengths; that the padding bytes are zero and that the variant
signature of the SIGNATURE row is "g" (both live in rvalue-promoted constants the fact extractor does not dump);
serde/derive internals; zvariant's encoding itself (C01).
"""
import json, os, re
from .. import mir
from .. import lib_flow as fl
from ..lib_flow import sources

META = {
    "technique": "switch/table extraction + backward value slices + dominance over MIR, checked against the spec's header-field table and between writer/reader siblings",
    "level": "Decides the structural premises of the build→parse round trip: the header-field code/field/type table of the "
             "writer, of the reader and of the spec agree; both sides compute the body offset by the same formula of the "
             "same header length; header, padding and body are written in that order into the buffer that is kept; "
             "body length, fd count, size limit, endianness context and the cached-field accessors are wired to the "
             "right sources. Does not decide byte equality or any arithmetic; constants hidden in promoted rvalues "
             "(zero padding bytes, the 'g' of the signature variant) are not seen.",
}

FIELDS = "zbus::message::fields::Fields"
QF = "zbus::message::fields::QuickFields"
FC = "zbus::message::field_code::FieldCode"
VALUE = "zvariant::value::Value"
HDR = "zbus::message::header::Header"
PH = "zbus::message::header::PrimaryHeader"
INNER = "zbus::message::Inner"
ESIG = "zbus::message::header::EndianSig"
ENDIAN = "endi::endian::Endian"
MTYPE = "zbus::message::header::Type"
FLAGS = "zbus::message::header::Flags"
SIGSER = "zbus::message::fields::SignatureSerializer"
BUILDER = "zbus::message::builder::Builder"
CONSTP = "zbus::message::header::"

# D-Bus type code carried by a zvariant::Value variant (zvariant's own table is C01/C08's subject)
VARIANT_TYPE = {"Str": "s", "ObjectPath": "o", "U32": "u", "Signature": "g", "U8": "y", "Bool": "b", "I16": "n",
                "U16": "q", "I32": "i", "I64": "x", "U64": "t", "F64": "d", "Value": "v", "Array": "a",
                "Dict": "a{", "Structure": "(", "Fd": "h"}


def norm(s):
    return s.replace("_", "").upper()


def load_spec():
    p = os.path.join(os.path.dirname(os.path.dirname(os.path.dirname(os.path.abspath(__file__)))), "spec", "header_fields.json")
    with open(p) as fh:
        return json.load(fh)


# ------------------------------------------------------------------------------------------ helpers
def skip_trampolines(body, b, limit=8):
    for _ in range(limit):
        blk = body.blocks[b]
        if not blk["s"] and blk["t"][0] == "goto":
            b = blk["t"][1]
        else:
            break
    return b


def arm_blocks(body, target):
    start = skip_trampolines(body, target)
    return mir.region(body, start) | mir.region(body, target)


def arm_variants(body, target, adt):
    """variant names of aggregates of `adt` built in the arm starting at `target`"""
    blocks = arm_blocks(body, target)
    out = set()
    for b, i, pl, rv, ln in mir.assignments(body):
        if b in blocks and rv[0] == "agg" and rv[1] == "adt" and rv[2] == adt:
            out.add(rv[3])
    return out


def value_variants_built(f, call):
    """Value variants constructed by the (resolved) `Value::from` callee"""
    b = f.byid(call.callee)
    if b is None:
        return None
    out = set()
    for _, _, _, rv, _ in mir.assignments(b):
        if rv[0] == "agg" and rv[1] == "adt" and rv[2] == VALUE:
            out.add(rv[3])
    return out or None


def is_tryfrom_value_impl(b):
    return b is not None and b.d.get("impl_trait") == "core::convert::TryFrom" and \
        re.match(r"^core::convert::TryFrom<zvariant::value::Value<", b.d.get("impl_trait_full") or "") is not None


def tryfrom_value_target(f, c):
    """body id of the `TryFrom<Value>` impl a call converts through, or None"""
    b = f.byid(c.callee)
    if c.is_("try_from") and is_tryfrom_value_impl(b):
        return b.id
    m = re.match(r"^<zvariant::value::Value<'_> as core::convert::TryInto<(.+)>>::try_into$", c.fnargs or c.declared)
    if m:
        want = fl.strip_lifetimes(m.group(1))
        c2 = [x for x in f.find(name="try_from") if is_tryfrom_value_impl(x)
              and fl.strip_lifetimes(x.d.get("impl_self") or "") == want]
        if len(c2) == 1:
            return c2[0].id
    return None


def accepted_value_variants(f, body_id, depth=0):
    """Value variants a `TryFrom<Value>` conversion accepts: the named arms of its match on the value,
    following delegation to another `TryFrom<Value>` (derive(Value) newtypes, BusName)."""
    b = f.byid(body_id)
    if b is None or depth > 4:
        return None
    names = set()
    for sb, place, adt, arms, other in mir.discr_switches(b, f):
        if adt == VALUE:
            names |= set(arms)
    if names:
        return names
    for c in mir.calls(b):
        t = tryfrom_value_target(f, c)
        if t and t != body_id:
            r = accepted_value_variants(f, t, depth + 1)
            if r:
                return r
    return None


resolve_bin = fl.resolve_bin
is_add = fl.is_add


def x_plus_padding(body, op):
    """if `op` is `x + padding_for_8_bytes(x)` (either order) return the operand x, else None"""
    rv = resolve_bin(body, op)
    if not is_add(rv):
        return None
    for a, b in ((rv[2], rv[3]), (rv[3], rv[2])):
        o = mir.origin(body, b)
        if o[0] == "call" and o[1].is_("padding_for_8_bytes"):
            xa = mir.root_local(body, a)
            xb = mir.root_local(body, o[1].args[0])
            if xa is not None and xa == xb:
                return a
    return None


def ref_local(body, op):
    """local whose address / value an operand is (through re-borrows and copies)"""
    o = mir.origin(body, op)
    if o[0] in ("ref", "place") and not [p for p in o[1][1] if p != "*"]:
        return o[1][0]
    return None


def var_of(body, op):
    """the user variable / argument an operand is a copy, move or borrow of"""
    r = mir.root_local(body, op)
    if r is not None and (body.locals[r][1] is not None or 0 < r <= body.d["argc"]):
        return r
    return ref_local(body, op)


def upvar_idx(cb, op):
    """indices of the captured variables an operand of closure body `cb` is read from"""
    res = set()
    seen = set()
    work = [op]
    while work:
        o = work.pop()
        if o[0] == "k":
            continue
        pl = o[1]
        for p in pl[1]:
            if isinstance(p, list) and p[0] == "." and str(p[3]).startswith("upvar:"):
                res.add(p[1])
        if pl[0] in seen:
            continue
        seen.add(pl[0])
        for d in mir.defs_of(cb, pl[0]):
            if d[0] == "assign":
                work.extend(mir.rvalue_operands(d[4]))
    return res


def const_of(f, name):
    c = f.consts.get(CONSTP + name)
    return c.get("v") if c else None


def fn(ctx, f, **kw):
    what = kw.pop("what")
    return ctx.one(f.find(**kw), what)


# ------------------------------------------------------------------------------------------ T-CODES
def t_codes(ctx, f, spec):
    adt = f.adts.get(FC)
    ctx.need([adt] if adt else [], "enum FieldCode")
    rows = {r["code"]: r for r in spec["header_fields"]}
    by_discr = {}
    for v in adt["variants"]:
        by_discr[int(v["discr"])] = v["name"]
    where = "%s:%s" % (adt["file"], adt["line"])
    for code, r in sorted(rows.items()):
        nm = by_discr.get(code)
        ctx.ob("T-CODES", "code:%s" % r["name"], nm is not None and norm(nm) == norm(r["name"]),
               "spec code %d %s ↔ FieldCode::%s" % (code, r["name"], nm), where)
    ctx.floor("T-CODES", "spec rows", len(rows), 9)
    # decoder: integer n -> variant with discriminant n
    de = ctx.one(f.find(name="deserialize", adt=FC, trait="serde_core::de::Deserialize"), "<FieldCode as Deserialize>::deserialize")
    tables = []
    for sb, t in mir.switches(de):
        if t[2] in ("u8", "u16", "u32", "u64", "i32", "i64", "usize") and len(t[3]) >= 2:
            sc = mir.switch_scrutinee(de, sb)
            if sc[0] == "discr":
                continue
            tables.append((sb, t))
    ctx.floor("T-CODES", "integer match in FieldCode::deserialize", len(tables), 1)
    for sb, t in tables:
        seen = set()
        for val, tgt in t[3]:
            vs = arm_variants(de, tgt, FC)
            want = by_discr.get(int(val))
            seen.add(int(val))
            ctx.ob("T-CODES", "decode:%s" % val, vs == {want} and want is not None,
                   "wire code %s decodes to FieldCode::%s (discriminant table says %s)" % (val, sorted(vs), want), "%s:%d" % (de.file, t[5]))
        for code in rows:
            if code not in seen:
                ctx.ob("T-CODES", "decode:%s" % code, False, "wire code %d is not decoded to its variant" % code, "%s:%d" % (de.file, t[5]))
    se = ctx.one(f.find(name="serialize", adt=FC, trait="serde_core::ser::Serialize"), "<FieldCode as Serialize>::serialize")
    w = repr_width(se)
    ctx.ob("T-CODES", "encode-width", w == 1, "FieldCode is written as an integer of %s byte(s)" % w, se.where)
    # encoder table (Serialize_repr): variant -> integer written
    for sb, place, adt_, arms, other in mir.discr_switches(se, f, FC):
        for vname, tgt in sorted(arms.items()):
            ks = set()
            for b, i, pl, rv, ln in mir.assignments(se):
                if b not in arm_blocks(se, tgt):
                    continue
                if rv[0] == "bin" and rv[1] in ("Add", "AddWithOverflow"):
                    ka, kb = mir.op_const(rv[2]), mir.op_const(rv[3])
                    if ka is not None and kb is not None and isinstance(ka.get("v"), int) and isinstance(kb.get("v"), int):
                        ks.add(ka["v"] + kb["v"])      # serde_repr writes `Variant as u8` as `<discr> + 0`
                elif rv[0] in ("use", "cast"):
                    k = mir.op_const(rv[1] if rv[0] == "use" else rv[2])
                    if k is not None and isinstance(k.get("v"), int):
                        ks.add(k["v"])
            want = [d for d, n in by_discr.items() if n == vname]
            ctx.ob("T-CODES", "encode:%s" % vname, ks == set(want), "FieldCode::%s is written as %s (discriminant %s)" % (vname, sorted(ks), want), se.where)
    return by_discr


def repr_width(se):
    """byte width of the integer a Serialize_repr / hand-written enum serializer writes"""
    for c in mir.calls(se):
        mm = re.search(r"Serializer::serialize_([ui])(8|16|32|64)$", c.declared) or \
            re.match(r"^<([ui])(8|16|32|64) as serde_core::ser::Serialize>::serialize", c.fnargs or c.declared)
        if mm:
            return int(mm.group(2)) // 8
    return None


def v_has_payload(adt, name):
    for v in adt["variants"]:
        if v["name"] == name:
            return bool(v["fields"])
    return False


# ------------------------------------------------------------------------------------------ T-FIELDS
def fields_of(f):
    adt = f.adts.get(FIELDS)
    return [(x[0], x[1]) for x in adt["variants"][0]["fields"]] if adt else []


def writer_table(ctx, f, spec, by_discr):
    ser = ctx.one(f.find(name="serialize", adt=FIELDS, trait="serde_core::ser::Serialize"), "<Fields as Serialize>::serialize")
    name_of_code = {v: k for k, v in by_discr.items()}
    rows = {norm(r["name"]): r for r in spec["header_fields"]}
    struct_fields = fields_of(f)
    ctx.need(struct_fields, "struct Fields")
    elems = [c for c in mir.calls(ser) if c.declared == "serde_core::ser::SerializeSeq::serialize_element"]
    ctx.floor("T-FIELDS-W", "serialize_element calls in <Fields as Serialize>", len(elems), 9)
    table = {}
    some_guards = {}
    for sb, place, adt, arms, other in mir.discr_switches(ser, f, "core::option::Option"):
        s = sources(ser, ["c", place])
        fns = set(s.field_names(FIELDS))
        some = arms.get("Some", arms.get("1"))   # core's Option is not a workspace ADT: Some has discriminant 1
        if len(fns) == 1 and some is not None:
            some_guards.setdefault(fns.pop(), []).append(some)
    for c in elems:
        s = sources(ser, c.args[1])
        tuples = [rv for rv in s.aggs if rv[1] == "tuple" and len(rv[4]) == 2]
        if len(tuples) != 1:
            ctx.ob("T-FIELDS-W", "element-shape", False, "element is not a single (code, value) pair", c.where)
            continue
        code_op, val_op = tuples[0][4]
        codes = {rv[3] for rv in sources(ser, code_op).aggs if rv[1] == "adt" and rv[2] == FC}
        vs = sources(ser, val_op)
        flds = sorted(set(vs.field_names(FIELDS)))
        vfrom = [x for x in vs.through + vs.calls if x.is_("from") and "zvariant::value::Value<" in x.fnargs.split(" as ")[0]]
        vtypes = set()
        how = ""
        for x in vfrom:
            bv = value_variants_built(f, x)
            if bv:
                vtypes |= {VARIANT_TYPE.get(v, "?" + v) for v in bv}
                how = "Value::%s" % "/".join(sorted(bv))
        if any(rv[1] == "adt" and rv[2] == SIGSER for rv in vs.aggs):
            vtypes.add("g")
            how = "SignatureSerializer"
        code = codes.pop() if len(codes) == 1 else None
        key = "row:%s" % (code or "?")
        row = rows.get(norm(code)) if code else None
        ok_field = len(flds) == 1 and code is not None and norm(flds[0]) == norm(code)
        ok_type = row is not None and vtypes == {row["type"]}
        ctx.ob("T-FIELDS-W", key + ":field", ok_field, "FieldCode::%s is written with the value of Fields.%s" % (code, "/".join(flds) or "?"), c.where)
        ctx.ob("T-FIELDS-W", key + ":type", ok_type, "FieldCode::%s value is %s, D-Bus type %s; spec says %s" % (
            code, how or "?", "/".join(sorted(vtypes)) or "?", row["type"] if row else "(no such field)"), c.where)
        if code in table:
            ctx.ob("T-FIELDS-W", key + ":once", False, "FieldCode::%s is written twice" % code, c.where)
        table[code] = (flds[0] if len(flds) == 1 else None, "/".join(sorted(vtypes)))
        # guard: Option fields are written on the Some edge of a test of the same field
        if len(flds) == 1:
            ty = dict(struct_fields).get(flds[0], "")
            if ty.startswith("core::option::Option<"):
                g = some_guards.get(flds[0], [])
                ctx.ob("T-FIELDS-W", key + ":guard", any(mir.block_dominates(ser, t, c.b) for t in g),
                       "Fields.%s is written only when it is Some" % flds[0], c.where)
    for r in spec["header_fields"]:
        nm = by_discr.get(r["code"])
        if nm not in table:
            ctx.ob("T-FIELDS-W", "row:%s:present" % nm, False, "header field %s is never written" % r["name"], ser.where)
    written = {v[0] for v in table.values()}
    for n, ty in struct_fields:
        ctx.ob("T-FIELDS-W", "covers:%s" % n, n in written, "struct field Fields.%s is serialized" % n, ser.where)
    return table


def reader_table(ctx, f, spec, by_discr):
    vis = ctx.one(f.find(name="visit_seq", adt="zbus::message::fields::FieldsVisitor"), "FieldsVisitor::visit_seq")
    rows = {norm(r["name"]): r for r in spec["header_fields"]}
    sws = list(mir.discr_switches(vis, f, FC))
    ctx.floor("T-FIELDS-R", "match on FieldCode in visit_seq", len(sws), 1)
    table = {}
    for sb, place, adt, arms, other in sws:
        for vname, tgt in sorted(arms.items()):
            blocks = arm_blocks(vis, tgt)
            writes = sorted({w[5] for w in fl.field_writes(vis, FIELDS) if w[0] in blocks})
            convs = [c for c in mir.calls(vis) if c.b in blocks and tryfrom_value_target(f, c)]
            acc = set()
            for c in convs:
                a = accepted_value_variants(f, tryfrom_value_target(f, c))
                acc |= a if a else {"?"}
            types = {VARIANT_TYPE.get(v, "?" + v) for v in acc}
            row = rows.get(norm(vname))
            where = "%s:%d" % (vis.file, convs[0].line if convs else mir.term(vis, sb)[5])
            if row is None:
                # a catch-all / unknown variant must not store anything
                ctx.ob("T-FIELDS-R", "row:%s:ignored" % vname, not writes, "non-spec code variant %s stores into %s" % (vname, writes), where)
                continue
            ctx.ob("T-FIELDS-R", "row:%s:field" % vname, len(writes) == 1 and norm(writes[0]) == norm(vname),
                   "FieldCode::%s is read into Fields.%s" % (vname, "/".join(writes) or "?"), where)
            ctx.ob("T-FIELDS-R", "row:%s:type" % vname, types == {row["type"]},
                   "FieldCode::%s value accepted as Value::%s, D-Bus type %s; spec says %s" % (
                       vname, "/".join(sorted(acc)) or "?", "/".join(sorted(types)) or "?", row["type"]), where)
            table[vname] = (writes[0] if len(writes) == 1 else None, "/".join(sorted(types)))
        for r in spec["header_fields"]:
            nm = by_discr.get(r["code"])
            if nm not in arms:
                ctx.ob("T-FIELDS-R", "row:%s:present" % nm, False, "header field %s has no reader arm" % r["name"], vis.where)
    return table


def t_sig(ctx, f):
    se = ctx.one(f.find(name="serialize", adt=SIGSER, trait="serde_core::ser::Serialize"), "<SignatureSerializer as Serialize>::serialize")
    flds = [c for c in mir.calls(se) if c.declared == "serde_core::ser::SerializeStruct::serialize_field"]
    ctx.ob("T-SIG", "two-slots", len(flds) == 2, "variant written as %d slot(s)" % len(flds), se.where)
    if len(flds) != 2:
        return
    a, b = flds
    if mir.block_dominates(se, b.b, a.b):
        a, b = b, a
    ctx.ob("T-SIG", "order", mir.block_dominates(se, a.b, b.b), "signature slot is written before the value slot", b.where)
    ta = re.search(r"serialize_field::<(.+)>$", a.fnargs)
    ctx.ob("T-SIG", "slot0-is-signature", bool(ta) and ta.group(1) == "zvariant_utils::signature::Signature",
           "first slot has type %s" % (ta.group(1) if ta else "?"), a.where)
    vs = sources(se, b.args[2] if len(b.args) > 2 else b.args[-1])
    np = [c for c in vs.calls + vs.through if c.is_("to_string_no_parens")]
    ok = bool(np)
    detail = "value slot derives from %s" % sorted({c.callee for c in vs.calls})
    if np:
        s0 = sources(se, np[0].args[0])
        ok = 1 in s0.args
        detail = "value slot is to_string_no_parens() of the wrapped signature"
    only = all(c.is_("to_string_no_parens") for c in vs.calls)
    ctx.ob("T-SIG", "value-no-parens", ok and only, detail, b.where)


# ------------------------------------------------------------------------------------------ Q-FIELDS
def q_fields(ctx, f):
    names = [n for n, _ in fields_of(f)]
    qadt = f.adts.get(QF)
    ctx.need([qadt] if qadt else [], "struct QuickFields")
    qnames = [x[0] for x in qadt["variants"][0]["fields"]]
    ctx.ob("Q-FIELDS", "same-slots", sorted(qnames) == sorted(names), "QuickFields slots %s vs Fields %s" % (qnames, names), "zbus/src/message/fields.rs")
    qnew = ctx.one(f.find(name="new", adt=QF, trait=""), "QuickFields::new")
    aggs = fl.adt_aggregates(qnew, QF)
    ctx.need(aggs, "QuickFields aggregate in QuickFields::new")
    mh = ctx.one(f.find(name="header", adt="zbus::message::Message", trait=""), "Message::header")
    haggs = fl.adt_aggregates(mh, FIELDS)
    ctx.need(haggs, "Fields aggregate in Message::header")
    n = 0
    for nm in names:
        # (a) QuickFields::new: slot nm <- Header::nm()
        for b, i, rv, ln in aggs:
            op = fl.agg_field(rv, nm)
            sq = sources(qnew, op, extra_transparent=("new",), follow_all_args=True) if op else None
            got = sorted({c.callee.rsplit("::", 1)[-1] for c in sq.calls + sq.through if c.callee.startswith(HDR + "::")}) if sq else []
            ctx.ob("Q-FIELDS", "cache:%s" % nm, got == [nm], "QuickFields.%s is filled from Header::%s()" % (nm, "/".join(got) or "?"), "%s:%d" % (qnew.file, ln))
            n += 1
        # (b) Header::nm reads fields.nm
        hg = f.find(name=nm, adt=HDR, trait="")
        if ctx.ob("Q-FIELDS", "header-getter-exists:%s" % nm, len(hg) == 1, "Header::%s exists" % nm, "zbus/src/message/header.rs"):
            rd = fl.field_reads(hg[0], FIELDS)
            ctx.ob("Q-FIELDS", "header-getter:%s" % nm, rd == {nm}, "Header::%s() reads fields.%s" % (nm, "/".join(sorted(rd)) or "?"), hg[0].where)
        # (c) QuickFields::nm reads slot nm
        qg = f.find(name=nm, adt=QF, trait="")
        if ctx.ob("Q-FIELDS", "quick-getter-exists:%s" % nm, len(qg) == 1, "QuickFields::%s exists" % nm, "zbus/src/message/fields.rs"):
            rd = fl.field_reads(qg[0], QF)
            ctx.ob("Q-FIELDS", "quick-getter:%s" % nm, rd == {nm}, "QuickFields::%s() reads slot %s" % (nm, "/".join(sorted(rd)) or "?"), qg[0].where)
        # (d) Message::header: Fields.nm <- QuickFields::nm()
        for b, i, rv, ln in haggs:
            op = fl.agg_field(rv, nm)
            s = sources(mh, op) if op else None
            got = sorted({c.callee.rsplit("::", 1)[-1] for c in (s.calls + s.through) if c.callee.startswith(QF + "::")}) if s else []
            ctx.ob("Q-FIELDS", "header():%s" % nm, got == [nm], "Message::header() fills Fields.%s from QuickFields::%s()" % (nm, "/".join(got) or "?"), "%s:%d" % (mh.file, ln))
    ctx.floor("Q-FIELDS", "cached slots", n, 9)
    # the lazily built cache is built by the same constructor from the message's own bytes
    qf = ctx.one(f.find(name="quick_fields", adt="zbus::message::Message", trait=""), "Message::quick_fields")
    fam = f.family(qf)
    news = [c for b in fam for c in mir.calls(b) if c.callee == QF + "::new"]
    ctx.ob("Q-FIELDS", "lazy-cache-uses-new", bool(news), "Message::quick_fields builds the cache with QuickFields::new", qf.where)


# ------------------------------------------------------------------------------------------ builder / parser
def builder_rules(ctx, f, spec):
    bg = ctx.one(f.find(name="build_generic", adt=BUILDER, trait=""), "Builder::build_generic")
    MAXV = const_of(f, "MAX_MESSAGE_SIZE")
    ctx.ob("MAX", "constant", MAXV == spec["max_message_size"], "MAX_MESSAGE_SIZE = %s (spec %s)" % (MAXV, spec["max_message_size"]), "zbus/src/message/header.rs")
    cs = mir.calls(bg)
    inner = fl.adt_aggregates(bg, INNER)
    ctx.need(inner, "Inner aggregate in build_generic")

    def is_sersize(c):
        return c.callee.startswith("zvariant::ser::serialized_size")

    def is_towriter(c):
        return c.callee.startswith("zvariant::ser::to_writer")

    sizes = [c for c in cs if is_sersize(c)]
    writers = [c for c in cs if is_towriter(c)]
    ctx.ob("OFFSET", "builder:one-header-size", len(sizes) == 1, "%d serialized_size call(s) in build_generic" % len(sizes), bg.where)
    ctx.ob("ORDER", "builder:one-header-write", len(writers) == 1, "%d to_writer call(s) in build_generic" % len(writers), bg.where)
    if len(sizes) != 1 or len(writers) != 1:
        return
    size, tw = sizes[0], writers[0]
    hdr_l = ref_local(bg, size.args[1])
    hdr_w = ref_local(bg, tw.args[2])
    hty = bg.locals[hdr_l][0] if hdr_l is not None else "?"
    ctx.ob("OFFSET", "builder:size-of-written-header", hdr_l is not None and hdr_l == hdr_w and hty.startswith(HDR),
           "serialized_size and to_writer are applied to the same `%s` (%s)" % (mir.local_name(bg, hdr_l), hty), size.where)
    csz = mir.root_local(bg, size.args[0])
    cwr = mir.root_local(bg, tw.args[1])
    ctx.ob("OFFSET", "builder:same-context", csz is not None and csz == cwr, "header is measured and written with the same context `%s`" % mir.local_name(bg, csz), tw.where)
    # OFFSET formula
    for b, i, rv, ln in inner:
        where = "%s:%d" % (bg.file, ln)
        op = fl.agg_field(rv, "body_offset")
        x = x_plus_padding(bg, op) if op else None
        ctx.ob("OFFSET", "builder:formula", x is not None, "Inner.body_offset = x + padding_for_8_bytes(x)" if x is not None else
               "Inner.body_offset is not of the form x + padding_for_8_bytes(x)", where)
        if x is not None:
            sx = sources(bg, x)
            ctx.ob("OFFSET", "builder:x-is-header-size", size in sx.calls and len(sx.calls) == 1 and not sx.binops,
                   "x is the serialized size of the header (sources: %s)" % sorted({c.callee for c in sx.calls}), where)
        # bytes kept are the bytes written
        bop = fl.agg_field(rv, "bytes")
        sb_ = sources(bg, bop) if bop else None
        datas = [c for c in (sb_.calls if sb_ else []) if c.is_("new_fds", "new") and "serialized::data::Data" in c.callee]
        ctx.ob("ORDER", "builder:bytes-kept", len(datas) == 1, "Inner.bytes is the Data built from the written buffer", where)
        pop = fl.agg_field(rv, "primary_header")
        sp = sources(bg, pop) if pop else None
        ip = [c for c in (sp.calls if sp else []) if c.callee.startswith(HDR) and c.is_("into_primary")]
        ctx.ob("LEN", "builder:primary-kept", len(ip) == 1 and var_of(bg, ip[0].args[0]) == hdr_l,
               "Inner.primary_header is the primary header of the written header", where)
    # ORDER: header -> padding -> body into one cursor over one vec
    pads = []
    for c in cs:
        if c.is_("write_all", "write") and len(c.args) >= 2:
            o = mir.origin(bg, c.args[1])
            if o[0] == "call" and o[1].is_("index") and len(o[1].args) > 1:
                ro = mir.origin(bg, o[1].args[1])
                if ro[0] == "rv" and ro[1][0] == "agg" and ro[1][2].endswith("RangeTo"):
                    po = mir.origin(bg, ro[1][4][0])
                    end = ro[1][4][0]
                    pc = None
                    l = mir.root_local(bg, end)
                    d = mir.single_def(bg, l) if l is not None else None
                    if d and d[0] == "call" and d[1].is_("padding_for_8_bytes"):
                        pc = d[1]
                    pads.append((c, pc))
    bodyw = [c for c in cs if c.is_("call_once", "call_mut", "call") and c.args and (ref_local(bg, c.args[0]) or -1) in range(1, bg.d["argc"] + 1)
             and "Fn" in c.declared]
    ctx.ob("ORDER", "builder:padding-write", len(pads) == 1, "%d write(s) of a `[..n]` slice after the header" % len(pads), bg.where)
    ctx.ob("ORDER", "builder:body-write", len(bodyw) == 1, "%d call(s) of the body writer" % len(bodyw), bg.where)
    if len(pads) == 1 and len(bodyw) == 1:
        pad, pc = pads[0]
        bw = bodyw[0]
        ok_pc = pc is not None
        if ok_pc:
            # the padding length is padding_for_8_bytes of the header size x
            sx = sources(bg, pc.args[0])
            ok_pc = size in sx.calls and len(sx.calls) == 1 and not sx.binops
        ctx.ob("ORDER", "builder:padding-length", ok_pc, "the slice written between header and body is `[..padding_for_8_bytes(header size)]`", pad.where)
        ctx.ob("ORDER", "builder:header-padding-body", mir.block_dominates(bg, tw.b, pad.b) and mir.block_dominates(bg, pad.b, bw.b)
               and tw.b != pad.b != bw.b, "to_writer(header) → write_all(padding) → body writer", pad.where)
        cur = ref_local(bg, tw.args[0])
        curs = {cur, ref_local(bg, pad.args[0])}
        sbw = sources(bg, bw.args[1]) if len(bw.args) > 1 else None
        ok_cur = cur is not None and len(curs) == 1 and sbw is not None and cur in sbw.locals
        ctx.ob("ORDER", "builder:one-cursor", ok_cur, "header, padding and body go to the same cursor `%s`" % mir.local_name(bg, cur), bw.where)
        # cursor wraps the vec that is kept
        vec = None
        d = mir.single_def(bg, cur) if cur is not None else None
        if d and d[0] == "call" and d[1].is_("new") and "Cursor" in d[1].callee:
            vec = ref_local(bg, d[1].args[0])
        kept = None
        for b, i, rv, ln in inner:
            bop = fl.agg_field(rv, "bytes")
            for c in sources(bg, bop).calls:
                if "serialized::data::Data" in c.callee and c.args:
                    kept = mir.root_local(bg, c.args[0])
                    fsrc = sources(bg, c.args[2]) if len(c.args) > 2 else None
                    ctx.ob("LEN", "builder:fds-kept", fsrc is not None and bw in fsrc.calls and all(x is bw for x in fsrc.calls),
                           "the fds stored with the bytes are the ones returned by the body writer", c.where)
                    cctx = mir.root_local(bg, c.args[1]) if len(c.args) > 1 else None
                    ctx.ob("OFFSET", "builder:data-context", cctx == csz, "the bytes are kept with the context they were written with", c.where)
        ctx.ob("ORDER", "builder:cursor-over-kept-vec", vec is not None and vec == kept,
               "the cursor writes into `%s`, the buffer that becomes Inner.bytes" % mir.local_name(bg, vec), bw.where)
        # header frozen: the variable-size part (fields) may not change once it was measured, the fixed-size
        # primary header may not change once it was written
        after_size = mir.reachable(bg, mir.succs(bg)[size.b])
        after_write = mir.reachable(bg, mir.succs(bg)[tw.b])
        muts = [c for c in cs if c.callee.startswith(HDR) and c.is_("fields_mut", "primary_mut") and ref_local(bg, c.args[0]) == hdr_l]
        ctx.floor("ORDER", "header mutations before measuring", len(muts), 2)
        for m in muts:
            if m.is_("fields_mut"):
                ctx.ob("ORDER", "builder:header-frozen:fields_mut", m.b not in after_size,
                       "header fields are mutated only before the header size is taken", m.where)
            else:
                ctx.ob("ORDER", "builder:header-frozen:primary_mut", m.b not in after_write,
                       "the primary header is mutated only before the header is written", m.where)
    # LEN
    sets = [c for c in cs if c.callee == PH + "::set_body_len"]
    ctx.floor("LEN", "set_body_len calls in build_generic", len(sets), 1)
    argn = {mir.local_name(bg, i): i for i in range(1, bg.d["argc"] + 1)}
    size_arg = [i for i in range(1, bg.d["argc"] + 1) if bg.locals[i][0].endswith("serialized::size::Size")]
    ctx.ob("LEN", "builder:size-param", len(size_arg) == 1, "build_generic has one serialized::Size parameter", bg.where)
    sa = size_arg[0] if size_arg else None
    for c in sets:
        s = sources(bg, c.args[1])
        szc = [x for x in s.calls if x.callee.endswith("serialized::size::Size::size")]
        ok = len(s.calls) == 1 and len(szc) == 1 and ref_local(bg, szc[0].args[0]) == sa and not s.binops
        ctx.ob("LEN", "builder:body_len-source", ok, "body_len is body_size.size() (sources %s)" % sorted({x.callee for x in s.calls}), c.where)
        ctx.ob("LEN", "builder:body_len-before-write", mir.block_dominates(bg, c.b, tw.b), "body_len is set on every path before the header is written", c.where)
    ufw = fl.field_writes(bg, FIELDS, "unix_fds")
    ctx.floor("LEN", "writes of Fields.unix_fds in build_generic", len(ufw), 1)
    for b, i, pl, rv, ln, _ in ufw:
        where = "%s:%d" % (bg.file, ln)
        s = sources(bg, rv[1] if rv[0] == "use" else ["c", pl])
        nf = [x for x in s.calls if x.callee.endswith("serialized::size::Size::num_fds")]
        ok = len(s.calls) == 1 and len(nf) == 1 and ref_local(bg, nf[0].args[0]) == sa and not s.binops
        ctx.ob("LEN", "builder:unix_fds-source", ok, "unix_fds is body_size.num_fds() (sources %s)" % sorted({x.callee for x in s.calls}), where)
        # written whenever non-zero
        guard_ok = mir.block_dominates(bg, b, size.b)
        why = "written unconditionally before the header is measured"
        if not guard_ok and nf:
            for sb, op, l, r, tt, ft, gl in mir.cmp_switches(bg):
                if op not in ("Eq", "Ne", "Gt", "Lt"):
                    continue
                kl, kr = mir.resolve_const(bg, l), mir.resolve_const(bg, r)
                var = l if (kr is not None and kr.get("v") == 0) else (r if (kl is not None and kl.get("v") == 0) else None)
                if var is None or nf[0] not in sources(bg, var).calls:
                    continue
                nz = ft if op == "Eq" else tt
                if nz is not None and mir.block_dominates(bg, nz, b) and mir.block_dominates(bg, sb, size.b):
                    guard_ok = True
                    why = "written on the non-zero edge of a test of the same count, before the header is measured"
        ctx.ob("LEN", "builder:unix_fds-when-nonzero", guard_ok, why if guard_ok else "unix_fds is not written on every path with a non-zero fd count", where)
    # MAX
    allocs = [c for c in cs if c.is_("with_capacity", "reserve", "reserve_exact", "resize") and "Vec" in c.callee]
    found = False
    for sb, op, l, r, tt, ft, ln in mir.cmp_switches(bg):
        kl, kr = mir.resolve_const(bg, l), mir.resolve_const(bg, r)
        over = None
        if kr is not None and kr.get("v") == MAXV and kl is None:
            var = l
            over = tt if op == "Gt" else (ft if op == "Le" else None)
        elif kl is not None and kl.get("v") == MAXV and kr is None:
            var = r
            over = tt if op == "Lt" else (ft if op == "Ge" else None)
        else:
            continue
        if over is None:
            ctx.ob("MAX", "builder:strict", False, "size limit compared with `%s` (exactly 128 MiB must be allowed, more must not)" % op, "%s:%d" % (bg.file, ln))
            continue
        found = True
        where = "%s:%d" % (bg.file, ln)
        s = sources(bg, var)
        parts = {"header": size in s.calls, "padding": bool([x for x in s.calls if x.is_("padding_for_8_bytes")]),
                 "body": bool([x for x in s.calls if x.callee.endswith("Size::size")])}
        ctx.ob("MAX", "builder:total", all(parts.values()) and set(s.binops) <= {"Add", "AddWithOverflow"},
               "compared value sums %s" % [k for k, v in parts.items() if v], where)
        reach = mir.reachable(bg, [over])
        ctx.ob("MAX", "builder:over-limit-is-error", not any(a.b in reach for a in allocs) and tw.b not in reach and bool(fl.err_blocks(bg) & reach)
               and not (fl.ok_blocks(bg) & reach), "over-limit edge returns Err without allocating or writing", where)
        for a in allocs:
            ctx.ob("MAX", "builder:check-before-alloc", mir.block_dominates(bg, sb, a.b), "size check dominates %s" % a.callee.rsplit("::", 1)[-1], a.where)
        ctx.ob("MAX", "builder:check-before-write", mir.block_dominates(bg, sb, tw.b), "size check dominates the header write", tw.where)
    ctx.ob("MAX", "builder:present", found, "build_generic compares the total length with MAX_MESSAGE_SIZE" if found else "no comparison with MAX_MESSAGE_SIZE in build_generic", bg.where)

    # ---- build(): measure and write the same value with the same context
    bd = ctx.one(f.find(name="build", adt=BUILDER, trait=""), "Builder::build")
    bsz = [c for c in mir.calls(bd) if is_sersize(c)]
    bgc = [c for c in mir.calls(bd) if c.callee == bg.id]
    ctx.ob("LEN", "build:one-measure", len(bsz) == 1 and len(bgc) == 1, "build measures the body once and calls build_generic once", bd.where)
    if len(bsz) == 1 and len(bgc) == 1:
        m, g = bsz[0], bgc[0]
        body_l = ref_local(bd, m.args[1])
        ctx_l = mir.root_local(bd, m.args[0])
        # which build_generic parameter is the Size / the closure
        s_sz = sources(bd, g.args[sa - 1]) if sa else None
        ctx.ob("LEN", "build:size-passed", s_sz is not None and m in s_sz.calls and len(s_sz.calls) == 1,
               "the Size passed to build_generic is the measured size of the body", g.where)
        clos = None
        for a in g.args:
            o = mir.origin(bd, a)
            if o[0] == "rv" and o[1][0] == "agg" and o[1][1] == "closure":
                clos = o[1]
        ok = False
        detail = "no body-writer closure passed"
        if clos is not None:
            cb = f.byid(clos[2])
            wr = [c for c in mir.calls(cb) if is_towriter(c)] if cb is not None else []
            detail = "%d to_writer call(s) in the body closure" % len(wr)
            if len(wr) == 1:
                w = wr[0]

                ci, bi = upvar_idx(cb, w.args[1]), upvar_idx(cb, w.args[2])
                cap = clos[4]
                okc = len(ci) == 1 and mir.root_local(bd, cap[next(iter(ci))]) == ctx_l
                okb = len(bi) == 1 and ref_local(bd, cap[next(iter(bi))]) == body_l
                ok = okc and okb
                detail = "closure writes captured #%s with context #%s; measured `%s` with `%s`" % (
                    sorted(bi), sorted(ci), mir.local_name(bd, body_l), mir.local_name(bd, ctx_l))
        ctx.ob("LEN", "build:same-value-and-context", ok, detail, g.where)
        sig = [c for c in mir.calls(bd) if c.is_("signature") and "DynamicType" in c.declared]
        ctx.ob("LEN", "build:signature-of-body", len(sig) == 1 and ref_local(bd, sig[0].args[0]) == body_l
               and sig[0] in sources(bd, g.args[1]).calls, "the signature passed on is the body's dynamic signature", g.where)
    # ---- build_raw_body(): the declared size / fd count are those of what its closure writes / returns
    br = f.find(name="build_raw_body", adt=BUILDER, trait="")
    ctx.ob("LEN", "raw:exists", len(br) == 1, "Builder::build_raw_body present", bg.where)
    if len(br) == 1:
        br = br[0]
        rcs = mir.calls(br)
        news = [c for c in rcs if c.callee.endswith("serialized::size::Size::new")]
        setf = [c for c in rcs if c.callee.endswith("serialized::size::Size::set_num_fds")]
        gcs = [c for c in rcs if c.callee == bg.id]
        clos = None
        for g in gcs:
            for a in g.args:
                o = mir.origin(br, a)
                if o[0] == "rv" and o[1][0] == "agg" and o[1][1] == "closure":
                    clos = o[1]
        cb = f.byid(clos[2]) if clos is not None else None
        ok_b = ok_f = False
        d_b = d_f = "body closure not found"
        if cb is not None and len(news) == 1 and len(gcs) == 1:
            s0 = sources(br, news[0].args[0])
            lens = [c for c in s0.calls if c.is_("len")]
            blocal = var_of(br, lens[0].args[0]) if len(lens) == 1 and len(s0.calls) == 1 and not s0.binops else None
            wr = [c for c in mir.calls(cb) if c.is_("write_all")]
            if blocal is not None and len(wr) == 1:
                bi = upvar_idx(cb, wr[0].args[1])
                ok_b = len(bi) == 1 and var_of(br, clos[4][next(iter(bi))]) == blocal and \
                    news[0] in sources(br, gcs[0].args[sa - 1]).calls + sources(br, gcs[0].args[sa - 1], extra_transparent=("set_num_fds",)).calls
                d_b = "Size::new(%s.len()) and the closure writes captured #%s" % (mir.local_name(br, blocal), sorted(bi))
            else:
                d_b = "declared size is not `<bytes>.len()` of the bytes written (sources %s)" % sorted({c.callee for c in s0.calls})
            if len(setf) == 1:
                s1 = sources(br, setf[0].args[1])
                fl_ = [c for c in s1.calls if c.is_("len")]
                flocal = var_of(br, fl_[0].args[0]) if len(fl_) == 1 and len(s1.calls) == 1 and not s1.binops else None
                ret_idx = set()
                for b_, i_, pl_, rv_, ln_ in mir.assignments(cb):
                    if rv_[0] == "agg" and rv_[1] == "adt" and rv_[2] == "core::result::Result" and rv_[3] == "Ok":
                        ret_idx |= upvar_idx(cb, rv_[4][0])
                ok_f = flocal is not None and len(ret_idx) == 1 and var_of(br, clos[4][next(iter(ret_idx))]) == flocal and \
                    setf[0] in sources(br, gcs[0].args[sa - 1]).calls
                d_f = "set_num_fds(%s.len()) and the closure returns captured #%s" % (mir.local_name(br, flocal), sorted(ret_idx))
            else:
                d_f = "%d set_num_fds call(s)" % len(setf)
        ctx.ob("LEN", "raw:size-of-written-bytes", ok_b, d_b, br.where)
        ctx.ob("LEN", "raw:num_fds-of-returned-fds", ok_f, d_f, br.where)
    # the signature parameter lands in Fields.signature
    sw = fl.field_writes(bg, FIELDS, "signature")
    ctx.floor("LEN", "writes of Fields.signature in build_generic", len(sw), 1)
    sig_arg = [i for i in range(1, bg.d["argc"] + 1) if bg.locals[i][0].endswith("signature::Signature")]
    for b, i, pl, rv, ln, _ in sw:
        s = sources(bg, rv[1]) if rv[0] == "use" else None
        ctx.ob("LEN", "builder:signature-field", s is not None and len(sig_arg) == 1 and sig_arg[0] in s.args and not s.calls and
               mir.block_dominates(bg, b, size.b), "Fields.signature is the signature parameter, set before the header is measured", "%s:%d" % (bg.file, ln))

    # ---- CTX
    n = 0
    for name in ("build", "build_generic", "build_raw_body"):
        for body in f.find(name=name, adt=BUILDER, trait=""):
            for c in mir.calls(body):
                if c.callee.endswith("serialized::context::Context::new_dbus"):
                    n += 1
                    s = sources(body, c.args[0])
                    es = [x for x in s.calls if x.callee == PH + "::endian_sig"]
                    k = mir.resolve_const(body, c.args[1])
                    ctx.ob("CTX", "%s:endian-of-header" % name, len(es) == 1 and len(s.calls) == 1,
                           "context endianness comes from the header's endian_sig()", c.where)
                    ctx.ob("CTX", "%s:position-0" % name, k is not None and k.get("v") == 0, "context position is 0", c.where)
    ctx.floor("CTX", "Context::new_dbus calls in the builder", n, 3)


def builder_ctor_rules(ctx, f):
    """LEN:ctor (added after seeded change C11): build_generic writes `unix_fds` only when the new body has file
    descriptors, so a Builder must never start with a stale count. Every construction of `Builder` either takes a
    freshly built header (Fields::new / Default) or clears `Fields.unix_fds` (stores None) before — unless
    build_generic itself stores the field on every path (then any starting value is fine)."""
    BUILDER = "zbus::message::builder::Builder"
    bgs = [b for b in f.find(name="build_generic", adt=BUILDER)]
    always = False
    for bg in bgs:
        ufw = fl.field_writes(bg, FIELDS, "unix_fds")
        rets = [b for b in mir.exits(bg)]
        if ufw:
            blocks = {w[0] for w in ufw}
            # every normal return is reachable only through a store of the field
            always = all(e not in mir.reachable(bg, [0], avoid=blocks) for e in rets if _ok_return(bg, e))
    n = 0
    for b in f.all_bodies("zbus"):
        if "#test" in b.crate:
            continue
        for bi, i, pl, rv, ln in mir.assignments(b):
            if not (rv[0] == "agg" and rv[1] == "adt" and rv[2] == BUILDER):
                continue
            n += 1
            where = "%s:%d" % (b.file, ln)
            names = rv[5] or []
            if "header" not in names:
                ctx.ob("LEN", "ctor:%s:header-field" % b.root, False, "Builder no longer has a `header` field: rule needs review", where)
                continue
            h = rv[4][names.index("header")]
            ok, why = always, "build_generic stores unix_fds on every path"
            if not ok:
                # (a) explicit reset to None of Fields.unix_fds dominating the construction
                for w in fl.field_writes(b, FIELDS, "unix_fds"):
                    wrv = w[3]
                    if wrv[0] == "use":
                        oo = mir.origin(b, wrv[1])
                        if oo[0] == "rv":
                            wrv = oo[1]
                    none = wrv[0] == "agg" and wrv[1] == "adt" and (wrv[2] or "").endswith("option::Option") and wrv[3] == "None"
                    if none and mir.dominates(b, (w[0], w[1]), (bi, i)):
                        ok, why = True, "unix_fds is cleared before the Builder is made from an existing header"
                # (b) the header is freshly built: Header::new(primary, fields) with fields from Fields::new()/default()
                if not ok:
                    o = mir.origin(b, h)
                    if o[0] == "call" and o[1].is_("Header::<'m>::new", "new") and "Header" in o[1].callee and len(o[1].args) > 1:
                        fo = mir.origin(b, o[1].args[1])
                        if fo[0] == "call" and fo[1].callee.rsplit("::", 1)[-1] in ("new", "default") and "Fields" in fo[1].callee:
                            ok, why = True, "header built from fresh Fields (no fd count)"
                    elif o[0] in ("place", "ref") and o[1][0] == 1 and b.d.get("impl_trait") == "core::clone::Clone":
                        ok, why = True, "derived Clone of an existing Builder"
                if not ok and (b.d.get("macro") or "").find("Clone") >= 0:
                    ok, why = True, "derived Clone of an existing Builder"
            ctx.ob("LEN", "ctor:%s:no-stale-unix_fds" % b.root, ok,
                   why if ok else "a Builder is made from an existing header without clearing Fields.unix_fds, and build_generic only stores the "
                   "field when the new body has fds: a rebuilt message without fds keeps the old count in its header", where)
    ctx.floor("LEN", "constructions of message::Builder", n, 2)


def _ok_return(body, e):
    """a return block that can follow a successful build (not the `?` error exits): reachable from an Ok aggregate"""
    oks = {b for b, i, pl, rv, ln in mir.assignments(body) if rv[0] == "agg" and rv[1] == "adt" and rv[3] == "Ok"}
    return any(e in mir.reachable(body, [o]) for o in oks)


def fieldpos_width(ctx, f):
    """Q-FIELDS:pos-width (added after seeded change C11b): QuickFields caches header string fields as byte ranges of the
    message; FieldPos::build maps a range that does not fit to "not present". A message may be up to 128 MiB
    (2^27), and an object path has no 255-byte cap, so the range type must hold 2^27: u32 or wider."""
    a = f.adts.get("zbus::message::fields::FieldPos")
    ctx.need([a] if a else [], "ADT message::fields::FieldPos")
    for name, ty, vis in a["variants"][0]["fields"]:
        ok = ty in ("u32", "u64", "usize", "i64", "u128")
        ctx.ob("Q-FIELDS", "pos-width:FieldPos.%s" % name, ok,
               "FieldPos.%s: %s can address any offset of a 128 MiB message" % (name, ty) if ok else
               "FieldPos.%s is %s: header fields lying beyond offset %s of a message are silently reported as absent" % (
                   name, ty, {"u16": "65535", "u8": "255", "i32": "2^31", "i16": "32767"}.get(ty, "its range")),
               "%s:%s" % (a.get("file"), a.get("line")))


def parser_rules(ctx, f, spec):
    fr = ctx.one(f.find(name="from_raw_parts", adt="zbus::message::Message", trait=""), "Message::from_raw_parts")
    PHS, MIN = const_of(f, "PRIMARY_HEADER_SIZE"), const_of(f, "MIN_MESSAGE_SIZE")
    ctx.ob("OFFSET", "const:MIN=PRIMARY+4", PHS is not None and MIN == PHS + 4, "PRIMARY_HEADER_SIZE=%s MIN_MESSAGE_SIZE=%s" % (PHS, MIN), "zbus/src/message/header.rs")
    # PRIMARY_HEADER_SIZE equals the byte size of the fixed members
    adt = f.adts.get(PH)
    ctx.need([adt] if adt else [], "struct PrimaryHeader")
    sz = 0
    okall = True
    for nm, ty, vis in adt["variants"][0]["fields"]:
        w = member_width(f, ty)
        if w is None:
            okall = False
        else:
            sz += w
    ctx.ob("OFFSET", "const:PRIMARY=sum-of-members", okall and sz == PHS, "fixed members take %s bytes; PRIMARY_HEADER_SIZE=%s" % (sz if okall else "?", PHS), "zbus/src/message/header.rs")
    inner = fl.adt_aggregates(fr, INNER)
    ctx.need(inner, "Inner aggregate in from_raw_parts")
    rds = [c for c in mir.calls(fr) if c.callee == PH + "::read_from_data"]
    ctx.ob("OFFSET", "parser:reads-primary", len(rds) == 1, "%d read_from_data call(s)" % len(rds), fr.where)
    for b, i, rv, ln in inner:
        where = "%s:%d" % (fr.file, ln)
        op = fl.agg_field(rv, "body_offset")
        x = x_plus_padding(fr, op) if op else None
        ctx.ob("OFFSET", "parser:formula", x is not None, "Inner.body_offset = x + padding_for_8_bytes(x)" if x is not None else
               "Inner.body_offset is not of the form x + padding_for_8_bytes(x)", where)
        if x is not None:
            rvx = resolve_bin(fr, x)
            ok = False
            detail = "x is not MIN_MESSAGE_SIZE + fields_len"
            if is_add(rvx):
                for a, b_ in ((rvx[2], rvx[3]), (rvx[3], rvx[2])):
                    ka = mir.resolve_const(fr, a)
                    if ka is not None and ka.get("v") == MIN:
                        sb_ = sources(fr, b_)
                        ok = len(rds) == 1 and rds[0] in sb_.calls and len(sb_.calls) == 1 and not sb_.binops
                        detail = "x = %s + (value from %s)" % (ka.get("v"), sorted({c.callee for c in sb_.calls}))
            ctx.ob("OFFSET", "parser:x-is-16+fields_len", ok, detail, where)
        pop = fl.agg_field(rv, "primary_header")
        sp = sources(fr, pop) if pop else None
        ctx.ob("OFFSET", "parser:primary-kept", sp is not None and len(rds) == 1 and rds[0] in sp.calls and len(sp.calls) == 1,
               "Inner.primary_header is the one read from the bytes", where)
        bop = fl.agg_field(rv, "bytes")
        sb2 = sources(fr, bop) if bop else None
        ctx.ob("OFFSET", "parser:bytes-kept", sb2 is not None and not sb2.calls and sb2.args == {1}, "Inner.bytes is the input data", where)
    # fields decoded from offset PRIMARY_HEADER_SIZE
    n = 0
    for body in (fr, ctx.one(f.find(name="read_from_data", adt=PH, trait=""), "PrimaryHeader::read_from_data")):
        for c in mir.calls(body):
            if c.callee.endswith("serialized::data::Data::<'bytes, 'fds>::slice") or (c.is_("slice") and "serialized::data::Data" in c.callee):
                o = mir.origin(body, c.args[1])
                start = None
                if o[0] == "rv" and o[1][0] == "agg" and o[1][2].endswith("RangeFrom"):
                    k = mir.resolve_const(body, o[1][4][0])
                    start = k.get("v") if k else None
                n += 1
                ctx.ob("OFFSET", "parser:%s:fields-at-12" % body.name, start == PHS, "field array is decoded from offset %s (PRIMARY_HEADER_SIZE=%s)" % (start, PHS), c.where)
    ctx.floor("OFFSET", "slices at the field array", n, 2)
    # Message::body slices from body_offset
    mb = ctx.one(f.find(name="body", adt="zbus::message::Message", trait=""), "Message::body")
    sl = [c for c in mir.calls(mb) if c.is_("slice") and "serialized::data::Data" in c.callee]
    ctx.floor("OFFSET", "slice in Message::body", len(sl), 1)
    for c in sl:
        o = mir.origin(mb, c.args[1])
        ok = False
        if o[0] == "rv" and o[1][0] == "agg" and o[1][2].endswith("RangeFrom"):
            s = sources(mb, o[1][4][0])
            ok = set(s.field_names(INNER)) == {"body_offset"} and not s.binops and not s.consts
        s0 = sources(mb, c.args[0])
        ctx.ob("OFFSET", "body():from-body_offset", ok and "bytes" in s0.field_names(INNER), "Message::body() is inner.bytes[inner.body_offset..]", c.where)
    # CTX: endianness check
    found = False
    for sb, call, tt, ft, neg in mir.call_bool_switches(fr):
        if not call.is_("ne", "eq"):
            continue
        srcs = [sources(fr, a) for a in call.args]
        a_sig = [i for i, s in enumerate(srcs) if [c for c in s.through + s.calls if c.callee.startswith("<" + ESIG + " as core::convert::TryFrom<u8>>")]]
        a_ctx = [i for i, s in enumerate(srcs) if [c for c in s.calls if c.callee.endswith("Context::endian")]]
        if not a_sig or not a_ctx or a_sig == a_ctx:
            continue
        found = True
        mismatch = tt if call.is_("ne") else ft
        reach = mir.reachable(fr, [mismatch])
        ctx.ob("CTX", "parser:endian-mismatch-is-error", bool(fl.err_blocks(fr) & reach) and not (fl.ok_blocks(fr) & reach),
               "bytes whose endianness byte disagrees with the data's context are rejected", call.where)
        ctx.ob("CTX", "parser:endian-check-first", all(mir.block_dominates(fr, sb, c.b) for c in rds), "endianness is checked before the header is decoded", call.where)
    ctx.ob("CTX", "parser:endian-check-present", found, "from_raw_parts compares bytes[0] with the context's endianness", fr.where)


def member_width(f, ty):
    if ty in ("u8", "i8", "bool"):
        return 1
    if ty in ("u32", "i32", "core::num::nonzero::NonZero<u32>"):
        return 4
    if ty in ("u16", "i16"):
        return 2
    if ty in ("u64", "i64"):
        return 8
    m = re.match(r"^enumflags2::BitFlags<(.+)>$", ty)
    if m:
        ty = m.group(1)
    a = f.adts.get(ty)
    if a and a["kind"] == "Enum":
        # width with which the repr enum is serialized (Serialize_repr) — fall back to discriminant range for bitflags
        se = f.find(name="serialize", adt=ty, trait="serde_core::ser::Serialize")
        for b in se:
            w = repr_width(b)
            if w:
                return w
        if all(int(v["discr"]) < 256 for v in a["variants"]) and m:
            return 1
    return None


# ------------------------------------------------------------------------------------------ ENDIAN / LAYOUT
def enum_map(ctx, f, body, src_adt, dst_adt, rule, key):
    out = {}
    sws = list(mir.discr_switches(body, f))
    sws = [s for s in sws if s[2] == src_adt]
    if not ctx.ob(rule, key + ":match", len(sws) == 1, "one match on %s in %s" % (src_adt, body.id), body.where):
        return out
    sb, place, adt, arms, other = sws[0]
    for nm, tgt in arms.items():
        vs = arm_variants(body, tgt, dst_adt)
        out[nm] = next(iter(vs)) if len(vs) == 1 else None
    return out


def endian_rules(ctx, f, spec):
    adt = f.adts.get(ESIG)
    ctx.need([adt] if adt else [], "enum EndianSig")
    d = {v["name"]: int(v["discr"]) for v in adt["variants"]}
    sv = spec["primary_header"][0]["values"]
    ctx.ob("ENDIAN", "codes", d == {"Little": sv["l"], "Big": sv["B"]}, "EndianSig discriminants %s; spec 'l'=%d 'B'=%d" % (d, sv["l"], sv["B"]), "zbus/src/message/header.rs")
    to_sig = [b for b in f.find(name="from", trait="core::convert::From") if b.d.get("impl_adt") == ESIG and ENDIAN in (b.d.get("impl_trait_full") or "")]
    to_end = [b for b in f.find(name="from", trait="core::convert::From") if b.d.get("impl_adt") == ENDIAN and ESIG in (b.d.get("impl_trait_full") or "")]
    a = ctx.one(to_sig, "From<Endian> for EndianSig")
    b = ctx.one(to_end, "From<EndianSig> for Endian")
    m1 = enum_map(ctx, f, a, ENDIAN, ESIG, "ENDIAN", "endian→sig")
    m2 = enum_map(ctx, f, b, ESIG, ENDIAN, "ENDIAN", "sig→endian")
    for nm in ("Little", "Big"):
        ctx.ob("ENDIAN", "sig→endian:%s" % nm, m2.get(nm) == nm, "EndianSig::%s → Endian::%s" % (nm, m2.get(nm)), b.where)
    # `Endian` is defined in the external crate `endi`: its variant names are not in the facts, so for the
    # Endian → EndianSig direction only "total and injective onto {Little, Big}" is decided.
    ctx.ob("ENDIAN", "endian→sig:bijective", len(m1) == 2 and sorted(v or "?" for v in m1.values()) == ["Big", "Little"],
           "Endian → EndianSig arms: %s" % m1, a.where)
    tf = ctx.one([x for x in f.find(name="try_from", adt=ESIG, trait="core::convert::TryFrom") if "TryFrom<u8>" in (x.d.get("impl_trait_full") or "")],
                 "TryFrom<u8> for EndianSig")
    sws = [(sb, t) for sb, t in mir.switches(tf) if t[2] == "u8" and mir.switch_scrutinee(tf, sb)[0] != "discr"]
    if ctx.ob("ENDIAN", "byte→sig:match", len(sws) == 1, "one match on the byte", tf.where):
        sb, t = sws[0]
        got = {}
        for val, tgt in t[3]:
            vs = arm_variants(tf, tgt, ESIG)
            got[int(val)] = next(iter(vs)) if len(vs) == 1 else None
        ctx.ob("ENDIAN", "byte→sig:table", got == {v: k for k, v in d.items()}, "byte table %s" % got, tf.where)
        reach = mir.reachable(tf, [t[4]])
        ctx.ob("ENDIAN", "byte→sig:other-is-error", bool(fl.err_blocks(tf) & reach) and not (fl.ok_blocks(tf) & reach),
               "any other byte is rejected", tf.where)


def layout_rules(ctx, f, spec):
    adt = f.adts.get(PH)
    flds = adt["variants"][0]["fields"]
    want = [("endianness", lambda t: t == ESIG), ("type", lambda t: t == MTYPE), ("flags", lambda t: t == "enumflags2::BitFlags<%s>" % FLAGS),
            ("version", lambda t: t == "u8"), ("body length", lambda t: t == "u32"),
            ("serial", lambda t: t in ("u32", "core::num::nonzero::NonZero<u32>"))]
    where = "%s:%s" % (adt["file"], adt["line"])
    ctx.ob("LAYOUT", "primary:count", len(flds) == len(want), "PrimaryHeader has %d members (spec: 6)" % len(flds), where)
    for i, (what, pred) in enumerate(want):
        ok = i < len(flds) and pred(flds[i][1])
        ctx.ob("LAYOUT", "primary:%d:%s" % (i + 1, what.replace(" ", "_")), ok, "member %d (%s) is `%s: %s`" % (
            i + 1, what, flds[i][0] if i < len(flds) else "-", flds[i][1] if i < len(flds) else "-"), where)
    # the roles of the two u32s: the member written by set_body_len is #5, the one written by set_serial_num is #6
    for setter, pos in (("set_body_len", 4), ("set_serial_num", 5), ("set_flags", 2), ("set_msg_type", 1), ("set_endian_sig", 0), ("set_protocol_version", 3)):
        sb = f.find(name=setter, adt=PH, trait="")
        if not sb:
            continue
        ws = {w[5] for w in fl.field_writes(sb[0], PH)}
        ctx.ob("LAYOUT", "primary:role:%s" % setter, pos < len(flds) and ws == {flds[pos][0]}, "%s writes member #%d (%s)" % (setter, pos + 1, sorted(ws)), sb[0].where)
    getters = (("body_len", 4), ("serial_num", 5), ("flags", 2), ("msg_type", 1), ("endian_sig", 0), ("protocol_version", 3))
    for g, pos in getters:
        gb = f.find(name=g, adt=PH, trait="")
        if not gb:
            continue
        rd = fl.field_reads(gb[0], PH)
        ctx.ob("LAYOUT", "primary:role:%s()" % g, pos < len(flds) and rd == {flds[pos][0]}, "%s() reads member #%d (%s)" % (g, pos + 1, sorted(rd)), gb[0].where)
    tv = {norm(k): v for k, v in spec["primary_header"][1]["values"].items()}
    ta = f.adts.get(MTYPE)
    got = {norm(v["name"]): int(v["discr"]) for v in ta["variants"]}
    ctx.ob("LAYOUT", "type-codes", got == tv, "message type codes %s" % got, "%s:%s" % (ta["file"], ta["line"]))
    fa = f.adts.get(FLAGS)
    gotf = sorted(int(v["discr"]) for v in fa["variants"])
    ctx.ob("LAYOUT", "flag-bits", gotf == sorted(spec["primary_header"][2]["values"].values()), "flag bits %s" % gotf, "%s:%s" % (fa["file"], fa["line"]))
    fnames = {norm(v["name"]): int(v["discr"]) for v in fa["variants"]}
    for k, v in spec["primary_header"][2]["values"].items():
        hit = [n for n in fnames if norm(k).startswith(n) or n.startswith(norm(k))]
        ctx.ob("LAYOUT", "flag:%s" % k, len(hit) == 1 and fnames[hit[0]] == v, "flag %s = %s" % (k, fnames.get(hit[0]) if hit else None), "%s:%s" % (fa["file"], fa["line"]))
    new = ctx.one(f.find(name="new", adt=PH, trait=""), "PrimaryHeader::new")
    for b, i, rv, ln in fl.adt_aggregates(new, PH):
        op = fl.agg_field(rv, flds[3][0]) if len(flds) > 3 else None
        k = mir.resolve_const(new, op) if op else None
        ctx.ob("LAYOUT", "protocol-version-1", k is not None and k.get("v") == spec["primary_header"][3]["values"]["current"],
               "new messages carry protocol version %s" % (k.get("v") if k else "?"), "%s:%d" % (new.file, ln))
    ha = f.adts.get(HDR)
    hf = [(x[0], x[1]) for x in ha["variants"][0]["fields"]]
    ctx.ob("LAYOUT", "header:primary-then-fields", len(hf) == 2 and hf[0][1] == PH and hf[1][1].startswith(FIELDS),
           "Header members: %s" % hf, "%s:%s" % (ha["file"], ha["line"]))


def run(ctx):
    ctx.explanation = (
        "Static rules over MIR of zbus (K1). The header-field table (code ↔ struct field ↔ D-Bus type) is extracted from the "
        "writer (<Fields as Serialize>), from the reader (FieldsVisitor::visit_seq, following each TryFrom<Value> into its match on "
        "the Value variant) and compared row by row with the specification's table and with each other; FieldCode's discriminants "
        "and its integer decoder are compared with the same table. Builder::build_generic and Message::from_raw_parts are shown to "
        "store x + padding_for_8_bytes(x) as the body offset for x = the measured size of the written header resp. 16 + fields_len; "
        "dominance gives header → padding → body into the one buffer that is kept, the size check before allocation, body_len / "
        "unix_fds / signature wired to the size pass of the same value, one endianness context throughout; the cached-field accessors "
        "are wired name to name; EndianSig/Endian/Type/Flags/PrimaryHeader layout equal the spec's fixed header.")
    ctx.not_decided = ("byte equality and all arithmetic (that the measured sizes equal the written lengths); constants in promoted rvalues "
                       "(the zero padding array, the 'g' signature of the SIGNATURE variant); zvariant's encoding (C01) and serde derive internals.")
    ctx.trusted.append("/verif/spec/header_fields.json (transcribed from the D-Bus specification)")
    f = ctx.facts("K1")
    spec = load_spec()
    by_discr = t_codes(ctx, f, spec)
    wt = writer_table(ctx, f, spec, by_discr)
    rt = reader_table(ctx, f, spec, by_discr)
    for code in sorted(set(wt) | set(rt), key=str):
        ctx.ob("T-FIELDS-R", "sibling:%s" % code, wt.get(code) == rt.get(code) and wt.get(code) is not None,
               "writer row %s, reader row %s" % (wt.get(code), rt.get(code)), "zbus/src/message/fields.rs")
    t_sig(ctx, f)
    q_fields(ctx, f)
    builder_rules(ctx, f, spec)
    builder_ctor_rules(ctx, f)
    fieldpos_width(ctx, f)
    parser_rules(ctx, f, spec)
    endian_rules(ctx, f, spec)
    layout_rules(ctx, f, spec)
