"""C02 — Encoding then decoding returns the original value (DESIGN §5.C02).

Necessary condition decided here: the writer and the reader agree on the layout, the `signature` cursor that both
engines swap while descending is put back, and the consumed length that is reported is the decoder's final position.
Nothing is compared with the specification here (that is C01/C05): only sibling against sibling.

  SIB-1   for each of the 11 basic serde methods (+ the Fd arm of i32): the D-Bus reader consumes as many bytes as the writer
          writes, with the same alignment and the same value class (`read_<T>` vs `write_<T>`); `next_const_size_slice::<T>`
          pads and consumes `<T as Basic>::alignment` bytes and the `read_<T>` applied to it has exactly that width;
          the GVariant basic methods on both sides delegate to D-Bus methods with identical layout, hand the byte count
          back (`bytes_written = sub.bytes_written` / `pos += sub.pos`) and start the sub-decoder at pos 0 (K2)
  SIB-2   strings: per signature kind the reader's length-prefix width equals the writer's (4 for s/o, 1 for g/v), kinds
          without a prefix are rejected on both sides, the reader takes `len` payload bytes and then skips exactly the one
          terminator byte the writer emits
  SIB-3   padding points mirror: array header (pad 4 + u32 length), first-element padding (same per-arm table
          Array->child alignment / Dict->8, unconditional on both sides), per-entry padding (reader pads every element with the
          stored element alignment whose Dict row equals the writer's `serialize_key` padding), struct padding
          (`signature.alignment` before the match on both sides; 8 in `StructureDeserializer::new`/`enum_variant`),
          string padding (reader pads exactly the kinds whose D-Bus alignment is > 1, to that alignment), and the reader's
          set of `parse_padding` sites equals the confirmed table
  SIB-4   signature save/restore: every store to `SerializerCommon.signature` / `DeserializerCommon.signature` in the four
          engines is a restore (from a saved copy / `array_signature` / `key_signature`), a copy-back from a sub-decoder,
          a swap that is followed by a restore on every success path, or the store of an opener whose saved signature
          goes into the returned access object and whose closer restores from it; `mem::swap` pairs likewise; the
          D-Bus array reader calls `end()` (the closer) before it reports the end of the array
  POS     every sub-decoder the D-Bus reader builds (struct field, variant value) starts either at the parent's pos on the
          parent's bytes and hands its pos back by `=`, or at 0 on a sub-slice and hands it back by `+=`, on every success path
  LEN     `Data::deserialize_for_signature` / `deserialize_with_seed` return `(value, de.0.pos)` of the decoder that was
          driven, per format arm; each format arm builds that format's decoder and wraps it in the matching variant;
          `Data::deserialize` / `deserialize_for_dynamic_signature` return those functions' results

Not decided: equality of values; arithmetic of offsets inside the GVariant containers (C05); symmetric errors (C01).
Clause dropped: none of the design's clauses; SIB-3 "variant signature" is covered through SIB-2 (the variant's signature
is written/read by the string methods under Signature::Variant / Signature::Signature) — the arithmetic of
`value_start` in `ValueDeserializer` is not decided.
"""
from .. import mir
from .. import lib_codec as lc

META = {
    "technique": "sibling table comparison writer vs reader over MIR, save/restore pairing on the signature field",
    "level": ("Static sibling rules over the MIR of zvariant's four engines (K1 D-Bus, K2 adds GVariant): the reader's widths, "
              "alignments and padding points equal the writer's, every swap of the signature cursor is restored on all "
              "success paths, and the reported consumed length is the driven decoder's final position. Value equality, "
              "offset arithmetic and errors made symmetrically on both sides are not decided."),
}



def canon(x):
    """order-independent text of a source description (sets are printed sorted: their repr() order depends on the hash seed)"""
    if isinstance(x, (set, frozenset)):
        return "{" + ", ".join(sorted(canon(e) for e in x)) + "}"
    if isinstance(x, tuple):
        return "(" + ", ".join(canon(e) for e in x) + ")"
    if isinstance(x, list):
        return "[" + ", ".join(canon(e) for e in x) + "]"
    return repr(x)

def K(body, inst):
    return "%s:%s" % (lc.short(body), inst)


BASIC_METHODS = ["bool", "i8", "i16", "i32", "i64", "u8", "u16", "u32", "u64", "f32", "f64"]


# ============================================================================================ layout summaries
def spec_align(f, spec, ty):
    code = lc.basic_code(f, ty) if ty else None
    row = spec["by_code"].get(code)
    return row["align"] if row else None


def ser_layout(ctx, f, spec, m, depth=0):
    """{arm: (align, width, class)} of the D-Bus writer method serialize_<m> ('' = no signature arm, 'Fd')"""
    body = lc.method(ctx, f, lc.DBUS_SER, lc.SER_TRAIT, "serialize_" + m)
    out = {}
    for c in mir.calls(body):
        wk = lc.write_kind(c)
        if not wk or wk[0] != "bytes":
            continue
        arm = lc.arm_of(body, f, c.b)
        key = "Fd" if arm and "Fd" in arm else ""
        w = lc.width_of(wk[1])
        # the padding that precedes it
        al = None
        for p in mir.calls(body):
            if not lc.always_preceded(body, c.b, {p.b}) and p.b != c.b:
                continue
            if p.is_("prep_serialize_basic"):
                al = spec_align(f, spec, lc.generic_of(p, "prep_serialize_basic"))
            elif p.callee.endswith("::add_padding") and len(p.args) == 2 and mir.block_dominates(body, p.b, c.b):
                s = lc.canon_align(f, spec, lc.align_source(f, body, p.args[1]))
                al = s[1] if s[0] == "const" else None
        out[key] = (al, w[0] if w else None, "float" if w and w[1] == "float" else "int")
    return body, out


def de_layout(ctx, f, spec, m, depth=0):
    """{arm: (align, consumed width, class)} of the D-Bus reader method deserialize_<m> (follows `self.deserialize_<x>`)"""
    body = lc.method(ctx, f, lc.DBUS_DE, lc.DE_TRAIT, "deserialize_" + m)
    fwd = [c for c in mir.calls(body) if c.callee.startswith("<&mut " + lc.DBUS_DE) and "::deserialize_" in c.callee and
           c.callee.rsplit("::deserialize_", 1)[1] in BASIC_METHODS]
    if fwd and depth < 2 and not [c for c in mir.calls(body) if c.is_("next_const_size_slice", "next_slice")]:
        tgt = fwd[0].callee.rsplit("::deserialize_", 1)[1]
        ok = lc.returns_call(body, fwd[0]) and lc.self_path(body, fwd[0].args[0]) == []
        b2, lay, _via = de_layout(ctx, f, spec, tgt, depth + 1)
        return body, (lay if ok else {}), "deserialize_" + tgt
    out = {}
    reads = [c for c in mir.calls(body) if lc.read_kind(c)]
    for c in mir.calls(body):
        if c.is_("next_const_size_slice"):
            ty = lc.generic_of(c, "next_const_size_slice")
            al = spec_align(f, spec, ty)
            rd = [r for r in reads if _feeds(body, c, r)]
            cls, w = "int", al
            if rd:
                ww = lc.width_of(lc.read_kind(rd[0]))
                cls = "float" if ww and ww[1] == "float" else "int"
                w = al if ww and ww[0] == al else ("read width %s != consumed %s" % (ww and ww[0], al))
            arm = lc.arm_of(body, f, c.b)
            out["Fd" if arm and "Fd" in arm else ""] = (al, w, cls)
        elif c.is_("next_slice") and lc.DE_COMMON in c.callee:
            arm = lc.arm_of(body, f, c.b)
            key = "Fd" if arm and "Fd" in arm else ""
            n = lc.canon_align(f, spec, lc.align_source(f, body, c.args[1]))
            pads = [p for p in mir.calls(body) if p.is_("parse_padding") and mir.block_dominates(body, p.b, c.b)]
            al = None
            if pads:
                s = lc.canon_align(f, spec, lc.align_source(f, body, pads[-1].args[1]))
                al = s[1] if s[0] == "const" else None
            rd = [r for r in reads if _feeds(body, c, r)]
            w = n[1] if n[0] == "const" else None
            cls = "int"
            if rd:
                ww = lc.width_of(lc.read_kind(rd[0]))
                cls = "float" if ww and ww[1] == "float" else "int"
                if not (ww and ww[0] == w):
                    w = "read width %s != consumed %s" % (ww and ww[0], w)
            out[key] = (al, w, cls)
    return body, out, None


def _feeds(body, src_call, dst_call):
    """the result of src_call (through `?`) is an argument of dst_call"""
    for a in dst_call.args:
        vs = lc.value_source(body, a)
        if vs[0] == "call" and vs[1].b == src_call.b:
            return True
    return False


def sib1(ctx, f, spec, tag=""):
    n = 0
    lays = {}
    for m in BASIC_METHODS:
        sb, sl = ser_layout(ctx, f, spec, m)
        r = de_layout(ctx, f, spec, m)
        db, dl, via = r
        lays[m] = (sl, dl)
        for arm in sorted(set(sl) | set(dl)):
            n += 1
            a, b = sl.get(arm), dl.get(arm)
            ok = a is not None and b is not None and a == b and None not in a
            ctx.ob("SIB-1", tag + "dbus:%s%s" % (m, ":" + arm if arm else ""), ok,
                   "writer (align, width, class) = %s; reader%s = %s" % (a, " via " + via if via else "", b), db.where)
    ctx.floor("SIB-1", tag + "basic writer/reader pairs", n, 12)
    # next_const_size_slice::<T>: pad to T::alignment and take T::alignment bytes
    ncs = ctx.one(f.find(name="next_const_size_slice", adt=lc.DE_COMMON, trait=""), "DeserializerCommon::next_const_size_slice")
    prep = [c for c in mir.calls(ncs) if c.is_("prep_deserialize_basic")]
    nxt = [c for c in mir.calls(ncs) if c.is_("next_slice")]
    ok = len(prep) == 1 and len(nxt) == 1 and lc.generic_of(prep[0], "prep_deserialize_basic") == "T" and \
        lc.align_source(f, ncs, nxt[0].args[1]) == ("basic", "T") and lc.always_preceded(ncs, nxt[0].b, {prep[0].b}) and \
        lc.returns_call(ncs, nxt[0]) and lc.self_path(ncs, nxt[0].args[0]) == [] and lc.self_path(ncs, prep[0].args[0]) == []
    ctx.ob("SIB-1", tag + K(ncs, "pad-then-take-alignment-bytes"), ok,
           "next_const_size_slice::<T> = prep_deserialize_basic::<T>; next_slice(<T as Basic>::alignment(format))", ncs.where)
    pdb = ctx.one(f.find(name="prep_deserialize_basic", adt=lc.DE_COMMON, trait=""), "DeserializerCommon::prep_deserialize_basic")
    pp = [c for c in mir.calls(pdb) if c.is_("parse_padding")]
    ok = len(pp) == 1 and lc.align_source(f, pdb, pp[0].args[1]) == ("basic", "T") and lc.self_path(pdb, pp[0].args[0]) == [] and \
        not lc.ok_exits_from(pdb, [0], avoid={pp[0].b})
    ctx.ob("SIB-1", tag + K(pdb, "pads-to-T::alignment"), ok, "prep_deserialize_basic::<T> = parse_padding(<T as Basic>::alignment(format))", pdb.where)
    return lays


def delegate_target(ctx, f, adt, trait, prefix, m, other_adt, depth=0):
    """follow `serialize_<m>` of the GVariant engine to the D-Bus method it ends in: (dbus method name, body, call)"""
    body = lc.method(ctx, f, adt, trait, prefix + m)
    for c in mir.calls(body):
        cal = c.callee
        if "::" + prefix in cal and cal.rsplit("::" + prefix, 1)[1] in BASIC_METHODS:
            tgt = cal.rsplit("::" + prefix, 1)[1]
            if cal.startswith("<&mut " + other_adt) or cal.startswith("<&'b mut " + other_adt) or ("mut " + other_adt) in cal.split(" as ")[0]:
                return tgt, body, c
            if depth < 2 and (("mut " + adt) in cal.split(" as ")[0]):
                t2, b2, c2 = delegate_target(ctx, f, adt, trait, prefix, tgt, other_adt, depth + 1)
                if not lc.returns_call(body, c):
                    return None, body, c
                return t2, body, c
    return None, body, None


def sib1_gv(ctx, f, spec, lays):
    n = 0
    for m in BASIC_METHODS:
        st, sb, sc = delegate_target(ctx, f, lc.GV_SER, lc.SER_TRAIT, "serialize_", m, lc.DBUS_SER)
        dt, db, dc = delegate_target(ctx, f, lc.GV_DE, lc.DE_TRAIT, "deserialize_", m, lc.DBUS_DE)
        n += 2
        ok = st is not None and dt is not None
        a = lays.get(st, ({}, {}))[0] if st else None
        b = lays.get(dt, ({}, {}))[1] if dt else None
        ctx.ob("SIB-1", "gvariant:%s:delegates-with-same-layout" % m, ok and a == b and bool(a),
               "GVariant writer -> dbus serialize_%s %s; reader -> dbus deserialize_%s %s" % (st, a, dt, b), sb.where)
        # hand-over of the byte count (only in the bodies that construct the sub-engine themselves)
        for body, call, fld, kind in ((sb, sc, "bytes_written", "ser"), (db, dc, "pos", "de")):
            if call is None:
                continue
            owner = lc.SER_COMMON if kind == "ser" else lc.DE_COMMON
            aggs = [(bi, rv) for bi, i, pl, rv, ln in mir.assignments(body) if rv[0] == "agg" and rv[1] == "adt" and rv[2] == owner]
            if not aggs:
                continue  # pure forwarding (serialize_i8 -> self.serialize_i16)
            stores = lc.field_writes(body, fld, owner)
            after = [s for s in stores if lc.always_preceded(body, s[0], {call.b})]
            okh = bool(after) and lc.always_followed(body, call.b, {s[0] for s in after})
            det = ""
            if okh and kind == "ser":
                okh = all(s[3][0] == "use" and lc.reads_field(body, s[3][1], "bytes_written") for s in after)
                rv = aggs[0][1]
                op = rv[4][rv[5].index("bytes_written")]
                okh = okh and lc.reads_field(body, op, "bytes_written")
                det = "sub-serializer starts at self.0.bytes_written and its bytes_written is copied back"
            elif okh:
                # self.0.pos = self.0.pos + sub.0.pos ; sub starts at pos 0
                s = after[0]
                src = mir.op_place(s[3][1]) if s[3][0] == "use" else None
                sd = mir.single_def(body, src[0]) if src else None
                okh = bool(sd and sd[0] == "assign" and sd[4][0] == "bin" and sd[4][1] in ("Add", "AddWithOverflow") and
                           lc.reads_field(body, sd[4][2], "pos") and lc.reads_field(body, sd[4][3], "pos"))
                rv = aggs[0][1]
                k = mir.resolve_const(body, rv[4][rv[5].index("pos")])
                okh = okh and k is not None and k.get("v") == 0
                det = "sub-decoder starts at pos 0 on the remaining bytes and self.0.pos += sub.0.pos"
            ctx.ob("SIB-1", "gvariant:%s:%s-count-handed-back" % (m, kind), okh, det or "byte count of the delegated call is handed back", body.where)
    ctx.floor("SIB-1", "GVariant basic methods checked for delegation", n, 20)


# ============================================================================================ SIB-2 strings
def sib2(ctx, f, spec):
    w = lc.method(ctx, f, lc.DBUS_SER, lc.SER_TRAIT, "serialize_str")
    r = lc.method(ctx, f, lc.DBUS_DE, lc.DE_TRAIT, "deserialize_str")
    wt, rt = {}, {}
    for c in mir.calls(w):
        wk = lc.write_kind(c)
        if wk and wk[0] == "bytes":
            for v in (lc.arm_of(w, f, c.b) or ["<none>"]):
                wt[v] = lc.width_of(wk[1])[0]
    slices = [c for c in mir.calls(r) if c.is_("next_slice") and lc.DE_COMMON in c.callee]
    payload = []
    term_reads = []   # constant-length reads outside the prefix arms: the terminator, when it is read rather than skipped
    for c in slices:
        arm = lc.arm_of(r, f, c.b)
        if arm is None or arm == frozenset(["otherwise"]):
            kk = mir.resolve_const(r, c.args[1])
            if kk is not None and isinstance(kk.get("v"), int):
                term_reads.append((c, kk["v"]))
            else:
                payload.append(c)
            continue
        n = lc.canon_align(f, spec, lc.align_source(f, r, c.args[1]))
        for v in arm:
            rt[v] = n[1] if n[0] == "const" else None
            # when a read_<T> interprets the prefix its width must be the consumed width
            rd = [x for x in mir.calls(r) if lc.read_kind(x) and _feeds(r, c, x)]
            if rd and lc.width_of(lc.read_kind(rd[0]))[0] != rt[v]:
                rt[v] = "consumed %s but read with %s" % (rt[v], lc.read_kind(rd[0]))
    kinds = sorted((set(wt) | set(rt)) - {"otherwise"})
    ctx.floor("SIB-2", "string kinds with a length prefix", len(kinds), 4)
    for v in kinds:
        ctx.ob("SIB-2", "prefix-width:" + v, v in wt and v in rt and wt[v] == rt[v],
               "signature %s: writer prefix %s byte(s), reader prefix %s byte(s)" % (v, wt.get(v), rt.get(v)), r.where)
    # both sides reject every other kind
    for body, side in ((w, "writer"), (r, "reader")):
        sws = [s for s in mir.discr_switches(body, f, None) if s[2] == lc.SIG and len(s[3]) >= 2]
        ok = bool(sws)
        for sb, place, adt, arms, other in sws:
            ok = ok and not lc.ok_exits_from(body, [other], avoid=set(arms.values()) - {other})
        ctx.ob("SIB-2", "other-kinds-rejected:" + side, ok, "%s: a signature without string layout leads to an error return" % side, body.where)
    # payload: next_slice(len) with len from the prefix; then pos += 1
    ok = len(payload) == 1
    ctx.ob("SIB-2", K(r, "one-payload-slice"), ok, "%d payload next_slice call(s) after the prefix arms" % len(payload), r.where)
    if ok:
        p = payload[0]
        pre = {c.b for c in slices if c is not p and all(c is not t[0] for t in term_reads)}
        ctx.ob("SIB-2", K(r, "prefix-before-payload"), lc.always_preceded(r, p.b, pre), "the payload is taken after a prefix was read", p.where)
        ll = mir.root_local(r, p.args[1])
        defs = mir.defs_of(r, ll)
        lens = mir.derives(r, {c.dest[0] for c in slices if c is not p and all(c is not t[0] for t in term_reads)})
        ctx.ob("SIB-2", K(r, "payload-length-is-prefix"), bool(defs) and ll in lens,
               "payload length derives from the prefix bytes", p.where)
        incs = []
        for s in lc.field_writes(r, "pos", lc.DE_COMMON):
            src = mir.op_place(s[3][1]) if s[3][0] == "use" else None
            sd = mir.single_def(r, src[0]) if src else None
            if sd and sd[0] == "assign" and sd[4][0] == "bin" and sd[4][1] in ("Add", "AddWithOverflow"):
                k = mir.resolve_const(r, sd[4][3]) or mir.resolve_const(r, sd[4][2])
                incs.append((s[0], k.get("v") if k else None))
        term_w = [c for c in mir.calls(w) if lc.write_kind(c) == ("io", "write_all") and lc.const_bytes(w, c.args[1]) is not None]
        nterm = sum(len(lc.const_bytes(w, c.args[1])) for c in term_w)
        # the terminator is consumed either by `pos += k` or by reading k bytes (next_slice(k)) after the payload
        consumed = [(b, k) for b, k in incs] + [(c.b, k) for c, k in term_reads]
        ok = len(consumed) == 1 and consumed[0][1] == nterm and lc.always_followed(r, p.b, {consumed[0][0]}) and \
            lc.always_preceded(r, consumed[0][0], {p.b})
        ctx.ob("SIB-2", K(r, "terminator-skip"), ok,
               "reader consumes %s byte(s) after the payload on every success path; writer emits %d terminator byte(s)" % (
                   [i[1] for i in consumed], nterm), r.where)


# ============================================================================================ SIB-3 padding points
def pads_in(f, spec, body, name):
    out = []
    for c in mir.calls(body):
        if c.is_(name) and len(c.args) == 2 and (lc.SER_COMMON in c.callee or lc.DE_COMMON in c.callee):
            out.append((lc.canon_align(f, spec, lc.align_source(f, body, c.args[1])), c))
    return out


def field_source(f, spec, ctor_body, adt_suffix, field):
    """alignment source of the operand stored in `field` by the aggregate of `adt` built in ctor_body"""
    for bi, i, pl, rv, ln in mir.assignments(ctor_body):
        if rv[0] == "agg" and rv[1] == "adt" and str(rv[2]).endswith(adt_suffix) and field in (rv[5] or []):
            return lc.canon_align(f, spec, lc.align_source(f, ctor_body, rv[4][rv[5].index(field)]))
    return None


def sib3(ctx, f, spec):
    AD = "zvariant::dbus::de::ArrayDeserializer"
    seq = lc.method(ctx, f, lc.DBUS_SER, lc.SER_TRAIT, "serialize_seq")
    new = ctx.one(f.find(name="new", adt=AD, trait=""), "dbus ArrayDeserializer::new")
    wp = pads_in(f, spec, seq, "add_padding")
    rp = pads_in(f, spec, new, "parse_padding")
    wsrc = sorted(repr(s) for s, c in wp)
    rsrc = sorted(repr(s) for s, c in rp)
    ctx.ob("SIB-3", "array:same-padding-sources", wsrc == rsrc and len(wp) == 2,
           "serialize_seq pads %s; ArrayDeserializer::new pads %s" % (wsrc, rsrc), new.where)
    whdr = [c for s, c in wp if s[0] == "const"]
    rhdr = [c for s, c in rp if s[0] == "const"]
    welem = [c for s, c in wp if s[0] == "table"]
    relem = [c for s, c in rp if s[0] == "table"]
    if len(whdr) == 1 and len(rhdr) == 1 and len(welem) == 1 and len(relem) == 1:
        wlen = [c for c in mir.calls(seq) if lc.write_kind(c)]
        rlen = [c for c in mir.calls(new) if c.is_("next_slice") and lc.DE_COMMON in c.callee]
        rread = [c for c in mir.calls(new) if lc.read_kind(c)]
        ok = len(wlen) == 1 and len(rlen) == 1 and len(rread) == 1
        if ok:
            ww = lc.width_of(lc.write_kind(wlen[0])[1])
            n = lc.canon_align(f, spec, lc.align_source(f, new, rlen[0].args[1]))
            rw = lc.width_of(lc.read_kind(rread[0]))
            ok = n == ("const", ww[0]) and rw[0] == ww[0] and _feeds(new, rlen[0], rread[0])
            ctx.ob("SIB-3", "array:length-width", ok, "writer length %s byte(s); reader takes %s and reads %s" % (
                ww[0], n, lc.read_kind(rread[0])), rlen[0].where)
            ctx.ob("SIB-3", "array:order:writer", lc.always_preceded(seq, wlen[0].b, {whdr[0].b}) and
                   lc.always_preceded(seq, welem[0].b, {wlen[0].b}), "writer: pad(4) -> length -> pad(element)", seq.where)
            ctx.ob("SIB-3", "array:order:reader", lc.always_preceded(new, rlen[0].b, {rhdr[0].b}) and
                   lc.always_preceded(new, relem[0].b, {rlen[0].b}), "reader: pad(4) -> length -> pad(element)", new.where)
        for body, e, side in ((seq, welem[0], "writer"), (new, relem[0], "reader")):
            oks = lc.ok_returns(body)
            ctx.ob("SIB-3", "array:first-element-padding-unconditional:" + side,
                   bool(oks) and all(lc.always_preceded(body, b, {e.b}) for b, rv in oks),
                   "%s pads for the first element on every success path (empty arrays too)" % side, e.where)
        # reader: start of the data is taken after the element padding
        st = None
        for bi, i, pl, rv, ln in mir.assignments(new):
            if rv[0] == "agg" and rv[1] == "adt" and str(rv[2]).endswith("ArrayDeserializer") and "start" in (rv[5] or []):
                st = rv[4][rv[5].index("start")]
        okst = st is not None and lc.reads_field(new, st, "pos")
        if okst:
            ds = [d for d in mir.defs_of(new, mir.root_local(new, st)) if d[0] == "assign"]
            okst = len(ds) == 1 and lc.always_preceded(new, ds[0][1], {relem[0].b})
        ctx.ob("SIB-3", "array:reader-start-after-element-padding", okst, "ArrayDeserializer.start = pos read after the element padding", new.where)
    # per-entry padding
    key = lc.method(ctx, f, "zvariant::dbus::ser::MapSerializer", "serde_core::ser::SerializeMap", "serialize_key")
    ne = ctx.one(f.find(name="next_element", adt=AD, trait=""), "dbus ArrayDeserializer::next_element")
    kp = pads_in(f, spec, key, "add_padding")
    np_ = pads_in(f, spec, ne, "parse_padding")
    ok = len(kp) == 1 and len(np_) == 1 and np_[0][0] == ("field", ("element_alignment",))
    stored = field_source(f, spec, new, "ArrayDeserializer", "element_alignment")
    dict_row = None
    if stored and stored[0] == "table":
        for arms, src in stored[1]:
            if arms == ("Dict",):
                dict_row = src
    ctx.ob("SIB-3", "dict-entry:reader-pads-each-entry-like-writer", ok and dict_row is not None and kp and dict_row == kp[0][0] and
           stored == lc.canon_align(f, spec, lc.ELEM_TABLE),
           "serialize_key pads %s; next_element pads %s = stored %s" % ([s for s, c in kp], [s for s, c in np_], stored), ne.where)
    if len(np_) == 1:
        nx = [c for c in mir.calls(ne) if c.callee.endswith("ArrayDeserializer::<'d, 'de, 'sig, 'f, F>::next")]
        ctx.ob("SIB-3", "dict-entry:padding-before-element", bool(nx) and all(lc.always_preceded(ne, c.b, {np_[0][1].b}) for c in nx) and
               lc.self_path(ne, np_[0][1].args[0]) == ["de", "0"],
               "every element/key is decoded only after the per-entry padding was parsed", np_[0][1].where)
    nk = lc.method(ctx, f, "zvariant::dbus::de::ArrayMapDeserializer", "serde_core::de::MapAccess", "next_key_seed")
    ctx.ob("SIB-3", "dict-entry:next_key_seed-goes-through-next_element",
           any(c.callee.endswith("::next_element") and lc.returns_call(nk, c) for c in mir.calls(nk)) and
           not [c for c in mir.calls(nk) if c.callee.endswith("::next") or c.c.get("fn", "").endswith("DeserializeSeed::deserialize")],
           "dict keys are read through ArrayDeserializer::next_element (which pads)", nk.where)
    if len(kp) == 1:
        sers = [c for c in mir.calls(key) if c.c.get("fn") == "serde_core::ser::Serialize::serialize"]
        ctx.ob("SIB-3", "dict-entry:writer-padding-before-key", bool(sers) and all(lc.always_preceded(key, c.b, {kp[0][1].b}) for c in sers),
               "writer pads before serializing the key", key.where)
    # struct padding
    sst = lc.method(ctx, f, lc.DBUS_SER, lc.SER_TRAIT, "serialize_struct")
    dsq = lc.method(ctx, f, lc.DBUS_DE, lc.DE_TRAIT, "deserialize_seq")
    for body, name, side in ((sst, "add_padding", "writer"), (dsq, "parse_padding", "reader")):
        ps = pads_in(f, spec, body, name)
        sws = [s[0] for s in mir.discr_switches(body, f, None) if s[2] == lc.SIG]
        ok = len(ps) == 1 and ps[0][0] == lc.SIGSELF and bool(sws) and all(lc.always_preceded(body, sb, {ps[0][1].b}) for sb in sws)
        if ok:
            o = mir.origin(body, ps[0][1].args[1])
            ok = o[0] == "call" and lc.self_path(body, o[1].args[0]) == ["0", "signature"]
        ctx.ob("SIB-3", "struct:%s-pads-signature-alignment-before-dispatch" % side, ok,
               "%s pads to self.0.signature's alignment before matching on the signature" % side, body.where)
    sdn = ctx.one(f.find(name="new", adt="zvariant::dbus::de::StructureDeserializer", trait=""), "dbus StructureDeserializer::new")
    ev = ctx.one(f.find(name="enum_variant", adt="zvariant::dbus::ser::StructSerializer", trait=""), "dbus StructSerializer::enum_variant")
    a = sorted({repr(s) for s, c in pads_in(f, spec, sdn, "parse_padding")})
    b = sorted({repr(s) for s, c in pads_in(f, spec, ev, "add_padding")})
    ctx.ob("SIB-3", "struct:explicit-struct-alignment-equal", a == b and len(a) == 1 and a[0].startswith("('const'"),
           "StructureDeserializer::new pads %s; enum_variant pads %s" % (a, b), sdn.where)
    oks = lc.ok_returns(sdn)
    pp = [c for s, c in pads_in(f, spec, sdn, "parse_padding")]
    ctx.ob("SIB-3", "struct:reader-padding-unconditional", bool(pp) and bool(oks) and all(lc.always_preceded(sdn, bb, {pp[0].b}) for bb, rv in oks),
           "StructureDeserializer::new always parses the struct padding", sdn.where)
    # strings: reader pads exactly the kinds whose D-Bus alignment exceeds 1, to that alignment (writer pads signature.alignment)
    table = lc.alignment_table(ctx, f)
    w = lc.method(ctx, f, lc.DBUS_SER, lc.SER_TRAIT, "serialize_str")
    r = lc.method(ctx, f, lc.DBUS_DE, lc.DE_TRAIT, "deserialize_str")
    wps = pads_in(f, spec, w, "add_padding")
    okw = len(wps) == 1 and wps[0][0] == lc.SIGSELF and all(lc.always_preceded(w, c.b, {wps[0][1].b}) for c in mir.calls(w) if lc.write_kind(c))
    ctx.ob("SIB-3", "string:writer-pads-signature-alignment", okw, "serialize_str pads to the current signature's alignment first", w.where)
    rpad = {}
    for s, c in pads_in(f, spec, r, "parse_padding"):
        for v in (lc.arm_of(r, f, c.b) or ["<all>"]):
            rpad[v] = s[1] if s[0] == "const" else s
    sws = [s for s in mir.discr_switches(r, f, None) if s[2] == lc.SIG and len(s[3]) >= 2]
    kinds = set()
    for s in sws:
        kinds |= set(s[3])
    for v in sorted(kinds):
        want = table.get(v)
        got = rpad.get(v, rpad.get("<all>", 1))
        ctx.ob("SIB-3", "string:reader-padding:" + v, want is not None and got == want,
               "reader pads %s to %s; writer pads to alignment_dbus(%s) = %s" % (v, got, v, want), r.where)
    ctx.floor("SIB-3", "string kinds compared for padding", len(kinds), 4)
    # the reader's parse_padding sites are the confirmed ones
    expect = {
        "deserialize_i32": [("const", 4)], "deserialize_str": [("const", 4)], "deserialize_seq": [lc.SIGSELF],
        "deserialize_enum": [lc.SIGSELF], "new": None, "next_element": [("field", ("element_alignment",))],
    }
    got = {}
    for b_ in f.all_bodies("zvariant"):
        if b_.file != "zvariant/src/dbus/de.rs":
            continue
        for s, c in pads_in(f, spec, b_, "parse_padding"):
            got.setdefault((b_.name, b_.d.get("impl_adt")), []).append((s, c))
    exp_full = {
        ("deserialize_i32", lc.DBUS_DE): [("const", 4)],
        ("deserialize_str", lc.DBUS_DE): [("const", 4)],
        ("deserialize_seq", lc.DBUS_DE): [lc.SIGSELF],
        ("deserialize_enum", lc.DBUS_DE): [lc.SIGSELF],
        ("new", AD): [("const", 4), lc.canon_align(f, spec, lc.ELEM_TABLE)],
        ("next_element", AD): [("field", ("element_alignment",))],
        ("new", "zvariant::dbus::de::StructureDeserializer"): [("const", 8)],
    }
    for k, exp in exp_full.items():
        g = sorted(canon(s) for s, c in got.get(k, []))
        e = sorted(canon(s) for s in exp)
        where = got[k][0][1].where if k in got else "zvariant/src/dbus/de.rs"
        ctx.ob("SIB-3", "reader-site:%s::%s" % (k[1].rsplit("::", 1)[1], k[0]), g == e, "parse_padding sources %s; confirmed %s" % (g, e), where)
    for k in got:
        if k not in exp_full:
            ctx.ob("SIB-3", "reader-site:%s::%s" % (str(k[1]).rsplit("::", 1)[1], k[0]), False,
                   "parse_padding site outside the confirmed table: %s" % [canon(s) for s, c in got[k]], got[k][0][1].where)


# ============================================================================================ SIB-4 signature save/restore
RESTORE_FIELDS = ("array_signature", "key_signature")


def root_is_self(body, l, depth=0):
    if l == 1:
        return True
    if depth > 4 or 0 < l <= body.d["argc"]:
        return False
    ds = [d for d in mir.defs_of(body, l) if d[0] == "assign" and not d[3][1]]
    if len(ds) != 1:
        return False
    rv = ds[0][4]
    if rv[0] == "ref":
        return root_is_self(body, rv[2][0], depth + 1)
    if rv[0] == "use" and mir.op_place(rv[1]) is not None:
        return root_is_self(body, mir.op_place(rv[1])[0], depth + 1)
    return False


def load_kind(body, op, depth=0):
    """How the value of an operand was loaded, stopping at the first field read:
    ('restore-field', point) | ('self-signature', point) | ('other-signature', point) | None.
    point = (block, idx) of the assignment that performed the load into a local (None = read in place)."""
    pl = mir.op_place(op)
    if pl is None or depth > 6:
        return None
    fs = lc.deref_fields(pl)
    if fs:
        lastp = [p for p in pl[1] if isinstance(p, list) and p[0] == "."][-1]
        owner, fty = lastp[3], lastp[4]
        if fs[-1] in RESTORE_FIELDS:
            return ("restore-field", None)
        if owner not in (lc.SER_COMMON, lc.DE_COMMON) and "signature::Signature" in fty and fty.lstrip().startswith("&") \
                and owner.startswith("zvariant::") and not owner.startswith("upvar:"):
            # a signature reference kept in an access/sub-serializer object (e.g. StructSerializer.signature)
            return ("restore-field", None)
        if fs[-1] == "signature":
            return ("self-signature" if root_is_self(body, pl[0]) else "other-signature", None)
        return None
    ds = [d for d in mir.defs_of(body, pl[0]) if d[0] == "assign" and not d[3][1]]
    if len(ds) != 1:
        return None
    rv = ds[0][4]
    k = None
    if rv[0] == "use":
        k = load_kind(body, rv[1], depth + 1)
    elif rv[0] == "ref":
        k = load_kind(body, ["c", rv[2]], depth + 1)
    if k is not None and k[1] is None:
        k = (k[0], (ds[0][1], ds[0][2]))
    return k


def classify_sig_store(body, s):
    """'restore' | 'copyback' | 'child' for a store (b, i, place, rv, line) to the signature cursor"""
    rv = s[3]
    if rv[0] != "use":
        return "child"
    k = load_kind(body, rv[1])
    if k is None:
        return "child"
    if k[0] == "restore-field":
        return "restore"
    if k[0] == "other-signature":
        return "copyback"
    if k[0] == "self-signature" and k[1] is not None and k[1] != (s[0], s[1]):
        return "restore"   # a copy of the cursor saved earlier in this function
    return "child"


def shared_cursor_sites(f, filename):
    """Calls in the array/dict access types of one engine file that hand the *parent* engine itself (a re-borrow of a
    self-rooted place, not a freshly built sub-engine) to the element's Serialize / DeserializeSeed: with such a site,
    whatever an element leaves in the signature cursor is what the next element starts from."""
    out = []
    for b in f.all_bodies("zvariant"):
        if b.file != filename:
            continue
        adt = (b.d.get("impl_adt") or "").rsplit("::", 1)[-1]
        if not any(x in adt for x in ("Seq", "Array", "Map")) or adt.startswith("StructSeq"):
            continue
        for c in mir.calls(b):
            fn = c.c.get("fn") or ""
            if fn not in ("serde_core::ser::Serialize::serialize", "serde_core::de::DeserializeSeed::deserialize"):
                continue
            pl = lc.place_of(b, c.args[-1])
            if pl is not None and root_is_self(b, pl[0]) and lc.deref_fields(pl):
                out.append(c)
    return out


def saved_by_constructor(f, b, s):
    """The store `s` in `b` is preceded (dominated) by a call to a constructor of the same impl ADT whose body builds
    that ADT with a field holding the cursor's previous value, and some method of the ADT restores the cursor from it."""
    adt = b.d.get("impl_adt")
    if not adt:
        return False
    for c in mir.calls(b):
        callee = f.bodies.get(c.callee)
        if callee is None or callee.d.get("impl_adt") != adt or not mir.dominates(b, c.point, (s[0], s[1])):
            continue
        for bi, i, pl, rv, ln in mir.assignments(callee):
            if rv[0] == "agg" and rv[1] == "adt" and rv[2] == adt:
                for fname, op in zip(rv[5] or [], rv[4]):
                    k2 = load_kind(callee, op)
                    if k2 is not None and k2[0] == "self-signature":
                        # a closer of the ADT restores from that field
                        for m in f.find(adt=adt):
                            for st in lc.field_writes(m, "signature"):
                                if st[2][1][-1][3] in (lc.SER_COMMON, lc.DE_COMMON) and st[3][0] == "use" and \
                                        lc.reads_field(m, st[3][1], fname) and classify_sig_store(m, st) == "restore":
                                    return True
    return False


def identifier_restored_by_enum(f, b):
    """deserialize_identifier leaves the payload signature in the cursor for the variant's content; zvariant decodes
    identifiers only as enum variant tags (struct fields are positional), i.e. inside `visit_enum` called by
    deserialize_enum of the same deserializer: accepted iff that function saves the cursor before visit_enum and
    restores it on every path after it."""
    adt = b.d.get("impl_adt")
    for m in f.find(name="deserialize_enum", adt=adt):
        if m.d.get("impl_trait") != b.d.get("impl_trait") or m.file != b.file:
            continue
        ve = [c for c in mir.calls(m) if c.is_("visit_enum")]
        if not ve:
            continue
        stores = [st for st in lc.field_writes(m, "signature") if st[2][1][-1][3] in (lc.SER_COMMON, lc.DE_COMMON)]
        for st in stores:
            if classify_sig_store(m, st) != "restore":
                continue
            k = load_kind(m, st[3][1])
            if k is None or k[1] is None:
                continue
            if all(mir.dominates(m, k[1], c.point) and lc.always_followed(m, c.b, {st[0]}) for c in ve):
                return True
    return False


def sib4(ctx, f, tag, crate_files, skip=()):
    n = 0
    judged = set()
    shared = {fn: shared_cursor_sites(f, fn) for fn in crate_files}
    openers = {}
    closers = {}
    for b in f.all_bodies("zvariant"):
        if b.file not in crate_files:
            continue
        stores = [s for s in lc.field_writes(b, "signature") if s[2][1][-1][3] in (lc.SER_COMMON, lc.DE_COMMON)]
        # mem::swap(&mut x.signature, ..)
        swaps = []
        for c in mir.calls(b):
            if c.callee.startswith("core::mem::swap"):
                for a in c.args:
                    p = lc.place_of(b, a)
                    if p is not None and lc.deref_fields(p)[-1:] == ["signature"] and p[0] == 1:
                        swaps.append(c)
        if not stores and not swaps:
            continue
        root = f.bodies.get(b.root, b)
        judged.add(root.id)
        if root.id in skip:
            n += len(stores) + len(swaps)
            continue
        kinds = [(classify_sig_store(b, s), s) for s in stores]
        restores = {s[0] for k, s in kinds if k in ("restore",)}
        for k, s in kinds:
            n += 1
            where = "%s:%d" % (b.file, s[4])
            inst = K(root, "signature-store")
            if k in ("restore", "copyback"):
                ctx.ob("SIB-4", tag + inst + ":" + k, True, "store puts back a saved signature / copies the sub-engine's", where)
                if k == "restore" and lc.reads_field(b, s[3][1], "array_signature"):
                    closers.setdefault(b.d.get("impl_adt"), []).append(b)
                continue
            # a child/key/value signature is installed: a restore must follow on every success path ...
            later = {x for x in restores if x != s[0] or any(s2[0] == s[0] and s2[1] > s[1] for k2, s2 in kinds if k2 == "restore")}
            ok = bool(later) and lc.always_followed(b, s[0], later - {s[0]}) if (later - {s[0]}) else False
            if not ok and s[0] in later:
                ok = any(s2[0] == s[0] and s2[1] > s[1] for k2, s2 in kinds if k2 == "restore")
            why = "child signature installed and restored on every success path"
            if not ok:
                # ... or this is an opener: the previous signature is saved into the returned access object
                saved = False
                for bi, i, pl, rv, ln in mir.assignments(b):
                    if rv[0] == "agg" and rv[1] == "adt" and "array_signature" in (rv[5] or []):
                        k2 = load_kind(b, rv[4][rv[5].index("array_signature")])
                        if k2 is not None and k2[0] == "self-signature" and k2[1] is not None and \
                                mir.dominates(b, k2[1], (s[0], s[1])) and k2[1] != (s[0], s[1]):
                            saved = True
                if not saved:
                    saved_via = saved_by_constructor(f, b, s)
                    if saved_via:
                        saved = True
                if not saved and b.name == "deserialize_identifier":
                    saved = identifier_restored_by_enum(f, b)
                if saved:
                    ok = True
                    why = "opener: previous signature saved (before the store) into an object whose closer restores it"
                    openers.setdefault(b.d.get("impl_adt"), []).append(b)
                elif not shared.get(b.file):
                    ok = True
                    why = ("child signature installed and not restored, but this engine never hands its own cursor to successive "
                           "elements (every element gets a fresh sub-engine): nothing can observe it")
                else:
                    why = ("a child signature is installed and neither restored on every success path nor saved for a closer, while "
                           "%d array/dict element site(s) of this engine (e.g. %s) hand this same cursor to the next element" % (
                               len(shared[b.file]), shared[b.file][0].where))
            ctx.ob("SIB-4", tag + inst + ":swap-restored", ok, why, where)
        if swaps:
            n += len(swaps)
            # pairs: every swap is either followed by another swap on every success path, or is itself the second of a pair
            sb = sorted({c.b for c in swaps})
            firsts = [c for c in swaps if not any(lc.always_preceded(b, c.b, {o.b}) for o in swaps if o is not c)]
            ok = len(swaps) % 2 == 0 and all(lc.always_followed(b, c.b, set(sb) - {c.b}) for c in firsts)
            ctx.ob("SIB-4", tag + K(root, "mem::swap-paired"), ok,
                   "%d mem::swap(s) on the signature: each first swap is undone by a second one on every success path" % len(swaps), swaps[0].where)
    ctx.floor("SIB-4", tag + "stores/swaps of the signature cursor", n, 8)
    return judged


def sib4_pairs(ctx, f, tag):
    """opener/closer pairing that crosses functions"""
    # writer: serialize_seq (opener) -> end_seq (closer) : P-PATCH of C01 shows every end() reaches end_seq
    for adt_ser, seqadt, label in ((lc.DBUS_SER, "zvariant::dbus::ser::SeqSerializer", "dbus"),) + (
            ((lc.GV_SER, "zvariant::gvariant::ser::SeqSerializer", "gvariant"),) if f.find(name="end_seq", adt="zvariant::gvariant::ser::SeqSerializer", trait="") else ()):
        es = ctx.one(f.find(name="end_seq", adt=seqadt, trait=""), label + " SeqSerializer::end_seq")
        st = [s for s in lc.field_writes(es, "signature", lc.SER_COMMON)]
        ok = len(st) == 1 and st[0][3][0] == "use" and lc.reads_field(es, st[0][3][1], "array_signature")
        # restored on every success path: no Ok return without passing the store
        oks = lc.ok_returns(es)
        ok = ok and bool(oks) and all(bb == st[0][0] or lc.always_preceded(es, bb, {st[0][0]}) for bb, rv in oks)
        ctx.ob("SIB-4", tag + label + ":end_seq-restores-array_signature", ok,
               "end_seq puts self.array_signature back on every success path", es.where)
    # reader (D-Bus): ArrayDeserializer::end restores; next_element calls end() before Ok(None)
    AD = "zvariant::dbus::de::ArrayDeserializer"
    en = ctx.one(f.find(name="end", adt=AD, trait=""), "dbus ArrayDeserializer::end")
    st = lc.field_writes(en, "signature", lc.DE_COMMON)
    ctx.ob("SIB-4", tag + "dbus:ArrayDeserializer::end-restores-array_signature",
           len(st) == 1 and st[0][3][0] == "use" and lc.reads_field(en, st[0][3][1], "array_signature") and
           not [r for r in mir.exits(en) if st[0][0] not in mir.reachable(en, [0], avoid=set()) ],
           "ArrayDeserializer::end puts array_signature back", en.where)
    ne = ctx.one(f.find(name="next_element", adt=AD, trait=""), "dbus ArrayDeserializer::next_element")
    ends = {c.b for c in mir.calls(ne) if c.callee.endswith("ArrayDeserializer::<'d, 'de, 'sig, 'f, F>::end")}
    nones = []
    for bb, rv in lc.ok_returns(ne):
        o = mir.origin(ne, rv[4][0])
        if o[0] == "rv" and o[1][0] == "agg" and o[1][3] == "None":
            nones.append(bb)
    ctx.ob("SIB-4", tag + "dbus:next_element-closes-before-end-of-array", bool(nones) and all(lc.always_preceded(ne, bb, ends) for bb in nones),
           "Ok(None) is returned only after end() restored the array signature", ne.where)


def sib4_opener_users(ctx, f, tag):
    """SIB-4:opener-users (added after seeded change C02b): D-Bus `ArrayDeserializer::new` leaves the *element* signature
    in the shared cursor and keeps the array's in `array_signature`. Whoever calls it must, on every success path,
    hand the object on (wrapper / visitor), call its `end()`, or put `array_signature` back itself — otherwise the
    next sibling (second `ay` of an `aay`) is decoded with the element signature."""
    AD = "zvariant::dbus::de::ArrayDeserializer"
    n = 0
    for b in f.all_bodies("zvariant"):
        if b.d.get("impl_adt") == AD:
            continue
        for c in mir.calls(b):
            if not (c.callee.startswith(AD + "::") and c.is_("new")):
                continue
            n += 1
            der = mir.derives(b, {c.dest[0]})
            closes = set()
            escapes = False
            for x in mir.calls(b):
                if x is c or not any(l in der for a in x.args for l in mir.operand_locals(a)):
                    continue
                nm = x.callee.rsplit("::", 1)[-1]
                if x.callee.startswith(AD + "::") and nm == "end":
                    closes.add(x.b)
                elif nm in ("branch", "from_residual", "into_future", "deref", "deref_mut", "drop_in_place"):
                    continue
                elif x.callee.startswith(AD + "::") or nm in ("len",):
                    continue
                else:
                    # the object itself (not a number read from it) is passed on: that owner closes it
                    tys = x.c.get("argtys") or []
                    for a, t in zip(x.args, tys):
                        if "ArrayDeserializer<" in t and any(l in der for l in mir.operand_locals(a)):
                            escapes = True
            for bi, i, pl, rv, ln in mir.assignments(b):
                if rv[0] == "agg" and rv[1] in ("adt",) and not str(rv[2]).startswith("core::"):
                    for op in rv[4]:
                        l = mir.op_local(op)
                        if l is not None and l in der and "ArrayDeserializer<" in b.locals[l][0]:
                            escapes = True
            for st in lc.field_writes(b, "signature", lc.DE_COMMON):
                if classify_sig_store(b, st) == "restore":
                    closes.add(st[0])
            ok = escapes
            why = "the access object is handed on to its wrapper / the visitor"
            if not escapes:
                oks = lc.ok_returns(b)
                after = mir.reachable(b, [c.b])
                ok = bool(closes) and all((bb not in after) or lc.always_preceded(b, bb, closes) or bb in closes for bb, rv in oks)
                # generic: every normal return reachable from the opener passes a closer
                leak = [e for e in mir.exits(b) if e in mir.reachable(b, [c.c["t"]] if c.c["t"] is not None else [], avoid=closes | {x.b for x in mir.calls(b) if x.is_("from_residual")})]
                ok = bool(closes) and not leak
                why = "every success path after the opener calls end() / restores array_signature" if ok else \
                    "a success path leaves %s without end() or a restore of array_signature: the element signature stays in the cursor" % lc.short(b)
            ctx.ob("SIB-4", tag + K(b, "opener-user-closes"), ok, why, c.where)
    ctx.floor("SIB-4", tag + "users of dbus ArrayDeserializer::new outside its own impl", n, 3)


# ============================================================================================ LEN
def len_rule(ctx, f, tag=""):
    DATA = "zvariant::serialized::data::Data"
    DE = "zvariant::de::Deserializer"
    fmt_variants = [v["name"] for v in f.adts[lc.FORMAT]["variants"]]
    de_variants = [v["name"] for v in f.adts[DE]["variants"]]
    ctx.ob("LEN", tag + "decoder-enum-has-one-variant-per-format", sorted(fmt_variants) == sorted(de_variants),
           "Format variants %s; de::Deserializer variants %s" % (fmt_variants, de_variants), "zvariant/src/de.rs")
    for name, drive in (("deserialize_for_signature", "serde_core::de::Deserialize::deserialize"),
                        ("deserialize_with_seed", "serde_core::de::DeserializeSeed::deserialize")):
        b = ctx.one(f.find(name=name, adt=DATA, trait=""), "Data::" + name)
        dr = [c for c in mir.calls(b) if c.c.get("fn") == drive]
        ok = len(dr) == 1
        ctx.ob("LEN", tag + K(b, "one-decode-call"), ok, "%d call(s) of %s" % (len(dr), drive), b.where)
        if not ok:
            continue
        d = dr[0]
        deo = mir.origin(b, d.args[-1])
        del_ = deo[1][0] if deo[0] == "ref" and not deo[1][1] else None
        ctx.ob("LEN", tag + K(b, "decoder-local"), del_ is not None, "the decoder driven is a local `de`", d.where)
        # closure mapping the result
        maps = [c for c in mir.calls(b) if c.is_("map") and mir.origin(b, c.args[0])[0] == "call" and mir.origin(b, c.args[0])[1].b == d.b]
        ok = len(maps) == 1 and lc.returns_call(b, maps[0])
        clo = None
        if ok:
            o = mir.origin(b, maps[0].args[1])
            if o[0] == "rv" and o[1][0] == "agg" and o[1][1] == "closure":
                caps = [mir.root_local(b, x) for x in o[1][4]]
                ok = caps == [del_]
                clo = f.bodies.get(o[1][2])
            else:
                ok = False
        ctx.ob("LEN", tag + K(b, "result-mapped-with-that-decoder"), ok and clo is not None,
               "the returned pair is built by a closure capturing the driven decoder", d.where)
        if clo is not None:
            tup = [(bi, rv) for bi, i, pl, rv, ln in mir.assignments(clo) if pl == [mir.RET, []] and rv[0] == "agg" and rv[1] == "tuple"]
            seen = set()
            okc = bool(tup)
            for bi, rv in tup:
                p = lc.place_of(clo, rv[4][1]) if len(rv[4]) == 2 else None
                t = lc.place_of(clo, rv[4][0]) if len(rv[4]) == 2 else None
                good = p is not None and lc.deref_fields(p)[-2:] == ["0", "pos"] and t is not None and t[0] == 2
                # which variant's payload?
                var = None
                if good:
                    base = p
                    if base[0] != 1:
                        ds = [x for x in mir.defs_of(clo, base[0]) if x[0] == "assign" and x[4][0] == "use"]
                        base = mir.op_place(ds[0][4][1]) if len(ds) == 1 else None
                    if base is not None and base[0] == 1:
                        dc = [q for q in base[1] if isinstance(q, list) and q[0] == "as"]
                        var = dc[-1][1] if dc else (de_variants[0] if len(de_variants) == 1 else None)
                    arm = lc.arm_of(clo, f, bi, adt=DE)
                    if arm is not None and var is not None and arm != frozenset([var]):
                        good = False
                    good = good and var is not None
                okc = okc and good
                if var:
                    seen.add(var)
            ctx.ob("LEN", tag + K(b, "returns-(value, de.0.pos)"), okc and seen == set(de_variants),
                   "every arm returns (t, <that arm's decoder>.0.pos); arms seen %s" % sorted(seen), clo.where)
        # construction per format arm
        news = [c for c in mir.calls(b) if c.callee.endswith("de::Deserializer::<'de, 'sig, 'f, F>::new")]
        rows = {}
        for c in news:
            arm = lc.arm_of(b, f, c.b, adt=lc.FORMAT)
            fmt = sorted(arm)[0] if arm and len(arm) == 1 else (fmt_variants[0] if len(fmt_variants) == 1 else None)
            wrap = [m for m in mir.calls(b) if m.is_("map") and mir.origin(b, m.args[0])[0] == "call" and mir.origin(b, m.args[0])[1].b == c.b]
            wv = None
            if wrap:
                k = mir.op_const(wrap[0].args[1])
                wv = (k.get("fn") or "") if k else None
            rows[fmt] = (c.callee.split("::de::Deserializer")[0].rsplit("::", 1)[-1], (wv or "").rsplit("::", 1)[-1], c,
                         lc.value_source(b, ["c", [del_, []]]) if del_ is not None else None)
        want = {"DBus": ("dbus", "DBus"), "GVariant": ("gvariant", "GVariant")}
        for fmt in fmt_variants:
            r = rows.get(fmt)
            ctx.ob("LEN", tag + K(b, "format-arm:" + fmt), r is not None and (r[0], r[1]) == want.get(fmt),
                   "Format::%s builds %s::Deserializer wrapped as %s" % (fmt, r and r[0], r and r[1]), r[2].where if r else b.where)
        # the bytes decoded are self.bytes()
        for c in news:
            o = mir.origin(b, c.args[0])
            ctx.ob("LEN", tag + K(b, "decodes-self.bytes()"), o[0] == "call" and o[1].callee.endswith("Data::<'bytes, 'fds>::bytes") and
                   lc.self_path(b, o[1].args[0]) == [], "the decoder is given self.bytes()", c.where)
            ko = mir.origin(b, c.args[-1])
            ctx.ob("LEN", tag + K(b, "decodes-with-self.context"), ko[0] == "place" and ko[1][0] == 1 and lc.deref_fields(ko[1]) == ["context"],
                   "the decoder is given self.context", c.where)
    for name, tgt in (("deserialize", "deserialize_for_signature"), ("deserialize_for_dynamic_signature", "deserialize_with_seed")):
        b = ctx.one(f.find(name=name, adt=DATA, trait=""), "Data::" + name)
        cs = [c for c in mir.calls(b) if c.callee.endswith("Data::<'bytes, 'fds>::" + tgt)]
        ctx.ob("LEN", tag + K(b, "forwards"), len(cs) == 1 and lc.returns_call(b, cs[0]) and lc.self_path(b, cs[0].args[0]) == [],
               "Data::%s returns Data::%s(self, ..)" % (name, tgt), b.where)


# ============================================================================================ POS (sub-decoder hand-over, D-Bus reader)
def pos_rule(ctx, f, tag=""):
    """Every sub-decoder the D-Bus reader builds (struct field, variant value) either starts at the parent's pos on the
    parent's bytes and hands its final pos back by plain assignment, or starts at 0 on a sub-slice and hands its pos
    back by `+=`; the hand-back happens on every success path after the element was decoded."""
    n = 0
    for b in f.all_bodies("zvariant"):
        if b.file != "zvariant/src/dbus/de.rs" or b.name == "new":
            continue
        for bi, i, pl, rv, ln in mir.assignments(b):
            if not (rv[0] == "agg" and rv[1] == "adt" and rv[2] == lc.DE_COMMON and "pos" in (rv[5] or [])):
                continue
            # the call that drives the sub-decoder: a DeserializeSeed::deserialize whose decoder argument is the local built here
            sub = None
            for b2, i2, pl2, rv2, ln2 in mir.assignments(b):
                if rv2[0] == "agg" and rv2[1] == "adt" and rv2[2] == lc.DBUS_DE and mir.root_local(b, rv2[4][0]) == pl[0] and not pl2[1]:
                    sub = pl2[0]
            if sub is None and not pl[1]:
                sub = pl[0]
            drives = [c for c in mir.calls(b) if (c.c.get("fn") or "").endswith("DeserializeSeed::deserialize") and
                      (lambda p: p is not None and p[0] == sub)(lc.place_of(b, c.args[-1]))]
            if not drives:
                continue
            n += 1
            root = f.bodies.get(b.root, b)
            where = "%s:%d" % (b.file, ln)
            posop = rv[4][rv[5].index("pos")]
            bytesop = rv[4][rv[5].index("bytes")]
            k = mir.resolve_const(b, posop)
            absolute = k is None and lc.reads_field(b, posop, "pos") and lc.reads_field(b, bytesop, "bytes")
            bo = mir.origin(b, bytesop)
            vb = lc.value_source(b, bytesop)
            relative = k is not None and k.get("v") == 0 and vb[0] == "call" and vb[1].callee == "zvariant::utils::subslice"
            arm = lc.arm_of(b, f, bi, adt="zvariant::de::ValueParseStage")
            inst = K(root, "sub-decoder" + (":" + ",".join(sorted(arm)) if arm else ""))
            ctx.ob("POS", tag + inst + ":start", absolute or relative,
                   "sub-decoder starts %s" % ("at the parent's pos on the parent's bytes" if absolute else
                                              "at 0 on a sub-slice" if relative else "neither at the parent's pos nor at 0 of a sub-slice"), where)
            stores = [s for s in lc.field_writes(b, "pos", lc.DE_COMMON) if lc.always_preceded(b, s[0], {c.b for c in drives})]
            good = []
            for s in stores:
                if s[3][0] != "use":
                    continue
                if absolute and lc.reads_field(b, s[3][1], "pos") and (lambda p: p is not None and p[0] == sub)(lc.place_of(b, s[3][1])):
                    good.append(s)
                if relative:
                    src = mir.op_place(s[3][1])
                    sd = mir.single_def(b, src[0]) if src else None
                    if sd and sd[0] == "assign" and sd[4][0] == "bin" and sd[4][1] in ("Add", "AddWithOverflow"):
                        pa, pb = lc.place_of(b, sd[4][2]), lc.place_of(b, sd[4][3])
                        if pa is not None and pb is not None and lc.deref_fields(pa)[-1:] == ["pos"] and lc.deref_fields(pb)[-1:] == ["pos"] \
                                and {pa[0] == sub, pb[0] == sub} == {True, False}:
                            good.append(s)
            ok = bool(good) and all(lc.always_followed(b, c.b, {s[0] for s in good}) for c in drives)
            ctx.ob("POS", tag + inst + ":hand-back", ok,
                   "parent.pos %s sub.pos on every success path after the element was decoded" % ("=" if absolute else "+="), where)
    ctx.floor("POS", tag + "sub-decoders built by the D-Bus reader", n, 2)


DBUS_FILES = ("zvariant/src/dbus/ser.rs", "zvariant/src/dbus/de.rs")
GV_FILES = ("zvariant/src/gvariant/ser.rs", "zvariant/src/gvariant/de.rs")


def run(ctx):
    ctx.explanation = ("Sibling rules over MIR: for every basic type, string kind and padding point the D-Bus reader's width, "
                       "alignment source and order equal the writer's (K1); the GVariant basic methods delegate to D-Bus "
                       "methods of identical layout and hand the byte count back (K2); every store to the signature cursor of "
                       "the four engines is restored on all success paths or paired opener/closer; Data::deserialize* return "
                       "the driven decoder's final pos per format arm.")
    ctx.not_decided = ("equality of values; offset arithmetic (framing offsets, value_start of variants); errors made "
                       "identically on both sides (C01/C05 compare with the specifications).")
    spec = lc.load_spec(ctx)
    f = ctx.facts("K1")
    lays = sib1(ctx, f, spec)
    sib2(ctx, f, spec)
    sib3(ctx, f, spec)
    judged = sib4(ctx, f, "", DBUS_FILES)
    sib4_pairs(ctx, f, "")
    sib4_opener_users(ctx, f, "")
    len_rule(ctx, f)
    pos_rule(ctx, f)
    f2 = ctx.facts("K2")
    lays2 = sib1(ctx, f2, spec, "K2:")
    sib1_gv(ctx, f2, spec, lays2)
    sib4(ctx, f2, "K2:", DBUS_FILES + GV_FILES, skip=judged)
    sib4_pairs(ctx, f2, "K2:")
    sib4_opener_users(ctx, f2, "K2:")
    len_rule(ctx, f2, "K2:")
