"""C13 — Valid messages with unknown header fields, flags or types are tolerated (DESIGN §5.C13).

R-FALL rules: what the fall-through of each header decoder does with a value this version does not know.

  F-CODE   the decoder used for the code of a header field (`(code, value)` element type requested by
           `FieldsVisitor::visit_seq`) must have a way to succeed on an integer that is none of the known codes,
           and the visitor must be able to go on to the next element for such a code without building an Err.
           Accepted idioms: a catch-all variant of `FieldCode` whose arm stores nothing; decoding the code as an
           integer and ignoring unknown values in the visitor.  Also: the field *value* is decoded as a dynamic
           `Value` (any variant type), not per known code.
  F-FLAGS  the type through which the derived `PrimaryHeader` decoder reads the flags member must not reject
           unknown bits.  `enumflags2::BitFlags<_>`'s own `Deserialize` is strict (`from_bits(..).map_err(invalid_value)`,
           enumflags2 0.7, external crate: recorded as an assumption).  Accepted: an integer member; a
           `deserialize_with` / wrapper type whose workspace decoder reaches `from_bits_truncate` and never
           the strict `from_bits`.
  F-TYPE   an unknown message type must not end the stream: either the decoder of the type member can succeed on
           an unknown integer (catch-all variant / integer member), or `SocketReader::receive_msg` does not
           stop on every `Err` of `read_socket`.  On the tree the decoder's fall-through is `Err` only, and the
           reader's single `is_err` test leads to `return` without looking at the error.

All three are violated by construction on the unchanged tree (DESIGN §7 K-C13a/b/c).  Not decided: what consumers do
with a delivered message of unknown type; serde's / enumflags2's internals beyond the stated assumption; the
`visit_map` path of the derived decoders (the D-Bus deserializer drives structs through `visit_seq`).
"""
import re
from .. import mir, callgraph
from .. import lib_flow as fl
from ..lib_flow import sources

META = {
    "technique": "fall-through (otherwise-arm) analysis of the header decoders' integer matches + reachability of the reader's stop branch",
    "level": "Decides, for the three forward-compatibility points the specification names (header field code, flag bits, message "
             "type), whether the decoder zbus resolves for that member can succeed on a value it does not know, and whether the "
             "socket reader stops on every error. These are necessary conditions for tolerating such messages; it does not decide "
             "what happens to a tolerated message afterwards.",
}

FC = "zbus::message::field_code::FieldCode"
PH = "zbus::message::header::PrimaryHeader"
VISITOR = "zbus::message::fields::FieldsVisitor"
INTS = ("u8", "u16", "u32", "u64", "i8", "i16", "i32", "i64", "usize", "isize")


def int_switches(body):
    """switches on a decoded integer (not on an enum discriminant, not on a bool)"""
    out = []
    for sb, t in mir.switches(body):
        if t[2] in INTS and mir.switch_scrutinee(body, sb)[0] != "discr" and len(t[3]) >= 1:
            out.append((sb, t))
    return out


def fallthrough(body):
    """('ok' | 'err' | None, where): can the otherwise arm of the decoder's integer match reach an Ok?
    None when the body has no integer match."""
    sws = int_switches(body)
    if not sws:
        return None, body.where
    # the widest match is the value table
    sb, t = max(sws, key=lambda x: len(x[1][3]))
    reach = mir.reachable(body, [t[4]])
    where = "%s:%d" % (body.file, t[5])
    if mir.otherwise_is_unreachable(body, sb):
        return "ok", where
    if fl.ok_blocks(body) & reach:
        return "ok", where
    if fl.err_blocks(body) & reach:
        return "err", where
    return None, where


def deser_of(f, ty):
    ty = fl.strip_lifetimes(ty)
    c = [b for b in f.find(name="deserialize", trait="serde_core::de::Deserialize")
         if fl.strip_lifetimes(b.d.get("impl_self") or "") == ty]
    return c


def decoder_verdict(ctx, f, ty):
    """('tolerant' | 'strict' | 'unknown', explanation, where) for the Deserialize of type `ty`"""
    t0 = fl.strip_lifetimes(ty)
    if t0 in INTS:
        return "tolerant", "decoded as plain %s" % t0, "-"
    if t0.startswith("enumflags2::BitFlags<"):
        ctx.assumptions.append("enumflags2::BitFlags<T>::deserialize rejects bits outside T (enumflags2 0.7.12 src/lib.rs: from_bits(..).map_err(invalid_value)); external crate, not in the facts")
        return "strict", "decoded by enumflags2's own Deserialize for %s, which rejects unknown bits" % t0, "-"
    ds = deser_of(f, ty)
    if len(ds) != 1:
        return "unknown", "no unique workspace Deserialize for %s" % t0, "-"
    d = ds[0]
    v, where = fallthrough(d)
    if v == "ok":
        return "tolerant", "%s: the fall-through of the integer match can produce Ok" % d.id, where
    if v == "err":
        return "strict", "%s: every integer outside the known set ends in Err" % d.id, where
    # no integer match: wrapper / deserialize_with — look at what it reaches
    cg = callgraph.get(f)
    reach = cg.reach([d.id])
    trunc = strict = False
    for bid in reach:
        b = f.byid(bid)
        if b is None:
            continue
        for c in mir.calls(b):
            if c.is_("from_bits_truncate", "from_bits_unchecked"):
                trunc = True
            elif c.is_("from_bits"):
                strict = True
    if trunc and not strict:
        return "tolerant", "%s reaches from_bits_truncate and no strict from_bits" % d.id, d.where
    if strict:
        return "strict", "%s reaches the strict BitFlags::from_bits" % d.id, d.where
    return "unknown", "cannot classify the decoder %s" % d.id, d.where


def member_decoder_type(ctx, f, adt_id, member):
    """type requested from SeqAccess::next_element for `member` in the derived visit_seq of `adt_id`"""
    vs = [b for b in f.find(name="visit_seq", trait="serde_core::de::Visitor")
          if ("for %s>" % adt_id) in fl.strip_lifetimes(b.id) and "__Visitor" in b.id]
    vis = ctx.one(vs, "derived visit_seq of " + adt_id)
    aggs = fl.adt_aggregates(vis, adt_id)
    ctx.need(aggs, "aggregate of %s in its derived visit_seq" % adt_id)
    tys = set()
    where = vis.where
    for b, i, rv, ln in aggs:
        op = fl.agg_field(rv, member)
        if op is None:
            continue
        s = sources(vis, op)
        for c in s.calls:
            if c.declared == "serde_core::de::SeqAccess::next_element" or c.is_("next_element", "next_element_seed"):
                m = re.search(r"::next_element::<(.+)>$", c.fnargs)
                if m:
                    tys.add(m.group(1))
                    where = c.where
    return tys, where


def reader_stop(ctx, f):
    """(stops_on_every_error: bool, detail, where) for SocketReader::receive_msg"""
    root = ctx.one(f.find(name="receive_msg", adt="zbus::connection::socket_reader::SocketReader", trait=""), "SocketReader::receive_msg")
    bodies = [b for b in f.family(root) if [c for c in mir.calls(b) if c.callee.endswith("SocketReader::read_socket")]]
    body = ctx.one(bodies, "coroutine of receive_msg that calls read_socket")
    reads = [c for c in mir.calls(body) if c.callee.endswith("SocketReader::read_socket")]
    heads = {c.b for c in reads}
    rets = set(mir.exits(body))
    inspects = []
    for b in f.family(root):
        for sb, place, adt, arms, other in mir.discr_switches(b, f):
            if adt == "zbus::error::Error":
                inspects.append("%s:%d" % (b.file, mir.term(b, sb)[5]))
    stops = []
    # `if msg.is_err() { .. return }` or `match msg { Err(..) => return }`
    for sb, call, tt, ft, neg in mir.call_bool_switches(body):
        if call.is_("is_err", "is_ok") and "core::result::Result" in call.callee:
            edge = tt if call.is_("is_err") else ft
            if edge is None:
                continue
            reach = mir.reachable(body, [edge])
            if (rets & reach) and not (heads & reach):
                stops.append(call.where)
    for sb, place, adt, arms, other in mir.discr_switches(body, f, "core::result::Result"):
        tgt = arms.get("Err", arms.get("1"))
        if tgt is None:
            continue
        ty = body.locals[place[0]][0]
        if "zbus::message::Message" not in ty:
            continue
        reach = mir.reachable(body, [tgt])
        if (rets & reach) and not (heads & reach):
            stops.append("%s:%d" % (body.file, mir.term(body, sb)[5]))
    every = bool(stops) and not inspects
    detail = ("the loop leaves through `return` whenever the read result is Err (%s) and never looks at the error" % ", ".join(sorted(set(stops)))
              if every else ("no unconditional stop branch found" if not stops else "the error is inspected at %s" % inspects))
    return every, detail, (stops[0] if stops else body.where)


def known_sets(ctx, f):
    """F-KNOWN (added after seeded change C13): whatever is done with *unknown* values, every value the specification
    defines must be known to the decoders: flag bits 0x1, 0x2, 0x4; message types 1..4; header field codes 1..9.
    (A renumbered constant turns a spec-defined value into an "unknown" one that is then rejected.)"""
    want = {
        "zbus::message::header::Flags": ({1, 2, 4}, "flag bits NO_REPLY_EXPECTED, NO_AUTO_START, ALLOW_INTERACTIVE_AUTHORIZATION"),
        "zbus::message::header::Type": ({1, 2, 3, 4}, "message types METHOD_CALL, METHOD_RETURN, ERROR, SIGNAL"),
        FC: (set(range(1, 10)), "header field codes PATH .. UNIX_FDS"),
    }
    for adt_id, (vals, what) in want.items():
        a = f.adts.get(adt_id)
        ctx.need([a] if a else [], "enum " + adt_id)
        have = set()
        for v in a["variants"]:
            try:
                have.add(int(v["discr"]))
            except ValueError:
                pass
        missing = sorted(vals - have)
        ctx.ob("F-KNOWN", "spec-values-defined:" + adt_id.rsplit("::", 1)[-1], not missing,
               "%s are all defined (%s)" % (what, sorted(have)) if not missing else
               "%s: value(s) %s defined by the specification are not values of %s (%s): valid messages carrying them are rejected"
               % (what, missing, adt_id, sorted(have)), "%s:%s" % (a.get("file"), a.get("line")))


def flags_never_reject(ctx, f):
    """F-FLAGS:flags-never-decide-rejection (added after seeded change C13b). A flag bit that means nothing for the
    message carrying it must be ignored, so on the decoding path no error may be decided by the flags value: in
    Message::from_raw_parts / from_bytes and the PrimaryHeader readers, no branch whose condition is computed from the
    header's flags may lead to an `Err` on one edge only."""
    MSG = "zbus::message::Message"
    roots = [b for b in f.all_bodies("zbus")
             if b.root in (MSG + "::from_raw_parts", MSG + "::from_bytes", PH + "::read", PH + "::read_from_data")]
    ctx.need(roots, "message decoding functions", "F-FLAGS")
    n = 0
    for b in roots:
        seeds = set()
        for c in mir.calls(b):
            if c.callee == PH + "::flags" or (c.is_("flags") and "message::header" in c.callee):
                seeds.add(c.dest[0])
        for bi, i, pl, rv, ln in mir.assignments(b):
            for op in mir.rvalue_operands(rv):
                p = mir.op_place(op)
                if p and any(isinstance(x, list) and x[0] == "." and x[2] == "flags" and x[3] == PH for x in p[1]):
                    seeds.add(pl[0])
            if rv[0] == "ref" and any(isinstance(x, list) and x[0] == "." and x[2] == "flags" and x[3] == PH for x in rv[2][1]):
                seeds.add(pl[0])
        if not seeds:
            continue
        der = mir.derives(b, seeds, through_calls=True)
        err = fl.err_blocks(b)
        for sb, t in mir.switches(b):
            ls = mir.operand_locals(t[1])
            if not any(l in der for l in ls):
                continue
            n += 1
            succ = [x for x in mir.succs(b)[sb]]
            ok_b = fl.ok_blocks(b)
            can_ok = [bool(ok_b & mir.reachable(b, [x])) for x in succ]
            bad = any(can_ok) and not all(can_ok)   # one side can no longer succeed
            ctx.ob("F-FLAGS", "flags-never-decide-rejection:%s" % b.root.rsplit("::", 1)[-1], not bad,
                   "a branch on the flags value does not separate Ok from Err" if not bad else
                   "a branch computed from the header flags leads to an Err on one side only: a message is rejected because of "
                   "a flag bit", "%s:%s" % (b.file, t[5] if len(t) > 5 else "?"))
    ctx.note("F-FLAGS: %d branch(es) on the flags value inspected on the decoding path" % n)


def run(ctx):
    ctx.explanation = (
        "R-FALL over MIR of zbus (K1): for the header-field code, the flags member and the message-type member the rule resolves "
        "the decoder actually requested (the generic argument of SeqAccess::next_element in FieldsVisitor::visit_seq resp. in the "
        "derived PrimaryHeader visitor), finds the integer match of that decoder and asks whether its otherwise arm can reach an Ok; "
        "for the message type it additionally asks whether SocketReader::receive_msg leaves its loop on every Err.")
    ctx.not_decided = ("what happens to a tolerated message afterwards (whether consumers skip an unknown type); the visit_map path of the derived "
                       "decoders; enumflags2/serde internals beyond the stated assumption.")
    f = ctx.facts("K1")
    known_sets(ctx, f)
    flags_never_reject(ctx, f)

    # ------------------------------------------------------------------ F-CODE
    vis = ctx.one(f.find(name="visit_seq", adt=VISITOR), "FieldsVisitor::visit_seq")
    nes = [c for c in mir.calls(vis) if c.declared == "serde_core::de::SeqAccess::next_element"]
    ctx.floor("F-CODE", "next_element calls in FieldsVisitor::visit_seq", len(nes), 1)
    err = fl.err_blocks(vis)
    for ne in nes:
        m = re.search(r"::next_element::<\((.+?), (zvariant::value::Value<'_>|.+)\)>$", ne.fnargs)
        code_ty = m.group(1) if m else None
        val_ty = m.group(2) if m else None
        ctx.ob("F-CODE", "element-is-(code,value)", m is not None, "header field element type: %s" % (ne.fnargs.rsplit("next_element::", 1)[-1]), ne.where)
        if not m:
            continue
        ctx.ob("F-CODE", "value-is-dynamic", fl.strip_lifetimes(val_ty) == "zvariant::value::Value",
               "the field value is decoded as %s (any variant type is accepted before the code is looked at)" % val_ty, ne.where)
        verdict, why, where = decoder_verdict(ctx, f, code_ty)
        ctx.ob("F-CODE", "unknown-code-decodes", verdict == "tolerant",
               "header field code is decoded as %s — %s" % (code_ty, why) + ("" if verdict == "tolerant" else
               "; a valid message carrying a field with an unknown code (e.g. 42) fails in Message::from_bytes / receive_message"),
               where if where != "-" else ne.where)
        # the visitor must be able to continue with the next element for an unknown code
        if fl.strip_lifetimes(code_ty) == FC:
            adt = f.adts.get(FC)
            known = {v["name"] for v in adt["variants"] if not v["fields"] and 1 <= int(v["discr"]) <= 9}
            for sb, place, a, arms, other in mir.discr_switches(vis, f, FC):
                unk = [(n, t) for n, t in arms.items() if n not in known]
                if not mir.otherwise_is_unreachable(vis, sb):
                    unk.append(("_", other))
                for n, t in unk:
                    reach = mir.reachable(vis, [t], avoid=err)
                    ctx.ob("F-CODE", "visitor-continues:%s" % n, ne.b in reach and not [w for w in fl.field_writes(vis, "zbus::message::fields::Fields") if w[0] in mir.region(vis, t)],
                           "the arm for non-spec code variant %s goes on to the next element and stores nothing" % n, "%s:%d" % (vis.file, mir.term(vis, sb)[5]))
        elif fl.strip_lifetimes(code_ty) in INTS:
            sws = int_switches(vis)
            ctx.floor("F-CODE", "integer match on the code in visit_seq", len(sws), 1)
            for sb, t in sws:
                reach = mir.reachable(vis, [t[4]], avoid=err)
                ctx.ob("F-CODE", "visitor-continues:_", ne.b in reach, "the fall-through arm of the code match goes on to the next element", "%s:%d" % (vis.file, t[5]))

    # ------------------------------------------------------------------ F-FLAGS / F-TYPE : members of the primary header
    adt = f.adts.get(PH)
    ctx.need([adt] if adt else [], "struct PrimaryHeader")
    members = adt["variants"][0]["fields"]
    flags_m = [m for m in members if "Flags" in m[1] or m[0] == "flags"]
    type_m = [m for m in members if m[1].endswith("message::header::Type") or m[0] == "msg_type"]
    fm = ctx.one(flags_m, "flags member of PrimaryHeader")
    tm = ctx.one(type_m, "message-type member of PrimaryHeader")

    tys, where = member_decoder_type(ctx, f, PH, fm[0])
    ctx.ob("F-FLAGS", "decoder-resolved", len(tys) == 1, "flags member `%s` is read through next_element::<%s>" % (fm[0], sorted(tys)), where)
    for ty in tys:
        verdict, why, w2 = decoder_verdict(ctx, f, ty)
        ctx.ob("F-FLAGS", "unknown-bits-decode", verdict == "tolerant",
               "flags: %s" % why + ("" if verdict == "tolerant" else "; a valid message with an unknown flag bit (e.g. 0x80) fails in Message::from_bytes / receive_message"),
               w2 if w2 != "-" else where)

    stops, sdetail, swhere = reader_stop(ctx, f)
    tys, where = member_decoder_type(ctx, f, PH, tm[0])
    ctx.ob("F-TYPE", "decoder-resolved", len(tys) == 1, "type member `%s` is read through next_element::<%s>" % (tm[0], sorted(tys)), where)
    for ty in tys:
        verdict, why, w2 = decoder_verdict(ctx, f, ty)
        ok = verdict == "tolerant" or (verdict == "strict" and not stops)
        ctx.ob("F-TYPE", "unknown-type-does-not-stop-reader", ok,
               "message type: %s; reader: %s" % (why, sdetail) + ("" if ok else "; a message of unknown type (e.g. 9) is an Err that ends the connection's message stream"),
               w2 if w2 != "-" else where)
    # the path from the decoder's Err to the stop branch exists (who-calls chain), so the verdict above is about live code
    cg = callgraph.get(f)
    rd = f.find(name="read_from_data", adt=PH, trait="")
    rs = f.find(name="read_socket", adt="zbus::connection::socket_reader::SocketReader", trait="")
    if rd and rs:
        p = cg.path(rs[0].id, rd[0].id)
        ctx.ob("F-TYPE", "decoder-on-reader-path", bool(p), "read_socket reaches PrimaryHeader::read_from_data: %s" % (" → ".join(x.rsplit("::", 2)[-2] + "::" + x.rsplit("::", 1)[-1] for x in p) if p else "no path"), rs[0].where)
