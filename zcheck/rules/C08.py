"""C08 — Dynamic values obey equality, ordering, hashing and conversion laws (DESIGN §5.C08).

Rules (each evaluated on K1 = D-Bus only and K2 = +gvariant `Maybe`, K2 keys carry the prefix `K2:`):

  T-ID     `Value::try_clone`, `Value::try_to_owned`, `Value::try_into_owned`: the arm of variant V builds
           `Value::V` and nothing else, from a value that derives from V's own payload (one row per variant)
  T-KEEP   `try_clone` / `try_to_owned` / `try_into_owned` of the containers (Array, Dict, Structure, Maybe):
           every field of the rebuilt container derives from the same-named field of `self`
           (in particular `signature` is carried over, not recomputed or replaced)
  T-SIG    `Value::value_signature`: a variant whose payload stores a signature (payload ADT has a field
           `signature`) returns the result of a payload method that returns exactly `&self.signature`;
           every other variant returns the constant `<P as Type>::SIGNATURE` of its own payload type P
           (`&str`/`String`/`Str` are one class; `Value(_)` returns `&Signature::Variant`)
  T-INV    `From<T> for Value` (into_value.rs, signature.rs) and `TryFrom<Value> for T` (from_value.rs) are
           mutually inverse on variants: for every T with both directions the variant built equals the only
           variant accepted, all impls of one T (by value / by ref / cloning) agree, the fall-through of every
           `TryFrom` switch yields `Error::IncorrectType`, and `From<T> for OwnedValue` builds the same variant
  H-EQ     `Hash for Value`: every variant arm feeds the hasher only with data derived from that
           variant's payload (or constants); `PartialEq` is the structural derive; the F64 arm compares the
           payload with the constant 0.0 and on the equal edge hashes a value that does not depend on the payload
  H-DERIVE no type reachable from a Value payload (Str, str::Inner, ObjectPath, Array, Dict, Structure, Maybe, Fd,
           Signature, …) combines a *derived* `Hash` with a hand-written `PartialEq` (the derived hash would be
           finer than the equality)
  F-CMP    `Ord::cmp` for Value does not return a literal `Ordering::Equal` on the fall-through of a switch
           over the operands' variants (R-FALL): otherwise `cmp == Equal` while `==` is false
"""
import re
from .. import mir

META = {
    "technique": "switch-table extraction per enum variant + derives-from dataflow + sibling table comparison on MIR",
    "level": ("Static rules over rustc MIR of zvariant in two configurations. Decided: per-variant identity of the three "
              "clone/own functions, carry-over of container signatures, variant tables of From/TryFrom are inverse, "
              "Hash feeds only payload-derived data per variant with the +0/-0 normalisation present, no derived-Hash/manual-Eq "
              "mix on payload types, and Value::cmp has no constant-Equal fall-through. Not decided: the laws over values "
              "(NaN totality/transitivity, equality of nested containers); that `<P as Type>::SIGNATURE` is the signature P is encoded with (C01/C09)."),
}

VALUE = "zvariant::value::Value"
OWNED = "zvariant::owned_value::OwnedValue"
ORDERING = "core::cmp::Ordering"
CONTAINERS = ["zvariant::array::Array", "zvariant::dict::Dict", "zvariant::structure::Structure", "zvariant::maybe::Maybe"]
ID_FUNCS = ["try_clone", "try_to_owned", "try_into_owned"]


# ------------------------------------------------------------------------------------------ helpers
def place_of_rvalue(rv):
    """places read by an rvalue (use/ref/cast/discr)"""
    return [mir.op_place(op) for op in mir.rvalue_operands(rv) if mir.op_place(op) is not None]


def is_arg(body, l):
    return 0 < l <= body.d["argc"]


def payload_seeds(body, root, variant):
    """locals assigned from a place `root as <variant>.…`"""
    seeds = set()
    for b, i, pl, rv, ln in mir.assignments(body):
        for p in place_of_rvalue(rv):
            if p[0] != root:
                continue
            if any(isinstance(x, list) and x[0] == "as" and x[1] == variant for x in p[1]):
                seeds.add(pl[0])
    return seeds


def field_seeds(body, root, field):
    """locals assigned from a place `root.<field>…` (first field projection)"""
    seeds = set()
    for b, i, pl, rv, ln in mir.assignments(body):
        for p in place_of_rvalue(rv):
            if p[0] != root:
                continue
            fl = mir.place_fields(p)
            if fl and fl[0] == field:
                seeds.add(pl[0])
    return seeds


def value_switches(body, f, only_args=True):
    """switches on the discriminant of a `Value` (optionally: rooted in an argument)"""
    out = []
    for sb, place, adt, arms, other in mir.discr_switches(body, f, None):
        if adt != VALUE:
            continue
        if only_args and not is_arg(body, place[0]):
            continue
        out.append((sb, place, arms, other))
    return out


def arm_table(body, f, sb, arms, other):
    """variant -> target block for *every* variant of Value (unlisted variants go to `otherwise`)"""
    names = [v["name"] for v in f.adts[VALUE]["variants"]]
    tab = {}
    for n in names:
        if n in arms:
            tab[n] = arms[n]
        elif not mir.otherwise_is_unreachable(body, sb):
            tab[n] = other
    return tab


def exclusive_regions(body, tab):
    """variant -> blocks reachable from its arm target that are reachable from no other arm target"""
    reach = {}
    for tgt in set(tab.values()):
        reach[tgt] = mir.reachable(body, [tgt])
    count = {}
    for tgt, blocks in reach.items():
        for b in blocks:
            count[b] = count.get(b, 0) + 1
    return {v: {b for b in reach[t] if count[b] == 1} for v, t in tab.items()}


def aggregates(body, adt, blocks=None):
    out = []
    for b, i, pl, rv, ln in mir.assignments(body):
        if blocks is not None and b not in blocks:
            continue
        if rv[0] == "agg" and rv[1] == "adt" and rv[2] == adt:
            out.append((b, i, pl, rv, ln))
    return out


def op_derived(op, der):
    return any(l in der for l in mir.operand_locals(op))


def norm_type(s):
    """type constructor without lifetimes, references and generic arguments"""
    s = re.sub(r"'\w+(,\s*|\s+)?", "", s or "")
    s = s.replace("mut ", "")
    s = s.strip()
    while s.startswith("&"):
        s = s[1:].strip()
    if "<" in s and not s.startswith("("):
        s = s[:s.index("<")]
    return s


def trait_arg(full, trait):
    """`core::convert::From<X>` -> X"""
    pre = trait + "<"
    if full and full.startswith(pre) and full.endswith(">"):
        return full[len(pre):-1]
    return None


# ------------------------------------------------------------------------------------------ T-ID
def rule_t_id(ctx, f, tag):
    variants = [v["name"] for v in f.adts[VALUE]["variants"]]
    for fn in ID_FUNCS:
        body = ctx.one(f.find(name=fn, adt=VALUE, trait=""), tag + "Value::" + fn)
        sws = value_switches(body, f)
        sw = ctx.one(sws, tag + "switch on self's variant in Value::" + fn)
        sb, place, arms, other = sw
        tab = arm_table(body, f, sb, arms, other)
        regs = exclusive_regions(body, tab)
        n = 0
        for v in variants:
            key = "%s%s:%s" % (tag, fn, v)
            if v not in tab:
                ctx.ob("T-ID", key, False, "variant %s has no arm" % v, body.where)
                continue
            aggs = aggregates(body, VALUE, regs[v])
            built = sorted({a[3][3] for a in aggs})
            where = "%s:%d" % (body.file, aggs[0][4]) if aggs else body.where
            ok = built == [v]
            detail = "arm %s builds %s" % (v, built or "no Value")
            if ok:
                seeds = payload_seeds(body, place[0], v)
                der = mir.derives(body, seeds)
                src_ok = bool(seeds) and all(a[3][4] and op_derived(a[3][4][0], der) for a in aggs)
                if not src_ok:
                    ok = False
                    detail = "arm %s builds Value::%s from something that is not the payload of self" % (v, v)
            n += 1
            ctx.ob("T-ID", key, ok, detail, where)
        ctx.floor("T-ID", tag + "variant rows of " + fn, n, 16)


# ------------------------------------------------------------------------------------------ T-KEEP
def rule_t_keep(ctx, f, tag):
    n = 0
    for adt in CONTAINERS:
        if adt not in f.adts:
            continue
        fields = [x[0] for x in f.adts[adt]["variants"][0]["fields"]]
        short = adt.rsplit("::", 1)[1]
        for fn in ID_FUNCS:
            body = ctx.one(f.find(name=fn, adt=adt, trait=""), "%s%s::%s" % (tag, short, fn))
            aggs = aggregates(body, adt)
            ctx.need(aggs, "%sconstruction of %s in %s::%s" % (tag, short, short, fn))
            for b, i, pl, rv, ln in aggs:
                names = rv[5]
                for fld in fields:
                    key = "%s%s::%s:%s" % (tag, short, fn, fld)
                    if fld not in names:
                        ctx.ob("T-KEEP", key, False, "field %s not set explicitly" % fld, "%s:%d" % (body.file, ln))
                        continue
                    op = rv[4][names.index(fld)]
                    seeds = field_seeds(body, 1, fld)
                    der = mir.derives(body, seeds)
                    direct = mir.op_place(op) is not None and mir.op_place(op)[0] == 1 and \
                        (mir.place_fields(mir.op_place(op)) or [None])[0] == fld
                    ok = direct or (bool(seeds) and op_derived(op, der))
                    n += 1
                    ctx.ob("T-KEEP", key, ok,
                           "%s.%s of the result derives from self.%s" % (short, fld, fld) if ok else
                           "%s.%s of the result does not derive from self.%s" % (short, fld, fld),
                           "%s:%d" % (body.file, ln))
    ctx.floor("T-KEEP", tag + "container fields carried over", n, 18)


# ------------------------------------------------------------------------------------------ T-SIG
def returns_exactly_field(body, field):
    """every value stored to the return place is `&self.<field>` (whole field)"""
    rets = mir.ret_values(body)
    if not rets:
        return False
    for b, i, rv, ln in rets:
        ops = mir.rvalue_operands(rv)
        if len(ops) != 1:
            return False
        o = mir.origin(body, ops[0])
        if rv[0] == "ref":
            pl = rv[2]
            if pl[1] and pl[1][-1] == "*":
                o = mir.origin(body, ["c", [pl[0], pl[1][:-1]]])
            else:
                o = ("ref", pl)
        if o[0] not in ("ref", "place"):
            return False
        pl = o[1]
        if pl[0] != 1:
            return False
        proj = [p for p in pl[1] if p != "*"]
        if len(proj) != 1 or not (isinstance(proj[0], list) and proj[0][0] == "." and proj[0][2] == field):
            return False
    return True


# Self types whose `Type::SIGNATURE` is the string signature (zvariant/src/type/libstd.rs, str.rs: all `&Signature::Str`;
# `&T` forwards to `T`), confirmed by reading.
STRINGS = {"str", "zvariant::str::Str", "alloc::string::String"}
SIG_CONST = re.compile(r"^<(.+) as zvariant::r#type::Type>::SIGNATURE$")


def const_sig_matches(k, payload_ty):
    """the constant returned for a variant is `<P as Type>::SIGNATURE` for the variant's payload type P"""
    want = norm_type(payload_ty)
    boxed_value = VALUE in payload_ty
    if "cargs" in k:
        m = SIG_CONST.match(k["cargs"])
        if not m:
            return False, "constant %s is not a Type::SIGNATURE" % k["cargs"]
        got = norm_type(m.group(1))
        ok = got == want or (got in STRINGS and want in STRINGS) or (boxed_value and got in (VALUE, "alloc::boxed::Box"))
        return ok, "returns <%s>::SIGNATURE for a payload of type %s" % (m.group(1), payload_ty)
    pv = k.get("pv")
    if isinstance(pv, dict) and "agg" in pv:
        ok = boxed_value and pv["agg"] == "zvariant_utils::signature::Signature::Variant" and not pv.get("items")
        return ok, "returns &%s for a payload of type %s" % (pv["agg"], payload_ty)
    return False, "constant of unknown value (%s)" % sorted(k)


def rule_t_sig(ctx, f, tag):
    body = ctx.one(f.find(name="value_signature", adt=VALUE, trait=""), tag + "Value::value_signature")
    sb, place, arms, other = ctx.one(value_switches(body, f), tag + "switch in value_signature")
    tab = arm_table(body, f, sb, arms, other)
    regs = exclusive_regions(body, tab)
    n_stored = 0
    n_const = 0
    for v in f.adts[VALUE]["variants"]:
        name = v["name"]
        key = "%svalue_signature:%s" % (tag, name)
        if name not in tab:
            ctx.ob("T-SIG", key, False, "variant has no arm", body.where)
            continue
        pty = v["fields"][0][1] if v["fields"] else ""
        padt = norm_type(pty)
        stores = padt in f.adts and any(x[0] == "signature" for x in f.adts[padt]["variants"][0]["fields"]) \
            and str(f.adts[padt].get("kind")).lower() == "struct" and padt != "zvariant_utils::signature::Signature"
        reg = regs[name]
        cs = [c for c in mir.calls(body) if c.b in reg]
        if stores:
            n_stored += 1
            seeds = payload_seeds(body, place[0], name)
            der = mir.derives(body, seeds, through_calls=False)
            good = []
            for c in cs:
                cb = f.byid(c.callee)
                if c.args and op_derived(c.args[0], der) and cb is not None and cb.d.get("impl_adt") == padt \
                        and returns_exactly_field(cb, "signature"):
                    good.append(c)
            ok = len(good) == 1 and len(cs) == 1
            if ok:
                # the call result is what flows to the return place
                d2 = mir.derives(body, {good[0].dest[0]}, through_calls=False)
                ok = mir.RET in d2
            ctx.ob("T-SIG", key, ok,
                   "returns the signature stored in the %s payload" % name if ok else
                   "arm of %s does not return payload.signature (calls: %s)" % (name, [c.callee for c in cs]),
                   cs[0].where if cs else body.where)
        else:
            consts = []
            for b, i, pl, rv, ln in mir.assignments(body):
                if b in reg:
                    for op in mir.rvalue_operands(rv):
                        k = mir.op_const(op)
                        if k is not None and ("cdef" in k or "promoted" in k):
                            consts.append(k)
            ok = not cs and len(consts) == 1
            detail = "arm of %s is not a single constant (calls %s, consts %d)" % (name, [c.callee for c in cs], len(consts))
            lines = [ln for b, i, pl, rv, ln in mir.assignments(body) if b in reg]
            if ok:
                ok, detail = const_sig_matches(consts[0], pty)
            n_const += 1
            ctx.ob("T-SIG", key, ok, detail, "%s:%d" % (body.file, lines[0]) if lines else body.where)
    ctx.floor("T-SIG", tag + "variants with a stored signature", n_stored, 3)
    ctx.floor("T-SIG", tag + "variants with a constant signature", n_const, 12)


# ------------------------------------------------------------------------------------------ T-INV
def rule_t_inv(ctx, f, tag):
    IN, OUT, INO = {}, {}, {}
    where = {}
    for b in f.find(name="from", trait="core::convert::From", crate="zvariant"):
        tgt = b.d.get("impl_adt")
        if tgt not in (VALUE, OWNED):
            continue
        arg = trait_arg(b.d.get("impl_trait_full"), "core::convert::From")
        if arg is None:
            continue
        key = norm_type(arg)
        built = {a[3][3] for a in aggregates(body=b, adt=VALUE)}
        if not built:
            continue   # delegating impl (no variant chosen here)
        (IN if tgt == VALUE else INO).setdefault(key, set()).update(built)
        where.setdefault(("in", key), b.where)
    n_out = 0
    for b in f.find(name="try_from", trait="core::convert::TryFrom", crate="zvariant"):
        arg = trait_arg(b.d.get("impl_trait_full"), "core::convert::TryFrom")
        if arg is None or norm_type(arg) != VALUE:
            continue
        if b.d.get("impl_adt") in (VALUE, OWNED):
            continue
        if b.file.endswith("structure.rs"):
            continue   # tuple impls: delegate to Structure
        sws = value_switches(b, f)
        if not sws:
            continue   # delegating impl
        key = norm_type(b.d.get("impl_self"))
        for sb, place, arms, other in sws:
            n_out += 1
            inc = [a for a in aggregates(b, "zvariant::error::Error") if a[3][3] == "IncorrectType"]
            inc_blocks = {a[0] for a in inc}
            # R-FALL: the fall-through must construct IncorrectType
            fall = mir.reachable(b, [other])
            okf = bool(inc_blocks & fall) and not mir.otherwise_is_unreachable(b, sb)
            ctx.ob("T-INV", "%sfallthrough:%s" % (tag, b.id), okf,
                   "unmatched variants yield Error::IncorrectType" if okf else
                   "the catch-all of the variant switch does not yield Error::IncorrectType", b.where)
            acc = set()
            for v, tgt_b in arms.items():
                if not (inc_blocks & mir.reachable(b, [tgt_b])):
                    acc.add(v)
            OUT.setdefault(key, set()).update(acc)
            where.setdefault(("out", key), b.where)
    pairs = 0
    for key in sorted(set(IN) | set(OUT)):
        if key in IN:
            ok = len(IN[key]) == 1
            ctx.ob("T-INV", "%sinto-unique:%s" % (tag, key), ok,
                   "From<%s> for Value builds %s" % (key, sorted(IN[key])), where.get(("in", key), "-"))
        if key in OUT:
            ok = len(OUT[key]) == 1
            ctx.ob("T-INV", "%sfrom-unique:%s" % (tag, key), ok,
                   "TryFrom<Value> for %s accepts %s" % (key, sorted(OUT[key])), where.get(("out", key), "-"))
        if key in IN and key in OUT:
            pairs += 1
            ok = IN[key] == OUT[key]
            ctx.ob("T-INV", "%sinverse:%s" % (tag, key), ok,
                   "%s -> Value::%s -> %s" % (key, "/".join(sorted(IN[key])), key) if ok else
                   "From<%s> builds %s but TryFrom<Value> for %s accepts %s" % (key, sorted(IN[key]), key, sorted(OUT[key])),
                   where.get(("out", key), "-"))
    for key in sorted(INO):
        if key in IN:
            ok = INO[key] == IN[key]
            ctx.ob("T-INV", "%sowned:%s" % (tag, key), ok,
                   "From<%s> for OwnedValue builds %s, for Value %s" % (key, sorted(INO[key]), sorted(IN[key])),
                   where.get(("in", key), "-"))
    ctx.floor("T-INV", tag + "types convertible in both directions", pairs, 19)
    ctx.floor("T-INV", tag + "TryFrom<Value> variant switches", n_out, 40)


# ------------------------------------------------------------------------------------------ H-EQ
def is_hash_call(c):
    return c.is_("hash") and ("core::hash::Hash" in c.declared or "core::hash::Hash" in c.fnargs
                              or "core::hash" in c.callee)


def rule_h_eq(ctx, f, tag):
    body = ctx.one(f.find(name="hash", adt=VALUE, trait="core::hash::Hash"), tag + "<Value as Hash>::hash")
    eq = ctx.one(f.find(name="eq", adt=VALUE, trait="core::cmp::PartialEq"), tag + "<Value as PartialEq>::eq")
    ctx.ob("H-EQ", tag + "eq-is-structural-derive", "PartialEq" in (eq.d.get("macro") or ""),
           "PartialEq for Value is %s" % ("derived (compares variant and whole payload)" if eq.d.get("macro") else "hand-written"),
           eq.where)
    sb, place, arms, other = ctx.one(value_switches(body, f), tag + "switch in Value::hash")
    tab = arm_table(body, f, sb, arms, other)
    regs = exclusive_regions(body, tab)
    n = 0
    for v in [x["name"] for x in f.adts[VALUE]["variants"]]:
        key = "%shash:%s" % (tag, v)
        if v not in tab:
            ctx.ob("H-EQ", key, False, "variant has no arm", body.where)
            continue
        reg = regs[v]
        seeds = payload_seeds(body, place[0], v)
        der = mir.derives(body, seeds)
        # everything derived from self by other routes than this variant's payload
        hcalls = [c for c in mir.calls(body) if c.b in reg and is_hash_call(c)]
        ok = True
        why = "feeds the hasher with the %s payload" % v
        if not hcalls:
            why = "arm of %s feeds nothing to the hasher (consistent with ==, only weaker)" % v
        for c in hcalls:
            a0 = c.args[0]
            locs = mir.operand_locals(a0)
            from_payload = any(l in der for l in locs)
            konst = const_only(body, a0)
            if not (from_payload or konst):
                ok = False
                why = "arm of %s hashes data that is not its payload" % v
        n += 1
        ctx.ob("H-EQ", key, ok, why, hcalls[0].where if hcalls else body.where)
        if v == "F64":
            zero_ok = False
            detail = "no comparison of the payload with 0.0 in the F64 arm"
            w = body.where
            for cb, op, l, r, tt, ft, ln in mir.cmp_switches(body):
                if cb not in reg and cb != tab[v] or op not in ("Eq", "Ne"):
                    continue
                kl, kr = mir.resolve_const(body, l), mir.resolve_const(body, r)
                var, k = (l, kr) if kr is not None else (r, kl)
                if k is None or str(k.get("v")) not in ("0f64", "-0f64") or not op_derived(var, der):
                    continue
                eq_edge = tt if op == "Eq" else ft
                ne_edge = ft if op == "Eq" else tt
                only_eq = mir.reachable(body, [eq_edge]) - mir.reachable(body, [ne_edge])
                hz = [c for c in hcalls if c.b in only_eq]
                indep = bool(hz) and all(const_only(body, c.args[0]) for c in hz)
                zero_ok = indep
                w = "%s:%d" % (body.file, ln)
                detail = ("on `payload == 0.0` the hashed bytes do not depend on the payload" if indep else
                          "on `payload == 0.0` the hashed bytes still depend on the payload (+0.0/-0.0 hash differently)")
                break
            ctx.ob("H-EQ", tag + "hash:F64:zero-normalised", zero_ok, detail, w)
    ctx.floor("H-EQ", tag + "variant arms of Value::hash", n, 16)


def const_only(body, op, depth=0):
    """the operand's value is computed from constants only (through refs, copies, casts and calls
    all of whose arguments are constant)"""
    if depth > 8:
        return False
    if op[0] == "k":
        return True
    o = mir.origin(body, op)
    if o[0] == "const":
        return True
    if o[0] == "call":
        return all(const_only(body, a, depth + 1) for a in o[1].args)
    if o[0] in ("ref", "place"):
        pl = o[1]
        defs = mir.defs_of(body, pl[0])
        if not defs or is_arg(body, pl[0]):
            return False
        for d in defs:
            if d[0] == "call":
                if not all(const_only(body, a, depth + 1) for a in d[1].args):
                    return False
            else:
                if not all(const_only(body, x, depth + 1) for x in mir.rvalue_operands(d[4])):
                    return False
        return True
    if o[0] == "rv":
        return all(const_only(body, x, depth + 1) for x in mir.rvalue_operands(o[1]))
    return False


# ------------------------------------------------------------------------------------------ H-DERIVE
def payload_closure(f):
    """workspace ADTs reachable through field types from Value's payloads"""
    seen, work = set(), [VALUE]
    while work:
        a = work.pop()
        if a in seen or a not in f.adts:
            continue
        seen.add(a)
        for v in f.adts[a]["variants"]:
            for fld in v["fields"]:
                for m in re.findall(r"[A-Za-z_][\w]*(?:::[A-Za-z_#][\w#]*)+", fld[1]):
                    if m in f.adts and m not in seen:
                        work.append(m)
    return seen


def rule_h_derive(ctx, f, tag):
    n = 0
    for adt in sorted(payload_closure(f)):
        if adt == VALUE:
            continue   # hand-written Hash next to derived PartialEq: decided arm by arm in H-EQ
        hs = f.find(name="hash", adt=adt, trait="core::hash::Hash")
        eq = f.find(name="eq", adt=adt, trait="core::cmp::PartialEq")
        eq = [b for b in eq if norm_type(trait_arg(b.d.get("impl_trait_full"), "core::cmp::PartialEq") or adt) == adt]
        if not hs or not eq:
            continue
        hd = all("Hash" in (b.d.get("macro") or "") for b in hs)
        ed = all("PartialEq" in (b.d.get("macro") or "") for b in eq)
        n += 1
        ok = not (hd and not ed)
        ctx.ob("H-DERIVE", "%s%s" % (tag, adt), ok,
               "Hash %s, PartialEq %s" % ("derived" if hd else "hand-written", "derived" if ed else "hand-written"),
               hs[0].where)
    ctx.floor("H-DERIVE", tag + "payload types with Hash and PartialEq", n, 6)


# ------------------------------------------------------------------------------------------ F-CMP
def rule_f_cmp(ctx, f, tag):
    cmp_ = ctx.one(f.find(name="cmp", adt=VALUE, trait="core::cmp::Ord"), tag + "<Value as Ord>::cmp")
    fam = f.family(cmp_)
    n_sw = 0
    bad = []
    for b in fam:
        for sb, place, arms, other in value_switches(b, f, only_args=False):
            n_sw += 1
            # blocks on the fall-through side: reachable from `otherwise`
            if mir.otherwise_is_unreachable(b, sb):
                continue
            fall = mir.reachable(b, [other])
            for blk, i, pl, rv, ln in mir.assignments(b):
                if blk in fall and rv[0] == "agg" and rv[1] == "adt" and rv[2] == ORDERING and rv[3] == "Equal":
                    d = mir.derives(b, {pl[0]}, through_calls=False)
                    if pl[0] == mir.RET or mir.RET in d:
                        bad.append((b, ln))
    seen = set()
    for b, ln in bad:
        if b.id in seen:
            continue
        seen.add(b.id)
    ctx.ob("F-CMP", tag + "Value::cmp:fallthrough-constant-Equal", not bad,
           "no constant Ordering::Equal on a variant fall-through of Value::cmp" if not bad else
           "Value::cmp returns a literal Ordering::Equal for operand pairs not matched by an arm "
           "(e.g. arrays whose partial_cmp is None because of a NaN element): cmp == Equal while == is false",
           "%s:%d" % (bad[0][0].file, bad[0][1]) if bad else cmp_.where)
    # F-TOTAL (added after seeded change C08): `==` and `partial_cmp` treat -0.0 and +0.0 as equal, `f64::total_cmp`
    # does not. So `cmp` may consult total_cmp only where partial_cmp has already said None (NaN): inside the closure
    # given to `partial_cmp(..).unwrap_or_else(..)`, or under the None arm of a match on its result.
    for b in fam:
        for c in mir.calls(b):
            if not (c.is_("total_cmp") and "f64" in c.callee):
                continue
            ok = False
            if b.id != cmp_.id:
                # a closure: how is it used in its parent?
                for pb in fam:
                    for pc in mir.calls(pb):
                        if pc.callee.rsplit("::", 1)[-1] in ("unwrap_or_else", "map_or_else", "or_else") and pc.args:
                            uses_closure = any(mir.origin(pb, a)[0] == "rv" and mir.origin(pb, a)[1][0] == "agg" and
                                               mir.origin(pb, a)[1][2] == b.id for a in pc.args[1:])
                            ro = mir.origin(pb, pc.args[0])
                            if uses_closure and ro[0] == "call" and ro[1].is_("partial_cmp"):
                                ok = True
            else:
                for sb, place, adt, arms, other in mir.discr_switches(b, None):
                    if not adt.endswith("option::Option"):
                        continue
                    so = mir.origin(b, ["c", [place[0], []]])
                    if so[0] == "call" and so[1].is_("partial_cmp"):
                        none_edge = arms.get("0", other)
                        if none_edge is not None and mir.block_dominates(b, none_edge, c.b):
                            ok = True
            ctx.ob("F-CMP", tag + "Value::cmp:total_cmp-only-after-partial_cmp-None", ok,
                   "total_cmp is consulted only where partial_cmp returned None" if ok else
                   "total_cmp decides the order of two floats that partial_cmp/== can compare: -0.0 and +0.0 are == but cmp != Equal "
                   "(two equal keys can then coexist in a Dict)", c.where)
    # the comparison must exist at all: cmp consults partial_cmp or compares payloads
    uses = [c for b in fam for c in mir.calls(b) if c.is_("partial_cmp", "total_cmp", "cmp")]
    ctx.floor("F-CMP", tag + "comparisons consulted by Value::cmp", len(uses), 1)


# ------------------------------------------------------------------------------------------ run
def fn_refs(f, body):
    """paths of every function the family of `body` calls or mentions as a function item (`map(Value::new)`)"""
    out = set()
    for g in f.family(body):
        for c in mir.calls(g):
            out.add(c.callee)   # the resolved callee: `Self::from(&v[..])` is <Array as From<&[T]>>::from, not From::from
            for a in c.args:
                if a[0] == "k" and a[1].get("fn"):
                    out.add(a[1]["fn"])
        for bi, i, pl, rv, ln in mir.assignments(g):
            for op in mir.rvalue_operands(rv):
                if op[0] == "k" and op[1].get("fn"):
                    out.add(op[1]["fn"])
    return {x for x in out if x}


def rule_t_elem(ctx, f, tag):
    """T-ELEM (added after seeded change C08b): an `Array` reports `a` + `T::SIGNATURE` as its signature, so every
    element must be stored in the form that has that signature. For `T = Value` that is the *wrapped* form
    `Value::Value(Box<..>)`, which only `Value::new` produces; `Into::into` stores the bare inner value. Every generic
    constructor `From<..T..> for Array` therefore converts its elements with `Value::new` (or delegates to a sibling
    that does) and never with `Into::into` / `From::from` -- the sibling constructors must agree."""
    ARR = "zvariant::array::Array"
    n = 0
    for b in f.find(name="from", trait="core::convert::From", crate="zvariant"):
        if b.d.get("impl_adt") != ARR:
            continue
        arg = trait_arg(b.d.get("impl_trait_full"), "core::convert::From") or ""
        if not re.search(r"(^|[^\w])T($|[^\w])", arg):
            continue   # not generic over the element type
        n += 1
        refs = fn_refs(f, b)
        uses_new = any(r.startswith(VALUE + "::") and r.endswith("::new") for r in refs)
        delegates = any(r.startswith("<" + ARR) and r.endswith("::from") and r != b.id for r in refs)
        bare = sorted(r for r in refs if r in ("core::convert::Into::into", "core::convert::From::from")
                      or (r.endswith("::into") and "Into<" in r and "Value" in r))
        ok = (uses_new or delegates) and not bare
        ctx.ob("T-ELEM", "%sarray-elements-through-Value::new:%s" % (tag, norm_type(arg)), ok,
               "elements are converted with %s" % ("Value::new" if uses_new else "a sibling Array::from") if ok else
               "elements of Array::from(%s) are converted with %s: a slice of Value / OwnedValue is stored unwrapped although the "
               "array reports element signature `v`" % (arg, bare or "something other than Value::new"), b.where)
    ctx.floor("T-ELEM", tag + "generic From<..T..> for Array constructors", n, 3)


def check_config(ctx, f, tag):
    ctx.need([f.adts.get(VALUE)] if f.adts.get(VALUE) else [], tag + "ADT " + VALUE)
    rule_t_id(ctx, f, tag)
    rule_t_keep(ctx, f, tag)
    rule_t_sig(ctx, f, tag)
    rule_t_inv(ctx, f, tag)
    rule_h_eq(ctx, f, tag)
    rule_h_derive(ctx, f, tag)
    rule_f_cmp(ctx, f, tag)
    rule_t_elem(ctx, f, tag)


def run(ctx):
    ctx.explanation = (
        "Switch tables of zvariant's Value extracted from MIR (K1: D-Bus; K2: +gvariant Maybe, option-as-array): "
        "try_clone/try_to_owned/try_into_owned map variant i to variant i from i's payload; containers carry every field "
        "(incl. signature) over; value_signature returns the stored signature for container variants and <payload type>::SIGNATURE "
        "otherwise; From<T> for Value and TryFrom<Value> for T tables are mutually inverse and every TryFrom falls through "
        "to IncorrectType; Hash feeds payload-derived data in every arm, zero-normalises F64, PartialEq is the structural "
        "derive; no payload type pairs a derived Hash with a hand-written PartialEq; Value::cmp has no constant-Equal fall-through.")
    ctx.not_decided = ("the algebraic laws over values (NaN totality/transitivity, nested container equality); conversions of tuple/derive-generated types.")
    check_config(ctx, ctx.facts("K1"), "")
    check_config(ctx, ctx.facts("K2"), "K2:")
