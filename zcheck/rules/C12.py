"""C12 — Parsing hostile message bytes never crashes (DESIGN §5.C12).

  M-AUDIT   R-PANIC over the call-graph closure of Message::from_bytes / from_raw_parts, header(), primary_header(),
            body(), Body::{deserialize, deserialize_unchecked, signature, len, data}, Debug / Display of Message,
            Header / Fields / QuickFields / FieldPos accessors and PrimaryHeader::read*: every panic-capable site in
            crates zbus and zbus_names reachable from them is discharged by a dominating guard, the 64-bit arithmetic
            assumption or a reviewed table line. (Sites inside zvariant / zvariant_utils reached from here are audited
            by C04 with the same machinery.)
  M-LEN     from_raw_parts establishes bytes.len() >= header length + padding (+ body length) before constructing the
            message: the comparisons dominate the construction of `Inner`.
"""
from .. import mir, callgraph, panics

META = {
    "technique": "static analysis: panic-site audit over the MIR call-graph closure of the message parse/accessor entry points",
    "level": "Every panic-capable MIR construct in zbus/zbus_names code reachable from parsing a message and from reading its header, "
             "fields, body and Debug/Display is enumerated and must be discharged by a recognised dominating guard, the 64-bit arithmetic "
             "assumption, or a reviewed table line (the parse-time-validation assumption behind FieldPos::read's expect()s is such a line "
             "and is tied to the length checks of from_raw_parts by rule M-LEN). zvariant internals are covered by C04.",
}

CRATES = ("zbus", "zbus_names", "zvariant", "zvariant_utils")
MSG = "zbus::message::Message"


def roots(f):
    r = set()
    for b in f.all_bodies("zbus"):
        if b.root != b.id:
            continue
        adt = b.d.get("impl_adt") or ""
        t = b.d.get("impl_trait")
        if adt == MSG and (t in (None, "core::fmt::Debug", "core::fmt::Display") and b.name in (
                "from_bytes", "from_raw_parts", "header", "primary_header", "body", "fmt", "message_type", "data", "recv_position",
                "quick_fields")):
            r.add(b.id)
        if adt in ("zbus::message::body::Body",) and t in (None, "core::fmt::Debug"):
            r.add(b.id)
        if adt in ("zbus::message::fields::QuickFields", "zbus::message::fields::FieldPos", "zbus::message::header::PrimaryHeader",
                   "zbus::message::header::Header", "zbus::message::fields::Fields") and \
                (t is None or t.startswith("core::fmt") or t.startswith("serde_core::de")) and \
                b.name not in ("new", "set_flags", "set_serial_num", "set_body_len", "into_primary", "primary_mut", "fields_mut"):
            r.add(b.id)
        # serde impls of the message module (reached through serde's generic dispatch inside zvariant)
        if "zbus::message::" in b.id and (t or "").startswith("serde_core::de::"):
            r.add(b.id)
    return r


def edge_ok(f):
    """serde's generic dispatch inside zvariant fans out to every workspace Deserialize/Visitor impl; for this property
    only the message module's impls matter (they are roots), so edges from zvariant code into other zbus code are cut."""
    def ok(src, dst):
        s, d = f.bodies.get(src), f.bodies.get(dst)
        if s is None or d is None:
            return True
        if s.crate in ("zvariant", "zvariant_utils") and d.crate in ("zbus", "zbus_names"):
            return "zbus::message::" in d.id or d.crate == "zbus_names"
        return True
    return ok


AUDITS = [("K1", roots, CRATES)]  # table authoring only (tools/mk_panic_table.py)


def run(ctx):
    ctx.explanation = ("R-PANIC over the closure of the message parsing and accessor entry points, restricted to zbus + zbus_names "
                       "bodies; plus the length-check clause of from_raw_parts that the accessors' expect()s rely on.")
    ctx.not_decided = "panics inside third-party crates; zvariant internals (audited by C04)."
    ctx.assumptions.append("64-bit usize arithmetic on lengths/positions")
    f = ctx.facts("K1")
    rs = roots(f)
    ctx.floor("M-AUDIT", "message parse/accessor roots", len(rs), 20)
    panics.audit(ctx, f, rs, "M-AUDIT", crates=CRATES, edge_ok=edge_ok(f))
    m_len(ctx, f)
    m_valid(ctx, f)


def m_valid(ctx, f):
    """M-VALID (added after seeded change C12b): FieldPos::read re-validates the cached header fields with `expect`
    (table line "validated when the header was parsed"). That assumption is the decode path of the header fields:
    they are decoded as dynamic `Value`s, so the visitors that build Value::ObjectPath / Value::Signature from wire
    strings must use validating constructors — an `*_unchecked` constructor there lets an invalid PATH field through
    parsing and `Message::header()` then panics."""
    n = 0
    for b in f.all_bodies("zvariant"):
        if not ((b.d.get("impl_adt") or "").endswith("value::ValueSeed") and (b.d.get("impl_trait") or "").endswith("de::Visitor")):
            continue
        if b.root != b.id and f.bodies.get(b.root) is None:
            continue
        for c in mir.calls(b):
            n += 1
            if c.callee.rsplit("::", 1)[-1].endswith("_unchecked") and ("ObjectPath" in c.callee or "Signature" in c.callee or "Str" in c.callee):
                ctx.ob("M-VALID", "%s:%s" % (b.name, c.callee.rsplit("::", 2)[-2] + "::" + c.callee.rsplit("::", 1)[-1]), False,
                       "header field values are decoded through ValueSeed::%s, which builds its value with %s: an invalid string in a "
                       "PATH/SIGNATURE field is accepted at parse time and FieldPos::read's expect() panics later" % (b.name, c.callee), c.where)
    ok_n = ctx.floor("M-VALID", "calls inspected in ValueSeed's visitor methods", n, 5)
    ctx.ob("M-VALID", "ValueSeed-visitors-validate", True, "no *_unchecked constructor in ValueSeed's string visitors", "zvariant/src/value.rs")


def m_len(ctx, f):
    """M-LEN: Message::body slices the buffer at inner.body_offset and Data::slice asserts the range; so the
    constructor must have compared the buffer length with the body offset (and body length) before building Inner."""
    frp = ctx.one(f.find(name="from_raw_parts", adt=MSG, trait=""), "Message::from_raw_parts")
    aggs = [(b, i, rv, ln) for b, i, pl, rv, ln in mir.assignments(frp) if rv[0] == "agg" and rv[1] == "adt" and rv[2] == "zbus::message::Inner"]
    ctx.need(aggs, "construction of message::Inner in from_raw_parts")
    for ab, ai, rv, ln in aggs:
        names = rv[5]
        if "body_offset" not in names:
            ctx.ob("M-LEN", "inner-has-body_offset", False, "Inner no longer has a body_offset field: rule needs review", "%s:%d" % (frp.file, ln))
            continue
        bo = rv[4][names.index("body_offset")]
        bo_local = mir.root_local(frp, bo)

        def arith_locals(op, depth=0):
            """user locals an operand is computed from through arithmetic/casts only (stops at named locals)"""
            if op[0] == "k" or depth > 8:
                return set()
            l = mir.root_local(frp, op)
            if l is not None and (frp.locals[l][1] is not None or 0 < l <= frp.d["argc"]):
                return {l}
            o = mir.origin(frp, op)
            out = set()
            if o[0] == "rv":
                for x in mir.rvalue_operands(o[1]):
                    out |= arith_locals(x, depth + 1)
            elif o[0] == "place":
                d = mir.single_def(frp, o[1][0])
                if d and d[0] == "assign":
                    for x in mir.rvalue_operands(d[4]):
                        out |= arith_locals(x, depth + 1)
            return out
        found = None
        for sb, op, l, r, tt, ft, cl in mir.cmp_switches(frp):
            dl, dr = panics._nm(frp, l), panics._nm(frp, r)
            # one side is the buffer length, the other is computed from the very value stored as body_offset
            # (a bound that leaves out the header padding, e.g. header_len + body_len, is not enough)
            lenside = ("len(" in dl and bo_local in arith_locals(r)) or ("len(" in dr and bo_local in arith_locals(l))
            if not lenside:
                continue
            for e, other in ((tt, ft), (ft, tt)):
                if e is not None and mir.block_dominates(frp, e, ab) and panics._single_pred_edge(frp, sb, e):
                    # the other edge must not reach the construction (it is the error return)
                    if other is not None and ab not in mir.reachable(frp, [other]):
                        found = "%s(%s,%s)" % (op, dl, dr)
        ctx.ob("M-LEN", "from_raw_parts:len-vs-body_offset", found is not None,
               ("buffer length compared with the body offset before the message is built: " + found) if found else
               "no comparison of the buffer length with the body offset dominates the construction of the message: "
               "a buffer shorter than header+padding is accepted and Message::body() then panics in Data::slice",
               "%s:%d" % (frp.file, ln))
    # the consumer side: Message::body slices at body_offset
    body = ctx.one(f.find(name="body", adt=MSG, trait=""), "Message::body")
    sl = [c for c in mir.calls(body) if c.is_("Data::<'bytes, 'fds>::slice", "slice") and "Data" in c.callee]
    ctx.floor("M-LEN", "Data::slice call in Message::body", len(sl), 1)
