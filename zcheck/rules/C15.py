"""C15 — Message serial numbers are never zero and never repeat.

Decides the premises of the uniqueness argument (DESIGN §5.C15):
  S-ATOMIC   SERIAL_NUM is an atomic u32 static
  S-RMW      every use of the static is the receiver of an atomic read-modify-write `fetch_add`
             with a non-zero constant step (no load/store pair anywhere)
  S-WHO      the static is used only inside PrimaryHeader::new
  S-ZERO     the counter value that becomes the serial is tested against 0, and every path from
             the zero edge to the header construction performs another fetch_add
  S-FLOW     the serial stored by `new` derives from fetch_add results only
  S-NONZERO  the header field and its public getter are NonZero<u32>
  S-WRITERS  the `serial_num` field is written only by the confirmed writer set
"""
from .. import mir

STATIC = "zbus::message::header::SERIAL_NUM"
HDR = "zbus::message::header::PrimaryHeader"


def static_uses(f, static_id):
    out = []
    for b in f.all_bodies():
        for bi, i, pl, rv, ln in mir.assignments(b):
            for op in mir.rvalue_operands(rv):
                k = mir.op_const(op)
                if k and k.get("static") == static_id:
                    out.append((b, bi, i, pl, ln))
        for c in mir.calls(b):
            for a in c.args:
                k = mir.op_const(a)
                if k and k.get("static") == static_id:
                    out.append((b, c.b, None, None, c.line))
    return out


def run(ctx):
    ctx.explanation = ("Static rules over MIR of zbus (K1): the serial counter is an atomic, is only ever touched by "
                       "fetch_add inside PrimaryHeader::new, the zero result is re-fetched, the stored serial derives "
                       "only from fetch_add results, field and getter are NonZero<u32>, and the field's writer set is "
                       "the confirmed one. These are the premises of 'distinct fetch_add results modulo 2^32, zero discarded'.")
    ctx.not_decided = "user overrides through Builder::serial / set_serial_num (outside the property)."
    f = ctx.facts("K1")
    st = f.statics.get(STATIC)
    ctx.need([st] if st else [], "static " + STATIC)
    ctx.ob("S-ATOMIC", "SERIAL_NUM", "atomic::Atomic<u32>" in st["ty"] or "AtomicU32" in st["ty"],
           "type of SERIAL_NUM is %s" % st["ty"], "zbus/src/message/header.rs")
    new = ctx.one(f.find(name="new", adt=HDR, trait=""), "PrimaryHeader::new")

    uses = static_uses(f, STATIC)
    ctx.floor("S-RMW", "uses of SERIAL_NUM", len(uses), 1)
    n_rmw = 0
    for body, bi, i, pl, ln in uses:
        where = "%s:%d" % (body.file, ln)
        ctx.ob("S-WHO", "use-in:" + body.id, body.id == new.id, "SERIAL_NUM used in %s" % body.id, where)
        # the local holding &SERIAL_NUM must flow only into the receiver of fetch_add
        if pl is None:
            ctx.ob("S-RMW", "direct-arg:" + body.id, False, "static passed directly to a call", where)
            continue
        der = mir.derives(body, {pl[0]}, through_calls=False)
        sinks = []
        for c in mir.calls(body):
            if any(l in der for a in c.args for l in mir.operand_locals(a)):
                sinks.append(c)
        ok = bool(sinks)
        for c in sinks:
            is_rmw = c.is_("fetch_add") and "atomic" in c.callee
            recv = c.args and any(l in der for l in mir.operand_locals(c.args[0]))
            step = mir.resolve_const(body, c.args[1]) if len(c.args) > 1 else None
            step_ok = step is not None and isinstance(step.get("v"), int) and step["v"] != 0
            good = is_rmw and recv and step_ok
            if good:
                n_rmw += 1
            ok = ok and good
            ctx.ob("S-RMW", "sink:%s:%s" % (body.id, c.callee), good,
                   "SERIAL_NUM reaches %s (step=%s)" % (c.callee, step and step.get("v")), c.where)
        # no non-call sink (stores, returns of the reference)
        for b2, i2, pl2, rv2, ln2 in mir.assignments(body):
            if pl2[0] == mir.RET and any(l in der for op in mir.rvalue_operands(rv2) for l in mir.operand_locals(op)):
                ctx.ob("S-RMW", "escape:" + body.id, False, "reference to SERIAL_NUM escapes through return", where)

    # ---- zero skip inside `new`
    fetches = [c for c in mir.calls(new) if c.is_("fetch_add") and "atomic" in c.callee]
    ctx.floor("S-ZERO", "fetch_add calls in PrimaryHeader::new", len(fetches), 1)
    aggs = [(b, i, rv, ln) for b, i, pl, rv, ln in mir.assignments(new)
            if rv[0] == "agg" and rv[1] == "adt" and rv[2] == HDR]
    ctx.need(aggs, "construction of PrimaryHeader in new")
    fetch_locals = mir.derives(new, {c.dest[0] for c in fetches}, through_calls=False)
    for ab, ai, rv, ln in aggs:
        where = "%s:%d" % (new.file, ln)
        names = rv[5]
        idx = names.index("serial_num")
        op = rv[4][idx]
        # S-FLOW: the serial operand derives (through the NonZero conversion calls) from fetch_add only
        o = mir.origin(new, op)
        chain_ok = False
        src = None
        hops = 0
        cur = op
        while hops < 6:
            o = mir.origin(new, cur)
            if o[0] == "call":
                c = o[1]
                if c.is_("fetch_add"):
                    chain_ok = True
                    break
                if c.is_("unwrap", "expect", "try_into", "try_from", "new", "unwrap_unchecked", "new_unchecked", "from") and c.args:
                    cur = c.args[0]
                    hops += 1
                    continue
                src = c.callee
                break
            if o[0] == "place":
                l = o[1][0]
                defs = mir.defs_of(new, l)
                # multi-def local (the `mut serial_num`): every def must be a fetch_add result
                all_fetch = defs and all(
                    (d[0] == "call" and d[1].is_("fetch_add")) or
                    (d[0] == "assign" and d[4][0] == "use" and mir.op_local(d[4][1]) in fetch_locals)
                    for d in defs)
                chain_ok = bool(all_fetch)
                src = "local %s with defs %s" % (mir.place_str(new, o[1]), [d[0] for d in defs])
                break
            src = str(o[0])
            break
        ctx.ob("S-FLOW", "serial-source", chain_ok,
               "serial_num of the new header derives from fetch_add only" if chain_ok else "serial_num derives from %s" % src, where)
        # S-ZERO: a dominating switch on (x == 0) with x from fetch_add; zero edge re-fetches
        found = False
        for sb, t in mir.switches(new):
            sc = mir.switch_scrutinee(new, sb)
            if sc[0] != "rv" or sc[1][0] != "bin" or sc[1][1] not in ("Eq", "Ne"):
                continue
            a, b_ = sc[1][2], sc[1][3]
            ka, kb = mir.resolve_const(new, a), mir.resolve_const(new, b_)
            var = None
            if kb is not None and kb.get("v") == 0 and ka is None:
                var = a
            elif ka is not None and ka.get("v") == 0 and kb is None:
                var = b_
            if var is None or mir.op_local(var) not in fetch_locals:
                continue
            if not mir.block_dominates(new, sb, ab):
                continue
            # zero edge: Eq -> value 1 / otherwise; Ne -> value 0
            vals = dict((v, tg) for v, tg in t[3])
            if sc[1][1] == "Eq":
                zero_edge = t[4] if 0 in vals else vals.get(1)
                nonzero_edge = vals.get(0) if 0 in vals else t[4]
            else:
                zero_edge = vals.get(0) if 0 in vals else t[4]
                nonzero_edge = t[4] if 0 in vals else vals.get(1)
            fetch_blocks = {c.b for c in fetches}
            # every path zero_edge -> aggregate passes a fetch_add: aggregate unreachable when fetch blocks are removed
            reach = mir.reachable(new, [zero_edge], avoid=fetch_blocks)
            refetch = ab not in reach and zero_edge is not None
            found = True
            ctx.ob("S-ZERO", "zero-edge-refetches", refetch,
                   "zero edge (bb%s) of the `== 0` test reaches the header construction %s another fetch_add" % (
                       zero_edge, "only through" if refetch else "WITHOUT"), "%s:%d" % (new.file, t[5]))
        ctx.ob("S-ZERO", "zero-test-present", found,
               "header construction is dominated by a comparison of the fetched counter with 0" if found
               else "no dominating `counter == 0` test before the header is built", where)

    # ---- NonZero types
    adt = f.adts.get(HDR)
    ctx.need([adt] if adt else [], "ADT PrimaryHeader")
    fld = [x for x in adt["variants"][0]["fields"] if x[0] == "serial_num"]
    ctx.need(fld, "field PrimaryHeader.serial_num")
    ctx.ob("S-NONZERO", "field-type", "NonZero<u32>" in fld[0][1], "serial_num: %s" % fld[0][1], "zbus/src/message/header.rs")
    ctx.ob("S-NONZERO", "field-private", "Restricted" in fld[0][2], "visibility %s" % fld[0][2], "zbus/src/message/header.rs")
    getter = f.fnsigs.get(HDR + "::serial_num")
    ctx.need([getter] if getter else [], "getter PrimaryHeader::serial_num")
    ctx.ob("S-NONZERO", "getter-type", "NonZero<u32>" in getter["sig"], "sig %s" % getter["sig"], "zbus/src/message/header.rs")

    # ---- writers of the field
    allowed = {
        HDR + "::new": "fresh serial from the counter",
        HDR + "::set_serial_num": "documented user override (Builder::serial / reply construction); outside the property",
    }
    writers = []
    for b in f.all_bodies("zbus"):
        for bi, i, pl, rv, ln in mir.assignments(b):
            w = False
            if rv[0] == "agg" and rv[1] == "adt" and rv[2] == HDR:
                w = True
            for p in pl[1]:
                if isinstance(p, list) and p[0] == "." and p[2] == "serial_num" and p[3] == HDR:
                    w = True
            if w:
                writers.append((b, ln))
    ctx.floor("S-WRITERS", "writers of PrimaryHeader.serial_num", len(writers), 2)
    for b, ln in writers:
        root = b.root
        derived_clone = root == "<%s as core::clone::Clone>::clone" % HDR and "Clone" in (b.d.get("macro") or "")
        ok = root in allowed or "serde_core::de::" in root or derived_clone
        ctx.ob("S-WRITERS", "writer:" + root, ok,
               allowed.get(root, ("derived Clone (copy of the same header)" if derived_clone else "derived Deserialize (parsing received bytes)") if ok else "unexpected writer of serial_num"),
               "%s:%d" % (b.file, ln))
    # callers of set_serial_num
    callers = []
    for b in f.all_bodies("zbus"):
        for c in mir.calls_to(b, "PrimaryHeader::set_serial_num"):
            callers.append((b, c))
    allowed_callers = {"zbus::message::builder::Builder::<'a>::serial": "public override API"}
    for b, c in callers:
        ctx.ob("S-WRITERS", "set_serial_num-caller:" + b.root, b.root in allowed_callers,
               allowed_callers.get(b.root, "unexpected caller of set_serial_num"), c.where)
