"""C25 — ObjectManager signals track the managed object set (DESIGN §5.C25).

  EMIT-ADDED       ObjectServer::add_arc_interface: InterfacesAdded is emitted only on the `added == true` edge;
                   from that edge an `Ok` is reached only through the manager-path test or the
                   "a manager was added" branch; from the `Some(manager_path)` edge an `Ok` is reached only
                   through an awaited `ObjectManager::interfaces_added`; its emitter derives from the manager
                   path returned by get_child_mut; the emitted interface map is filled (HashMap::insert) with
                   the result of Node::get_properties before the emission.
  EMIT-MANAGER     same function, branch `name == ObjectManager::name()`: Node::get_managed_objects is called
                   and, in the loop over its result, every iteration emits InterfacesAdded before the next one.
  EMIT-REMOVED     ObjectServer::remove: from the `remove_interface == true` edge an `Ok` is reached only through
                   the manager-path test; from its `Some` edge only through an awaited
                   `ObjectManager::interfaces_removed` whose emitter derives from the manager path and whose
                   interface list derives from `I::name()`.
  MANAGER-PATH     Node::get_child_mut: the manager path it returns is set only under
                   `interfaces.contains_key(ObjectManager::name())` and from that node's `path`.
  FILTER-SIBLING   the closures in Node::is_empty and Node::get_managed_objects are evaluated symbolically:
                   both reject exactly the same set of interface names, that set equals the interfaces
                   Node::new registers on every node plus ObjectManager, and is_empty can be true only through
                   `!interfaces.keys().any(non-standard)` (further conjuncts, e.g. on children, are allowed).

Not decided: snapshot/delta equivalence over histories; nested managers (get_child_mut reports only the
closest manager while get_managed_objects of an outer manager also lists the inner manager's objects —
observation reported to the lead, no rule); content of the property maps.
"""
from .. import mir, awaits as aw

NODE = "zbus::object_server::node::Node"
OS = "zbus::object_server::ObjectServer"
OM = "zbus::fdo::object_manager::ObjectManager"
IFACE = "zbus::object_server::interface::Interface"

META = {
    "technique": "path/edge reachability for emissions (R-ORDER), derives-from on emitter and payload, symbolic evaluation of the two filter closures (sibling)",
    "level": ("Decides that every successful add/remove beneath a manager passes an awaited InterfacesAdded/InterfacesRemoved emission "
              "addressed from the manager path, that adding a manager emits per managed object, and that the listing filter, the "
              "emptiness predicate and the auto-registered interface set agree. Does not decide that a client replaying the signals "
              "reconstructs the listing for every history, nor nested-manager semantics."),
}


def is_agg(rv, adt, variant=None):
    return rv[0] == "agg" and rv[1] == "adt" and rv[2] == adt and (variant is None or rv[3] == variant)


def main_body(ctx, f, fn_id, what):
    b = ctx.one([x for x in [f.byid(fn_id)] if x is not None], what)
    co = [c for c in f.children.get(fn_id, []) if c.kind == "coroutine" and c.d.get("parent") == fn_id]
    return co[0] if len(co) == 1 else b


def ok_blocks(body):
    return {b for b, i, pl, rv, ln in mir.assignments(body) if pl[0] == mir.RET and is_agg(rv, "core::result::Result", "Ok")}


def callee_id(c):
    return c.c.get("res") or c.c.get("fn") or ""


def tuple_field_locals(body, call, idx):
    """locals assigned from field `idx` of the tuple returned by `call`"""
    out = set()
    for b, i, pl, rv, ln in mir.assignments(body):
        for op in mir.rvalue_operands(rv):
            p = mir.op_place(op)
            if p and p[0] == call.dest[0] and p[1] and isinstance(p[1][0], list) and p[1][0][0] == "." and p[1][0][1] == idx:
                out.add(pl[0])
    return out


def option_switches_on(body, locals_):
    """(block, some_edge, none_edge) for discriminant switches on an Option held in one of locals_"""
    out = []
    for sb, pl, adt, arms, other in mir.discr_switches(body, None):
        if adt != "core::option::Option":
            continue
        base = pl[0]
        if base not in locals_:
            o = mir.origin(body, ["c", pl])
            if not (o[0] in ("place", "ref") and o[1][0] in locals_):
                continue
        some = arms.get("1", other)
        none = arms.get("0", other)
        out.append((sb, some, none))
    return out


def awaited_calls(f, body):
    return {a.call.b for a in aw.awaits(f, body) if a.call is not None}


def bool_edges_of_call(body, call):
    """(switch block, true_edge, false_edge) of switches testing the bool result of `call` (through copies/Not)"""
    out = []
    for sb, c, tt, ft, neg in mir.call_bool_switches(body):
        if c.b == call.b:
            out.append((sb, tt, ft))
    for sb, t in mir.switches(body):
        if t[2] == "bool" and mir.root_local(body, t[1]) == call.dest[0] and not any(x[0] == sb for x in out):
            tt, ft = mir.bool_switch_edges(t)
            out.append((sb, tt, ft))
    return out


def emission_rules(ctx, f, body, rule, tag, gate_call, gate_what, emit_name, extra_avoid_calls=()):
    """Shared by add and remove. gate_call: the call whose `true` result means "something changed"."""
    gcm = [c for c in mir.calls(body) if c.is_("get_child_mut") and NODE in c.callee]
    ctx.need(gcm, "get_child_mut call in " + tag)
    lookup = ctx.one([c for c in gcm if all(mir.block_dominates(body, c.b, o.b) for o in gcm)], "dominating get_child_mut in " + tag)
    mp_locals = tuple_field_locals(body, lookup, 1)
    ctx.need(sorted(mp_locals), "use of the manager path returned by get_child_mut in " + tag)
    mp_sw = option_switches_on(body, mp_locals)
    ctx.floor(rule, tag + ": tests of the manager path", len(mp_sw), 1)
    emits = [c for c in mir.calls(body) if callee_id(c) == OM + "::" + emit_name]
    ctx.floor(rule, tag + ": calls of ObjectManager::" + emit_name, len(emits), 1)
    awaited = awaited_calls(f, body)
    oks = ok_blocks(body)
    ctx.need(sorted(oks), "Ok(..) return in " + tag)
    gates = bool_edges_of_call(body, gate_call)
    ctx.floor(rule, tag + ": tests of " + gate_what, len(gates), 1)
    for c in emits:
        ctx.ob(rule, tag + ":emission-awaited", c.b in awaited,
               "ObjectManager::%s is awaited" % emit_name if c.b in awaited else "the %s future is built but never awaited" % emit_name, c.where)
    true_edges = [tt for sb, tt, ft in gates if tt is not None]
    for c in emits:
        ok = bool(true_edges) and c.b not in mir.reachable(body, [0], avoid=set(true_edges))
        ctx.ob(rule, tag + ":emission-only-when-changed", ok,
               "%s is reachable only through the `%s == true` edge" % (emit_name, gate_what) if ok else
               "%s can be emitted although %s is false (nothing changed)" % (emit_name, gate_what), c.where)
    avoid = {sb for sb, s, n in mp_sw} | {c.b for c in mir.calls(body) if any(c.is_(x) for x in extra_avoid_calls)}
    for sb, tt, ft in gates:
        reach = mir.reachable(body, [tt], avoid=avoid) if tt is not None else set()
        ok = tt is not None and not (reach & oks)
        ctx.ob(rule, tag + ":change-consults-manager", ok,
               "after a successful change, Ok is reached only through the manager-path test" if ok else
               "a successful change can return Ok without looking at the manager path (no signal for a managed object)",
               "%s:%d" % (body.file, mir.term(body, sb)[5]))
    emit_blocks = {c.b for c in emits if c.b in awaited}
    for sb, some, none in mp_sw:
        reach = mir.reachable(body, [some], avoid=emit_blocks)
        ok = not (reach & oks)
        ctx.ob(rule, tag + ":manager-edge-emits", ok,
               "from the Some(manager_path) edge, Ok is reached only through an awaited %s" % emit_name if ok else
               "a path from the Some(manager_path) edge returns Ok without emitting %s" % emit_name,
               "%s:%d" % (body.file, mir.term(body, sb)[5]))
    # emitter derives from the manager path
    der = mir.derives(body, set(mp_locals))
    some_targets = [some for sb, some, none in mp_sw]
    for c in emits:
        if not any(mir.block_dominates(body, s, c.b) for s in some_targets):
            continue   # the emission of the "manager added" branch: addressed from the object's own path
        ok = any(l in der for l in mir.operand_locals(c.args[0]))
        ctx.ob(rule, tag + ":emitter-from-manager-path", ok,
               "the signal emitter derives from the manager path" if ok else
               "the signal is not emitted from the manager's path (clients of the manager never see it)", c.where)
    return lookup, mp_sw, emits


def added_rules(ctx, f):
    body = main_body(ctx, f, OS + "::add_arc_interface", "ObjectServer::add_arc_interface")
    tag = OS + "::add_arc_interface"
    nadd = ctx.one([c for c in mir.calls(body) if callee_id(c) == NODE + "::add_arc_interface"], "Node::add_arc_interface call")
    lookup, mp_sw, emits = emission_rules(ctx, f, body, "EMIT-ADDED", tag, nadd, "added", "interfaces_added",
                                          extra_avoid_calls=("get_managed_objects",))
    some_targets = [some for sb, some, none in mp_sw]
    # payload: map filled from get_properties before the emission
    for c in emits:
        if not any(mir.block_dominates(body, s, c.b) for s in some_targets):
            continue
        gp = [x for x in mir.calls(body) if callee_id(x) == NODE + "::get_properties" and mir.block_dominates(body, x.b, c.b)]
        ctx.ob("EMIT-ADDED", tag + ":properties-read-before-emission", bool(gp),
               "Node::get_properties dominates the emission" if gp else "the emission is not preceded by reading the interface's properties", c.where)
        if not gp:
            continue
        der = set()
        for g in gp:
            der |= mir.derives(body, {g.dest[0]})
        ml = mir.root_local(body, c.args[2]) if len(c.args) > 2 else None
        filled = False
        if ml is not None and ml in der:
            filled = True
        for x in mir.calls(body):
            if x.is_("insert", "extend", "entry") and "hash::map::HashMap" in x.callee and x.args and mir.block_dominates(body, x.b, c.b):
                ro = mir.origin(body, x.args[0])
                if ro[0] in ("ref", "place") and ro[1][0] == ml and any(l in der for a in x.args[1:] for l in mir.operand_locals(a)):
                    filled = True
        ctx.ob("EMIT-ADDED", tag + ":payload-carries-properties", filled,
               "the emitted interface map is filled from the get_properties result" if filled else
               "the emitted interface map does not receive the get_properties result", c.where)

    # ---- manager branch
    gmo = [c for c in mir.calls(body) if callee_id(c) == NODE + "::get_managed_objects"]
    ctx.floor("EMIT-MANAGER", "get_managed_objects calls in ObjectServer::add_arc_interface", len(gmo), 1)
    awaited = awaited_calls(f, body)
    for g in gmo:
        # dominated by the true edge of `name == ObjectManager::name()`
        cond = False
        for sb, c, tt, ft, neg in mir.call_bool_switches(body):
            if not c.is_("eq", "ne"):
                continue
            names = [x for x in mir.calls(body) if x.is_("name") and ("<%s as %s>::name" % (OM, IFACE)) in x.callee]
            dn = set()
            for x in names:
                dn |= mir.derives(body, {x.dest[0]}, through_calls=False)
            if not any(l in dn for a in c.args for l in mir.operand_locals(a)):
                continue
            edge = tt if c.is_("eq") else ft
            if edge is not None and mir.block_dominates(body, edge, g.b):
                cond = True
        ctx.ob("EMIT-MANAGER", tag + ":snapshot-when-manager-added", cond,
               "get_managed_objects runs under `name == ObjectManager::name()`" if cond else
               "get_managed_objects is not controlled by the comparison with ObjectManager::name()", g.where)
        der = mir.derives(body, {g.dest[0]})
        loops = []
        for c in mir.calls(body):
            if c.is_("next") and "Iterator" in c.callee and c.args and any(l in der for l in mir.operand_locals(c.args[0])):
                if g.b in mir.reachable(body, [0]) and c.b in mir.reachable(body, [g.b]):
                    loops.append(c)
        ctx.floor("EMIT-MANAGER", "loops over the managed objects", len(loops), 1)
        for lp in loops:
            sws = option_switches_on(body, {lp.dest[0]})
            emit_blocks = {c.b for c in emits if c.b in awaited}
            for sb, some, none in sws:
                reach = mir.reachable(body, [some], avoid=emit_blocks)
                ok = lp.b not in reach and not (reach & ok_blocks(body))
                ctx.ob("EMIT-MANAGER", tag + ":each-managed-object-emits", ok,
                       "every loop iteration awaits interfaces_added before the next element / Ok" if ok else
                       "a loop iteration can finish without emitting InterfacesAdded", "%s:%d" % (body.file, mir.term(body, sb)[5]))
            ctx.floor("EMIT-MANAGER", "element tests of the managed-object loop", len(sws), 1)


def removed_rules(ctx, f):
    body = main_body(ctx, f, OS + "::remove", "ObjectServer::remove")
    tag = OS + "::remove"
    ri = ctx.one([c for c in mir.calls(body) if callee_id(c) == NODE + "::remove_interface"], "Node::remove_interface call")
    lookup, mp_sw, emits = emission_rules(ctx, f, body, "EMIT-REMOVED", tag, ri, "remove_interface", "interfaces_removed")
    names = [c for c in mir.calls(body) if c.is_("name") and (c.declared.startswith(IFACE + "::") or "as " + IFACE in c.fnargs or IFACE in c.callee)]
    der = set()
    for n in names:
        der |= mir.derives(body, {n.dest[0]})
    for c in emits:
        ok = len(c.args) > 2 and any(l in der for l in mir.operand_locals(c.args[2]))
        ctx.ob("EMIT-REMOVED", tag + ":payload-names-removed-interface", ok,
               "the interface list derives from I::name()" if ok else "the interface list of InterfacesRemoved does not derive from I::name()", c.where)


def manager_path_rule(ctx, f):
    g = ctx.one(f.find(name="get_child_mut", adt=NODE, trait=""), "Node::get_child_mut")
    # the local returned as tuple field 1
    mp = set()
    for b, i, pl, rv, ln in mir.assignments(g):
        if pl[0] == mir.RET and not pl[1] and rv[0] == "agg" and rv[1] == "tuple" and len(rv[4]) > 1:
            l = mir.root_local(g, rv[4][1])
            if l is not None:
                mp.add(l)
    ctx.need(sorted(mp), "manager-path local of get_child_mut")
    names = [x for x in mir.calls(g) if x.is_("name") and ("<%s as %s>::name" % (OM, IFACE)) in x.callee]
    dn = set()
    for x in names:
        dn |= mir.derives(g, {x.dest[0]}, through_calls=False)
    tests = []
    for sb, c, tt, ft, neg in mir.call_bool_switches(g):
        if c.is_("contains_key") and "hash::map::HashMap" in c.callee and len(c.args) > 1:
            ro = mir.origin(g, c.args[0])
            on_if = ro[0] in ("ref", "place") and "interfaces" in mir.place_fields(ro[1])
            key_om = any(l in dn for l in mir.operand_locals(c.args[1]))
            if on_if and key_om and tt is not None:
                tests.append(tt)
    ctx.floor("MANAGER-PATH", "tests `interfaces.contains_key(ObjectManager::name())` in get_child_mut", len(tests), 1)
    n = 0
    for b, i, pl, rv, ln in mir.assignments(g):
        if pl[0] not in mp or pl[1]:
            continue
        where = "%s:%d" % (g.file, ln)
        o = ("rv", rv, b, i) if rv[0] != "use" else mir.origin(g, rv[1])
        if o[0] == "rv" and is_agg(o[1], "core::option::Option", "None"):
            continue
        n += 1
        ok = bool(tests) and b not in mir.reachable(g, [0], avoid=set(tests))
        ctx.ob("MANAGER-PATH", "set-only-under-manager-test", ok,
               "the manager path is set only where the node carries ObjectManager" if ok else
               "the manager path is set without testing for the ObjectManager interface", where)
        src_ok = False
        if o[0] == "rv" and is_agg(o[1], "core::option::Option", "Some"):
            # payload derives from a read of Node.path
            seeds = set()
            for b2, i2, pl2, rv2, ln2 in mir.assignments(g):
                if rv2[0] == "ref" and "path" in mir.place_fields(rv2[2]) and any(
                        isinstance(p, list) and p[0] == "." and p[2] == "path" and p[3] == NODE for p in rv2[2][1]):
                    seeds.add(pl2[0])
            der = mir.derives(g, seeds) if seeds else set()
            src_ok = any(l in der for l in mir.operand_locals(o[1][4][0]))
        ctx.ob("MANAGER-PATH", "value-is-node-path", src_ok,
               "the manager path is the `path` of the node carrying ObjectManager" if src_ok else
               "the manager path value does not derive from Node.path", where)
    ctx.floor("MANAGER-PATH", "assignments of a manager path", n, 1)


# ------------------------------------------------------------------------------------- filter sibling
def iface_of_name_call(c):
    for n in c.names():
        pre = "<"
        suf = " as %s>::name" % IFACE
        if n.startswith(pre) and n.endswith(suf):
            return n[len(pre):-len(suf)]
    return None


def eval_closure(body, scenario):
    """Evaluate a predicate closure whose only data-dependent operations are PartialEq::{eq,ne} between its
    argument and `<T as Interface>::name()` values. scenario = T for "key equals T::name()", or None for
    "key equals none of them". Returns True/False, or a string explaining why the shape is not understood."""
    name_of = {}
    for c in mir.calls(body):
        t = iface_of_name_call(c)
        if t is not None:
            for l in mir.derives(body, {c.dest[0]}, through_calls=False):
                name_of.setdefault(l, set()).add(t)
    env = {}

    def val(op):
        k = mir.op_const(op)
        if k is not None:
            return k.get("v") if isinstance(k.get("v"), bool) else None
        p = op[1]
        if p[1]:
            return None
        return env.get(p[0])

    b = 0
    for _ in range(400):
        blk = body.blocks[b]
        for st in blk["s"]:
            if st[0] != "=":
                continue
            pl, rv = st[1], st[2]
            if pl[1]:
                continue
            if rv[0] == "use":
                v = val(rv[1])
                if v is not None:
                    env[pl[0]] = v
                else:
                    env.pop(pl[0], None)
            elif rv[0] == "un" and rv[1] == "Not":
                v = val(rv[2])
                if v is not None:
                    env[pl[0]] = not v
        t = blk["t"]
        k = t[0]
        if k == "ret":
            v = env.get(mir.RET)
            return v if isinstance(v, bool) else "return value not determined"
        if k == "goto":
            b = t[1]
        elif k == "drop":
            b = t[2]
        elif k == "call":
            c = t[1]
            callee = c.get("res") or c.get("fn") or ""
            short = callee.rsplit("::", 1)[-1]
            if short in ("eq", "ne") and "PartialEq" in callee + (c.get("fnargs") or ""):
                ts = set()
                for a in c["args"]:
                    for l in mir.operand_locals(a):
                        ts |= name_of.get(l, set())
                if len(ts) != 1:
                    return "comparison with %d interface names" % len(ts)
                equal = (list(ts)[0] == scenario)
                env[c["dest"][0]] = equal if short == "eq" else (not equal)
            elif c.get("dest") is not None:
                env.pop(c["dest"][0], None)
            if c["t"] is None:
                return "diverging call"
            b = c["t"]
        elif k == "switch":
            v = val(t[1])
            if v is None:
                return "branch on a value that is not a name comparison"
            tgt = None
            for sv, bb in t[3]:
                if bool(sv) == v and sv in (0, 1):
                    tgt = bb
            b = tgt if tgt is not None else t[4]
        else:
            return "unsupported terminator %s" % k
    return "no return reached"


def predicate_table(f, bodies):
    """for the closures among `bodies` that compare against Interface::name(): {T: bool, None: bool}"""
    out = []
    for b in bodies:
        ts = {iface_of_name_call(c) for c in mir.calls(b)} - {None}
        if not ts or b.kind not in ("Closure", "closure"):
            continue
        table = {t: eval_closure(b, t) for t in sorted(ts)}
        table[None] = eval_closure(b, None)
        out.append((b, table))
    return out


def filter_sibling(ctx, f):
    ie = ctx.one(f.find(name="is_empty", adt=NODE, trait=""), "Node::is_empty")
    gm = ctx.one(f.find(name="get_managed_objects", adt=NODE, trait=""), "Node::get_managed_objects")
    new = ctx.one(f.find(name="new", adt=NODE, trait=""), "Node::new")
    t_ie = predicate_table(f, f.children.get(ie.id, []))
    t_gm = predicate_table(f, f.children.get(gm.id, []))
    pi = ctx.one(t_ie, "name-comparing closure of Node::is_empty")
    pg = ctx.one(t_gm, "name-comparing closure of Node::get_managed_objects")
    sets = {}
    for nm, (b, table) in (("is_empty", pi), ("get_managed_objects", pg)):
        bad = {str(k): v for k, v in table.items() if not isinstance(v, bool)}
        ctx.ob("FILTER-SIBLING", nm + ":closure-understood", not bad,
               "closure evaluated for %d interface names + 'other'" % (len(table) - 1) if not bad else "closure shape not understood: %s" % bad, b.where)
        if bad:
            return
        ctx.ob("FILTER-SIBLING", nm + ":other-interfaces-kept", table[None] is True,
               "a non-standard interface name satisfies the predicate" if table[None] is True else
               "a non-standard interface name does not satisfy the predicate (user interfaces filtered out)", b.where)
        sets[nm] = {t for t, v in table.items() if t is not None and v is False}
        for t, v in table.items():
            if t is not None and v is not False:
                ctx.ob("FILTER-SIBLING", "%s:compared-name-is-filtered:%s" % (nm, t), False,
                       "%s::name() is compared against but not filtered out (inverted comparison?)" % t, b.where)
    ctx.ob("FILTER-SIBLING", "same-filter-set", sets["is_empty"] == sets["get_managed_objects"],
           "is_empty ignores %s; get_managed_objects filters %s" % (sorted(x.rsplit("::", 1)[-1] for x in sets["is_empty"]),
                                                                      sorted(x.rsplit("::", 1)[-1] for x in sets["get_managed_objects"])), ie.where)
    # auto-registered set
    auto = set()
    for c in mir.calls(new):
        if callee_id(c) == NODE + "::add_interface":
            fa = c.fnargs
            if "::add_interface::<" in fa:
                auto.add(fa.split("::add_interface::<", 1)[1].rsplit(">", 1)[0])
    ctx.floor("FILTER-SIBLING", "interfaces registered by Node::new", len(auto), 1)
    want = auto | {OM}
    for nm in ("is_empty", "get_managed_objects"):
        ctx.ob("FILTER-SIBLING", nm + ":filter-set-is-standard-set", sets[nm] == want,
               "filter set = interfaces of Node::new + ObjectManager" if sets[nm] == want else
               "filter set %s differs from Node::new's interfaces + ObjectManager %s" % (
                   sorted(x.rsplit("::", 1)[-1] for x in sets[nm]), sorted(x.rsplit("::", 1)[-1] for x in want)), new.where)
    # is_empty may be true only where `!interfaces.keys().any(non-standard)`: every value flowing into the
    # return place is the constant false or Not(any(..)) over the keys of Node.interfaces with the evaluated closure
    def terminal_sources(body, local, depth=0):
        out = []
        for d in mir.defs_of(body, local):
            if d[0] == "call":
                out.append(("call", d[1]))
                continue
            rv = d[4]
            if d[3][1]:
                out.append(("other", rv))
            elif rv[0] == "use" and mir.op_const(rv[1]) is not None:
                out.append(("const", mir.op_const(rv[1]).get("v")))
            elif rv[0] == "use" and not rv[1][1][1] and depth < 6 and not (0 < rv[1][1][0] <= body.d["argc"]):
                out += terminal_sources(body, rv[1][1][0], depth + 1)
            else:
                out.append(("rv", rv))
        return out

    def is_not_any(rv):
        if not (rv[0] == "un" and rv[1] == "Not"):
            return False
        oo = mir.origin(ie, rv[2])
        if not (oo[0] == "call" and oo[1].is_("any") and "Iterator" in oo[1].callee and len(oo[1].args) > 1):
            return False
        co = mir.origin(ie, oo[1].args[1])
        if not (co[0] == "rv" and co[1][0] == "agg" and co[1][1] == "closure" and co[1][2] == pi[0].id):
            return False
        ko = mir.origin(ie, oo[1].args[0])
        recv = None
        if ko[0] in ("ref", "place"):
            d = mir.single_def(ie, ko[1][0])
            recv = d[1] if d and d[0] == "call" else None
        elif ko[0] == "call":
            recv = ko[1]
        if recv is None or not recv.is_("keys") or not recv.args:
            return False
        ro = mir.origin(ie, recv.args[0])
        return ro[0] in ("ref", "place") and "interfaces" in mir.place_fields(ro[1])

    srcs = terminal_sources(ie, mir.RET)
    n_any = sum(1 for k, v in srcs if k == "rv" and is_not_any(v))
    bad = [(k, (v[:2] if isinstance(v, list) else v)) for k, v in srcs
           if not ((k == "const" and v is False) or (k == "rv" and is_not_any(v)))]
    shape = n_any >= 1 and not bad
    ctx.ob("FILTER-SIBLING", "is_empty:true-only-if-no-nonstandard-interface", shape,
           "is_empty can be true only through !interfaces.keys().any(non-standard)" if shape else
           "is_empty has a result that does not come from `!keys().any(non-standard)` over Node.interfaces: %s" % (bad or "no such source"), ie.where)
    # the get_managed_objects closure is used as a filter over interfaces.keys()
    gco = [b for b in f.children.get(gm.id, []) if b.kind == "coroutine"]
    used = False
    for b in gco:
        for c in mir.calls(b):
            if c.is_("filter") and "Iterator" in c.callee and len(c.args) > 1:
                o2 = mir.origin(b, c.args[1])
                if o2[0] == "rv" and o2[1][0] == "agg" and o2[1][1] == "closure" and o2[1][2] == pg[0].id:
                    used = True
    ctx.ob("FILTER-SIBLING", "get_managed_objects:closure-is-the-filter", used,
           "the evaluated closure is the argument of Iterator::filter" if used else "the name-comparing closure is not used as Iterator::filter predicate", gm.where)


def walk_all(ctx, f):
    """WALK-ALL (added after seeded change C25): the listing walks the whole subtree — in Node::get_managed_objects every
    iteration that takes a node off the work list also puts that node's children on it before the next node is taken
    (or the walk ends with an error). A `continue` placed before the `extend(children)` hides everything below an
    interface-less intermediate node from GetManagedObjects while the per-object signals are still sent."""
    cos = [b for b in f.children.get(NODE + "::get_managed_objects", []) if b.kind == "coroutine" and b.crate == "zbus"]
    body = ctx.one(cos, "coroutine of Node::get_managed_objects")
    pops = [c for c in mir.calls(body) if c.callee.rsplit("::", 1)[-1] in ("pop", "pop_front", "pop_back", "next") and
            ("Vec" in c.callee or "VecDeque" in c.callee) and "Node" in (c.c.get("fnargs") or c.c.get("destty") or "")]
    exts = []
    for c in mir.calls(body):
        if c.callee.rsplit("::", 1)[-1] in ("extend", "push", "push_back", "append", "extend_from_slice") and len(c.args) > 1:
            o = mir.origin(body, c.args[1])
            src = o[1] if o[0] == "call" else None
            ok = False
            if src is not None and src.args:
                so = mir.origin(body, src.args[0])
                if so[0] in ("place", "ref") and "children" in mir.place_fields(so[1]):
                    ok = True
            if o[0] in ("place", "ref") and "children" in mir.place_fields(o[1]):
                ok = True
            if ok:
                exts.append(c)
    ctx.floor("WALK-ALL", "work-list pops in get_managed_objects", len(pops), 1)
    ctx.floor("WALK-ALL", "pushes of a node's children onto the work list", len(exts), 1)
    eb = {c.b for c in exts}
    for pcall in pops:
        if pcall.c["t"] is None:
            continue
        back = mir.reachable(body, [pcall.c["t"]], avoid=eb)
        ok = pcall.b not in back
        ctx.ob("WALK-ALL", "get_managed_objects:children-pushed-every-iteration", ok,
               "every path from taking a node to taking the next one pushes that node's children" if ok else
               "the next node can be taken without having pushed the current node's children: objects below it are missing "
               "from GetManagedObjects / the manager's InterfacesAdded burst", pcall.where)


def node_path_rule(ctx, f):
    """NODE-PATH (added after seeded change C25b): `Node::path` is what `InterfacesAdded` is sent for and what
    `GetManagedObjects` lists the node under, so a node created implicitly at depth k of the descent must record
    the path of *its own* level -- the accumulator that grows by one component per loop iteration -- and not any
    other value (the seed passed the full target path to every created node)."""
    g = ctx.one(f.find(name="get_child_mut", adt=NODE, trait=""), "Node::get_child_mut")
    news = [c for c in mir.calls(g) if c.callee == NODE + "::new" or c.declared == NODE + "::new"]
    # Node::new inside a closure of get_child_mut (`or_insert_with(|| Node::new(..))`): the closure's captures stand
    # for the argument
    closure_news = []
    for k in f.children.get(g.id, []):
        if k.id != g.id and [c for c in mir.calls(k) if c.callee == NODE + "::new" or c.declared == NODE + "::new"]:
            for b_, i_, pl_, rv_, ln_ in mir.assignments(g):
                if rv_[0] == "agg" and rv_[1] == "closure" and rv_[2] == k.id:
                    closure_news.append((k, rv_, ln_))
    ctx.floor("NODE-PATH", "Node::new sites in get_child_mut", len(news) + len(closure_news), 1)
    # loop items: results of Iterator::next in a cycle
    succ = mir.succs(g)
    in_cycle = {b for b in range(len(g.blocks)) if b in mir.reachable(g, list(succ[b]))}
    items = set()
    for c in mir.calls(g):
        if c.is_("next") and "Iterator" in (c.callee + c.declared) and c.b in in_cycle:
            items |= mir.derives(g, {c.dest[0]}, through_calls=True)
    ctx.need(sorted(items), "component iterator of get_child_mut", "NODE-PATH")
    # accumulators: locals mutably borrowed into a call inside the loop together with a value derived from the item
    accs = set()
    for c in mir.calls(g):
        if c.b not in in_cycle or not c.args:
            continue
        muts = []
        for a in c.args:
            o = mir.origin(g, a)
            if o[0] == "ref":
                # origin() does not carry the borrow kind: look the defining statement up
                l = mir.op_local(a)
                d = mir.single_def(g, l) if l is not None else None
                if d and d[0] == "assign" and d[4][0] == "ref" and d[4][1] == "mut":
                    muts.append(o[1][0])
        others = [l for a in c.args for l in mir.operand_locals(a)]
        if muts and any(l in items for l in others):
            accs |= set(muts)
    ctx.ob("NODE-PATH", "per-level-accumulator-exists", bool(accs),
           "a local is extended by the current component in every iteration (%d candidate(s))" % len(accs) if accs else
           "no local of get_child_mut is extended by the current path component inside the loop: created nodes cannot "
           "record the path of their own level", g.where)
    der = mir.derives(g, accs, through_calls=True) if accs else set()
    for k, rv_, ln_ in closure_news:
        ok = bool(accs) and any(l in der for op in rv_[4] for l in mir.operand_locals(op))
        ctx.ob("NODE-PATH", "created-node-gets-accumulated-path", ok,
               "the closure that calls Node::new captures the per-level accumulator" if ok else
               "the closure that calls Node::new does not capture the per-level accumulator", "%s:%s" % (g.file, ln_))
    for c in news:
        ok = bool(accs) and any(l in der for a in c.args for l in mir.operand_locals(a))
        ctx.ob("NODE-PATH", "created-node-gets-accumulated-path", ok,
               "the path handed to Node::new derives from the per-level accumulator" if ok else
               "the path handed to Node::new does not derive from the per-level accumulator: an implicitly created "
               "intermediate node records a path that is not its own (signals and GetManagedObjects then disagree)", c.where)


def run(ctx):
    ctx.explanation = (
        "Static rules over MIR of zbus (K1): in ObjectServer::add_arc_interface and ::remove, reachability from the 'changed' edge "
        "and from the Some(manager_path) edge shows that Ok is returned only through an awaited InterfacesAdded / InterfacesRemoved "
        "emission addressed from the manager path, with the properties read before; the manager branch emits per managed object; "
        "get_child_mut sets the manager path only under the ObjectManager test; the closures of Node::is_empty and "
        "Node::get_managed_objects are evaluated symbolically per interface name and agree with each other and with Node::new.")
    ctx.not_decided = ("equivalence of snapshot and signal deltas over histories; nested managers (only the closest manager is signalled "
                       "while an outer manager's listing also contains the objects); content of property maps; delivery of signals.")
    f = ctx.facts("K1")
    added_rules(ctx, f)
    removed_rules(ctx, f)
    manager_path_rule(ctx, f)
    filter_sibling(ctx, f)
    walk_all(ctx, f)
    node_path_rule(ctx, f)
