"""C07 — Container nesting limits are enforced exactly (DESIGN §5.C07).

The depth mechanism is a pure value-semantic counter (`ContainerDepths`, a `Copy` struct) that the
four engines (D-Bus / GVariant x serializer / deserializer) thread through their state.  Every rule
below is decided on K1 (D-Bus engine, 3 counters) and on K2 (both engines, 4 counters, option-as-array).

  D-LIMITS   the check function (the one every increment returns through) compares {structure} with 32,
             {array} with 32 and the sum of ALL integer counters of the configuration with 64; each
             comparison is strict (error edge taken iff value >= limit+1, any of > >= < <= accepted,
             operands in either order); the error edge constructs the matching MaxDepthExceeded variant;
             `Ok` is reachable only through the pass edge of all three and returns `self` unmodified
  D-METHODS  every inherent method of ContainerDepths that writes a counter writes exactly one counter,
             by +1 or -1 of that same counter; a +1 method returns (on every path) the result of the
             common check function applied to the updated self; a -1 method returns the updated self;
             every counter has a +1 method
  D-WHO      counter fields are written, and ContainerDepths values are built, only by those methods
             and by the derived all-zero Default
  P-STORE    at every call of an increment/decrement outside ContainerDepths the receiver is a read of
             the live `container_depths` of a (De)SerializerCommon and the result (through `?` for
             increments) is stored back into that same place or — increments only — becomes the
             `container_depths` of a child (De)SerializerCommon; a discarded result is a violation
  P-CHILD    every write of a live `container_depths` and every construction of a (De)SerializerCommon
             takes its depth from: a live `container_depths` (copy, inc, dec), the saved copy of a
             struct serializer (restore), or `Default` — the last only in the four top-level constructors
  P-SITES    (R-WHO) the functions that increment / decrement / restore, with the counter they touch,
             equal the confirmed table (14 inc / 12 dec-or-restore source sites over the four engines)
  P-OPEN     a function that stores an increment and does not itself undo it reaches a non-error return
             only through that store (the container handle is never handed out without the increment)
  P-BALANCE  a function that increments and decrements the same counter in place (serialize_maybe)
             passes the decrement on every non-error path from the increment to a return
  P-SAVE     the saved copy kept by a struct serializer is read before the increment is stored, and
             it is what the restore writes back
  P-CLOSE    unconditional closers (end_seq, end_struct, ArrayDeserializer::end, deserialize_ay,
             D-Bus deserialize_option, and every function built on them) pass a decrement / restore
             on every non-error return
  P-FWD      every serde `Serialize{Seq,Tuple,TupleStruct,TupleVariant,Map,Struct,StructVariant}::end`
             of the engines' serializer types closes on every non-error return
  P-NEXT     array element iterators (`Result<Option<_>>` protocol) decrement exactly when they report
             the end: every `Ok(None)` is dominated by the decrement and no child is deserialized after
             it; structure iterators decrement after the child of the last field, under the
             `field_idx == num_fields` test (two fields of self compared for equality)
  P-ESC      a caller of an opener either moves the handle on (into a wrapper, a visitor, the return
             value) or closes on every non-error return
  P-PAIR     for every opener, some method of the handle type it returns closes the same counter
  P-ROOT     (R-WHO) the zero-depth constructors are called only from the confirmed top-level entry points
             (Data::deserialize_for_signature / deserialize_with_seed, ser::serialized_size /
             to_writer_for_signature), and on the over-approximating workspace call graph (generic and dyn
             calls fan out to every impl) no impl of a serde trait can reach one of them: the depth is
             never reset in the middle of an encode/decode

Dropped from the design: nothing; the "asymmetry to confirm" (GVariant ArrayDeserializer::new increments
before parse_padding) is irrelevant to these clauses: the error aborts the whole decode.
"""
import re
from .. import mir

CD = "zvariant::container_depths::ContainerDepths"
LIVE = ("zvariant::ser::SerializerCommon", "zvariant::de::DeserializerCommon")
MDE = "zvariant::error::MaxDepthExceeded"
SER_END_TRAITS = ("serde_core::ser::SerializeSeq", "serde_core::ser::SerializeTuple",
                  "serde_core::ser::SerializeTupleStruct", "serde_core::ser::SerializeTupleVariant",
                  "serde_core::ser::SerializeMap", "serde_core::ser::SerializeStruct",
                  "serde_core::ser::SerializeStructVariant")

META = {
    "technique": "MIR dataflow + dominance rules over the depth counter (R-TABLE on check, R-WHO site table, R-PAIR open/close pairing)",
    "level": ("Decides, for every path of the analysed code in K1 and K2, the whole counter mechanism: limits 32/32/64 compared "
              "strictly over all counters, every increment returning through that check, and the increment/decrement/restore "
              "discipline of the four (de)serializer engines (sites equal a confirmed table, openers always increment, closers "
              "always undo, iterators decrement exactly at end, children inherit the parent's depth). Not decided: that foreign "
              "serde Serialize/Deserialize impls call `end` / drain sequences as serde's contract requires."),
}


# ------------------------------------------------------------------------------------------ small helpers
def fkey(f, body):
    """line-free, lifetime-free identity of the function enclosing `body`"""
    root = f.bodies.get(body.root, body)
    d = root.d
    if d.get("impl_adt"):
        if d.get("impl_trait"):
            return "<%s as %s>::%s" % (d["impl_adt"], d["impl_trait"], root.name)
        return "%s::%s" % (d["impl_adt"], root.name)
    return re.sub(r"::<[^>]*>", "", root.id)


def is_int(ty):
    return ty in ("u8", "u16", "u32", "u64", "usize", "i8", "i16", "i32", "i64", "isize")


def field_of(place, owner):
    """name of the field if `place` ends in a field projection owned by ADT `owner`"""
    if place[1]:
        p = place[1][-1]
        if isinstance(p, list) and p[0] == "." and p[3].split("::")[:-1] == owner.split("::")[:-1] and (
                p[3] == owner or p[3].startswith(owner + "::")):
            return p[2]
    return None


def is_live_place(place):
    if not place[1]:
        return False
    p = place[1][-1]
    return isinstance(p, list) and p[0] == "." and p[4] == CD and any(p[3] == a or p[3].startswith(a + "::") for a in LIVE)


def is_saved_place(place):
    """a ContainerDepths-typed field of some other ADT (the saved copy of a struct serializer)"""
    if not place[1]:
        return False
    p = place[1][-1]
    return isinstance(p, list) and p[0] == "." and p[4] == CD and not any(p[3] == a or p[3].startswith(a + "::") for a in LIVE)


def pkey(place):
    out = [place[0]]
    for p in place[1]:
        if p == "*":
            out.append("*")
        elif isinstance(p, list) and p[0] == ".":
            out.append("." + str(p[2]))
        else:
            out.append(str(p))
    return tuple(out)


def try_source(body, op):
    """If `op` is the Continue payload of `Try::branch(x)` (the value of `x?`), the call that
    produced x; if `op` is directly a call result, that call; else None. Returns (Call, through_try)."""
    o = mir.origin(body, op)
    if o[0] == "call":
        return o[1], False
    if o[0] == "place":
        l, proj = o[1]
        if len(proj) == 2 and isinstance(proj[0], list) and proj[0][0] == "as" and proj[0][1] == "Continue" \
                and isinstance(proj[1], list) and proj[1][0] == "." and proj[1][1] == 0:
            d = mir.single_def(body, l)
            if d and d[0] == "call" and d[1].is_("branch") and d[1].args:
                o2 = mir.origin(body, d[1].args[0])
                if o2[0] == "call":
                    return o2[1], True
    return None, False


def err_blocks(body):
    """blocks that put an error into the return place: `?` residual conversion or `_0 = Err(..)`"""
    out = set()
    for c in mir.calls(body):
        if c.dest[0] == mir.RET and c.is_("from_residual"):
            out.add(c.b)
    for b, i, pl, rv, ln in mir.assignments(body):
        if pl[0] == mir.RET and not pl[1] and rv[0] == "agg" and rv[1] == "adt" and rv[2] == "core::result::Result" and rv[3] == "Err":
            out.add(b)
    return out


def returns_avoiding(body, avoid, starts=(0,)):
    """normal-return blocks reachable from `starts` without entering `avoid`"""
    r = mir.reachable(body, list(starts), avoid=avoid)
    return [b for b in mir.exits(body) if b in r]


def reachable_cut(body, cut_edges):
    """blocks reachable from entry when the CFG edges in `cut_edges` {(from, to)} are removed"""
    s = mir.succs(body)
    seen, work = set(), [0]
    while work:
        b = work.pop()
        if b in seen:
            continue
        seen.add(b)
        for x in s[b]:
            if (b, x) not in cut_edges and x not in seen:
                work.append(x)
    return seen


def sum_terms(body, op, depth=0):
    """field names of `self` (argument 1) whose sum the operand is; None when not of that shape"""
    if depth > 12:
        return None
    o = mir.origin(body, op)
    if o[0] == "place":
        l, proj = o[1]
        if l == 1 and len(proj) == 1 and isinstance(proj[0], list) and proj[0][0] == ".":
            return [proj[0][2]]
        if l == 1 and len(proj) == 2 and proj[0] == "*" and isinstance(proj[1], list) and proj[1][0] == ".":
            return [proj[1][2]]
        if len(proj) == 1 and isinstance(proj[0], list) and proj[0][0] == "." and proj[0][1] == 0:
            d = mir.single_def(body, l)
            if d and d[0] == "assign" and d[4][0] == "bin" and d[4][1] in ("AddWithOverflow",):
                a, b = sum_terms(body, d[4][2], depth + 1), sum_terms(body, d[4][3], depth + 1)
                return None if a is None or b is None else a + b
        return None
    if o[0] == "rv" and o[1][0] == "bin" and o[1][1] in ("Add", "AddUnchecked"):
        a, b = sum_terms(body, o[1][2], depth + 1), sum_terms(body, o[1][3], depth + 1)
        return None if a is None or b is None else a + b
    if o[0] == "call" and o[1].is_("from", "into") and o[1].args:
        return sum_terms(body, o[1].args[0], depth + 1)
    return None


def const_int(body, op, depth=0):
    """integer value of an operand that is a constant or constant arithmetic (`LIMIT + 1`), else None"""
    k = mir.resolve_const(body, op)
    if k is not None:
        return k.get("v") if isinstance(k.get("v"), int) and not isinstance(k.get("v"), bool) else None
    if depth > 4:
        return None
    o = mir.origin(body, op)
    rv = None
    if o[0] == "place" and len(o[1][1]) == 1 and isinstance(o[1][1][0], list) and o[1][1][0][0] == "." and o[1][1][0][1] == 0:
        d = mir.single_def(body, o[1][0])
        if d and d[0] == "assign" and d[4][0] == "bin":
            rv = d[4]
    elif o[0] == "rv" and o[1][0] == "bin":
        rv = o[1]
    if rv is None:
        return None
    a, b = const_int(body, rv[2], depth + 1), const_int(body, rv[3], depth + 1)
    if a is None or b is None:
        return None
    if rv[1] in ("Add", "AddWithOverflow"):
        return a + b
    if rv[1] in ("Sub", "SubWithOverflow"):
        return a - b
    return None


def high_edge(op, var_left, n, tt, ft):
    """for `var op n` (or `n op var`): (target taken for large var, smallest var taking it)"""
    if not var_left:
        op = {"Gt": "Lt", "Ge": "Le", "Lt": "Gt", "Le": "Ge"}.get(op, op)
    if op == "Gt":
        return tt, ft, n + 1
    if op == "Ge":
        return tt, ft, n
    if op == "Lt":
        return ft, tt, n
    if op == "Le":
        return ft, tt, n + 1
    return None, None, None


# ------------------------------------------------------------------------------------------ ContainerDepths itself
def counter_update(body, rv):
    """(+1|-1, field) when rvalue is `self.field (+|-) 1` (checked or not), else None"""
    if rv[0] != "use":
        return None
    o = mir.origin(body, rv[1])
    bin_rv = None
    if o[0] == "place":
        l, proj = o[1]
        if len(proj) == 1 and isinstance(proj[0], list) and proj[0][0] == "." and proj[0][1] == 0:
            d = mir.single_def(body, l)
            if d and d[0] == "assign" and d[4][0] == "bin":
                bin_rv = d[4]
    elif o[0] == "rv" and o[1][0] == "bin":
        bin_rv = o[1]
    if bin_rv is None:
        return None
    op = bin_rv[1]
    sign = {"AddWithOverflow": 1, "Add": 1, "SubWithOverflow": -1, "Sub": -1}.get(op)
    if sign is None:
        return None
    a, b = bin_rv[2], bin_rv[3]
    ta, kb = sum_terms(body, a), mir.resolve_const(body, b)
    if ta and len(ta) == 1 and kb is not None and kb.get("v") == 1:
        return sign, ta[0]
    if sign == 1:
        tb, ka = sum_terms(body, b), mir.resolve_const(body, a)
        if tb and len(tb) == 1 and ka is not None and ka.get("v") == 1:
            return sign, tb[0]
    return None


def check_counter_type(ctx, f, tag):
    adt = f.adts.get(CD)
    ctx.need([adt] if adt else [], tag + "ADT ContainerDepths")
    fields = adt["variants"][0]["fields"]
    counters = [x[0] for x in fields if is_int(x[1])]
    ctx.ob("D-WHO", tag + "fields-private", all("Restricted" in x[2] for x in fields),
           "all fields of ContainerDepths are private to the module", adt["file"])
    ctx.floor("D-LIMITS", tag + "counters of ContainerDepths", len(counters), 3)

    methods = {}       # body id -> (sign, field)
    check_ids = set()
    for m in f.find(adt=CD, trait=""):
        writes = []
        for b, i, pl, rv, ln in mir.assignments(m):
            fld = field_of(pl, CD)
            if fld is not None and pl[0] == 1:
                writes.append((b, i, fld, rv, ln))
        if not writes:
            continue
        where = "%s:%d" % (m.file, writes[0][4])
        key = tag + m.name
        if len(writes) != 1:
            ctx.ob("D-METHODS", key + ":single-write", False, "%s writes %d counter fields" % (m.id, len(writes)), where)
            continue
        b, i, fld, rv, ln = writes[0]
        upd = counter_update(m, rv)
        ok = upd is not None and upd[1] == fld
        ctx.ob("D-METHODS", key + ":step", ok,
               "%s: %s %s= 1" % (m.name, fld, "+" if upd and upd[0] > 0 else "-") if ok else
               "%s writes `%s` with something other than `%s +/- 1`" % (m.name, fld, fld), where)
        if not ok:
            continue
        methods[m.id] = (upd[0], fld)
        rets = [(rb, ri, rrv) for rb, ri, rrv, rl in mir.ret_values(m)]
        retcalls = [c for c in mir.calls(m) if c.dest[0] == mir.RET and not c.dest[1]]
        if upd[0] > 0:
            good = not rets and len(retcalls) >= 1
            for c in retcalls:
                o = mir.origin(m, c.args[0]) if c.args else None
                self_arg = o is not None and o[0] == "place" and o[1][0] == 1 and not o[1][1]
                inherent = c.callee.startswith(CD + "::")
                after = mir.dominates(m, (b, i), c.point)
                good = good and self_arg and inherent and after
                if inherent:
                    check_ids.add(c.callee)
            # no return that bypasses the check call
            if good:
                good = not returns_avoiding(m, {c.b for c in retcalls})
            ctx.ob("D-METHODS", key + ":returns-through-check", good,
                   "%s returns only the result of %s(self) evaluated after the increment" % (
                       m.name, sorted(x.rsplit("::", 1)[-1] for x in {c.callee for c in retcalls})) if good else
                   "%s has a return that is not `check(updated self)`" % m.name, where)
        else:
            good = len(rets) >= 1 and not retcalls
            for rb, ri, rrv in rets:
                o = mir.origin(m, rrv[1]) if rrv[0] == "use" else None
                good = good and o is not None and o[0] == "place" and o[1][0] == 1 and not o[1][1] \
                    and mir.dominates(m, (b, i), (rb, ri))
            ctx.ob("D-METHODS", key + ":returns-self", good, "%s returns the updated self" % m.name if good else
                   "%s does not return the updated self on every path" % m.name, where)
    incs = {fld for s, fld in methods.values() if s > 0}
    for c in counters:
        ctx.ob("D-METHODS", tag + "has-increment:" + c, c in incs, "counter `%s` has a +1 method" % c, adt["file"])
    ctx.ob("D-METHODS", tag + "single-check-fn", len(check_ids) == 1,
           "all increments return through one function: %s" % sorted(check_ids), adt["file"])
    ctx.floor("D-METHODS", tag + "increment methods", len(incs), 3)

    # ---- who writes counters / builds values
    for b in f.all_bodies():
        for bi, i, pl, rv, ln in mir.assignments(b):
            if any(isinstance(p, list) and p[0] == "." and p[3] == CD for p in pl[1]):
                ctx.ob("D-WHO", tag + "counter-writer:" + fkey(f, b), b.id in methods,
                       "counter field written in %s" % b.id, "%s:%d" % (b.file, ln))
            if rv[0] == "agg" and rv[1] == "adt" and rv[2] == CD:
                zero = True
                for op in rv[4]:
                    k = mir.resolve_const(b, op)
                    if k is not None and k.get("v") == 0:
                        continue
                    o = mir.origin(b, op)
                    if o[0] == "call" and o[1].is_("default") and "core::default::Default" in o[1].callee:
                        continue
                    zero = False
                is_default = b.d.get("impl_trait") == "core::default::Default" and b.d.get("impl_adt") == CD
                ctx.ob("D-WHO", tag + "builder:" + fkey(f, b), is_default and zero,
                       "ContainerDepths value built in %s (%s)" % (b.id, "all zero" if zero else "non-zero operands"),
                       "%s:%d" % (b.file, ln))
    return counters, methods, (sorted(check_ids)[0] if len(check_ids) == 1 else None)


def check_limits(ctx, f, tag, counters, check_id):
    ctx.need([check_id] if check_id else [], tag + "the check function of ContainerDepths")
    chk = ctx.one([f.byid(check_id)] if f.byid(check_id) else [], tag + "body of " + check_id)
    where0 = chk.where
    writes = [1 for b, i, pl, rv, ln in mir.assignments(chk) if pl[0] == 1]
    ctx.ob("D-LIMITS", tag + "check-is-pure", not writes, "check does not modify self", where0)
    spec = {
        "structure": (32, "Structure"),
        "array": (32, "Array"),
        "+".join(sorted(counters)): (64, "Container"),
    }
    mde_blocks = {}
    for b, i, pl, rv, ln in mir.assignments(chk):
        if rv[0] == "agg" and rv[1] == "adt" and rv[2] == MDE:
            mde_blocks.setdefault(b, set()).add(rv[3])
    ok_blocks = [b for b, i, pl, rv, ln in mir.assignments(chk)
                 if pl[0] == mir.RET and not pl[1] and rv[0] == "agg" and rv[2] == "core::result::Result" and rv[3] == "Ok"]
    ctx.need(ok_blocks, tag + "Ok(..) result in check")
    for b, i, pl, rv, ln in mir.assignments(chk):
        if pl[0] == mir.RET and not pl[1] and rv[0] == "agg" and rv[2] == "core::result::Result" and rv[3] == "Ok":
            o = mir.origin(chk, rv[4][0])
            ctx.ob("D-LIMITS", tag + "ok-returns-self", o[0] == "place" and o[1][0] == 1 and not o[1][1],
                   "Ok payload is self", "%s:%d" % (chk.file, ln))
    seen = {}
    for sb, op, l, r, tt, ft, ln in mir.cmp_switches(chk):
        where = "%s:%d" % (chk.file, ln)
        kl, kr = const_int(chk, l), const_int(chk, r)
        if kr is not None and kl is None:
            var, n, left = l, kr, True
        elif kl is not None and kr is None:
            var, n, left = r, kl, False
        else:
            ctx.ob("D-LIMITS", tag + "comparison-shape", False, "comparison in check is not `counter-expression <op> constant`", where)
            continue
        terms = sum_terms(chk, var)
        if terms is None:
            ctx.ob("D-LIMITS", tag + "comparison-operand", False, "compared value is not a sum of counters of self", where)
            continue
        key = "+".join(sorted(terms))
        dup = len(set(terms)) != len(terms)
        hi, lo, thr = high_edge(op, left, n, tt, ft)
        if hi is None:
            ctx.ob("D-LIMITS", tag + "cmp:" + key + ":operator", False, "limit tested with `%s` (not an ordering test)" % op, where)
            continue
        row = spec.get(key)
        if row is None or dup:
            ctx.ob("D-LIMITS", tag + "cmp:" + key + ":operands", False,
                   "check compares {%s}; expected one of %s" % (key, sorted(spec)), where)
            continue
        seen[key] = (sb, lo)
        ctx.ob("D-LIMITS", tag + "cmp:" + key + ":limit", thr - 1 == row[0],
               "largest accepted value of %s is %d (specified %d; comparison `%s %d`)" % (key, thr - 1, row[0], op, n), where)
        # error edge: every path to a return builds MaxDepthExceeded::<row variant> first
        esc = returns_avoiding(chk, set(mde_blocks), starts=[hi])
        first = set()
        for bb in mir.reachable(chk, [hi], avoid=set()):
            if bb in mde_blocks and bb in mir.reachable(chk, [hi], avoid=set(mde_blocks) - {bb}):
                first |= mde_blocks[bb]
        ctx.ob("D-LIMITS", tag + "cmp:" + key + ":error", not esc and first == {row[1]},
               "exceeding edge yields MaxDepthExceeded::%s" % sorted(first) if not esc else
               "the exceeding edge can return without a MaxDepthExceeded error", where)
        # Ok only through the pass edge
        r = reachable_cut(chk, {(sb, lo)})
        ctx.ob("D-LIMITS", tag + "cmp:" + key + ":guards-ok", not any(b in r for b in ok_blocks) and lo != hi,
               "Ok(self) is reachable only through the pass edge of the %s test" % key, where)
    for key in spec:
        ctx.ob("D-LIMITS", tag + "present:" + key, key in seen, "check tests {%s} against %d" % (key, spec[key][0]), where0)


# ------------------------------------------------------------------------------------------ engines
class Ev:
    """one depth event: kind in inc/dec/restore/copy/default/other; sink store|child|None"""
    __slots__ = ("body", "kind", "field", "call", "recv", "sink", "target", "b", "i", "line", "val")

    def __init__(self, body, kind, field, call, recv, sink, target, b, i, line, val=None):
        self.body, self.kind, self.field, self.call, self.recv = body, kind, field, call, recv
        self.sink, self.target, self.b, self.i, self.line, self.val = sink, target, b, i, line, val

    @property
    def where(self):
        return "%s:%d" % (self.body.file, self.line)

    def desc(self):
        if self.kind in ("inc", "dec"):
            return "%s:%s:%s" % (self.kind, self.field, self.sink)
        return "%s:%s" % (self.kind, self.sink)


def classify_value(f, body, op, methods):
    """-> (kind, field, Call|None, source place|None)"""
    c, through = try_source(body, op)
    if c is not None:
        m = methods.get(c.callee)
        if m is not None and c.args:
            o = mir.origin(body, c.args[0])
            recv = o[1] if o[0] == "place" else None
            if m[0] > 0:
                return ("inc" if through else "inc-unchecked", m[1], c, recv)
            return ("dec", m[1], c, recv)
        if c.is_("default") and "core::default::Default" in (c.declared + c.callee):
            return ("default", None, c, None)
        return ("other", None, c, None)
    o = mir.origin(body, op)
    if o[0] == "place":
        if is_live_place(o[1]):
            return ("copy", None, None, o[1])
        if is_saved_place(o[1]):
            return ("restore", None, None, o[1])
    return ("other", None, None, None)


def collect_events(f, methods):
    evs, consumed = [], set()
    for b in f.all_bodies("zvariant"):
        if b.d.get("impl_adt") == CD:
            continue
        for bi, i, pl, rv, ln in mir.assignments(b):
            if is_live_place(pl) and rv[0] == "use":
                k, fld, c, src = classify_value(f, b, rv[1], methods)
                evs.append(Ev(b, k, fld, c, src, "store", pl, bi, i, ln))
                if c is not None:
                    consumed.add(id(c.c))
            elif is_live_place(pl):
                evs.append(Ev(b, "other", None, None, None, "store", pl, bi, i, ln))
            elif any(isinstance(p, list) and p[0] == "." and p[4] == CD and any(p[3] == a for a in LIVE) for p in pl[1][:-1]):
                evs.append(Ev(b, "other", None, None, None, "store", pl, bi, i, ln))
            if rv[0] == "agg" and rv[1] == "adt":
                a = f.adts.get(rv[2])
                if not a:
                    continue
                var = [v for v in a["variants"] if v["name"] == rv[3]]
                if not var:
                    continue
                for idx, fl in enumerate(var[0]["fields"]):
                    if fl[1] != CD:
                        continue
                    names = rv[5]
                    j = names.index(fl[0]) if fl[0] in names else idx
                    k, fld, c, src = classify_value(f, b, rv[4][j], methods)
                    sink = "child" if rv[2] in LIVE else "saved"
                    evs.append(Ev(b, k, fld, c, src, sink, rv[2], bi, i, ln, val=rv[4][j]))
                    if c is not None:
                        consumed.add(id(c.c))
    return evs, consumed


def check_engines(ctx, f, tag, methods, features):
    evs, consumed = collect_events(f, methods)
    has_gv = "gvariant" in features
    has_oaa = "option-as-array" in features

    # ---- P-STORE
    n_calls = 0
    for b in f.all_bodies("zvariant"):
        if b.d.get("impl_adt") == CD:
            continue
        for c in mir.calls(b):
            m = methods.get(c.callee)
            if m is None:
                continue
            n_calls += 1
            key = tag + "%s:%s:%s" % (fkey(f, b), "inc" if m[0] > 0 else "dec", m[1])
            o = mir.origin(b, c.args[0]) if c.args else ("none",)
            recv_live = o[0] == "place" and is_live_place(o[1])
            ctx.ob("P-STORE", key + ":receiver", recv_live,
                   "receiver is %s" % (mir.place_str(b, o[1]) if o[0] == "place" else o[0]), c.where)
            ctx.ob("P-STORE", key + ":result-used", id(c.c) in consumed,
                   "result becomes a live container_depths" if id(c.c) in consumed else
                   "result of the depth update is discarded or does not reach a container_depths", c.where)
    ctx.floor("P-STORE", tag + "calls of depth increments/decrements in the engines", n_calls, 24 if has_gv else 9)
    for e in evs:
        if e.kind in ("inc", "dec", "inc-unchecked") and e.sink in ("store", "child"):
            key = tag + "%s:%s:%s" % (fkey(f, e.body), e.kind, e.field)
            if e.kind == "inc-unchecked":
                ctx.ob("P-STORE", key + ":error-propagated", False,
                       "the Result of the increment is used without `?` (depth error not propagated)", e.where)
            if e.sink == "store":
                same = e.recv is not None and pkey(e.recv) == pkey(e.target)
                ctx.ob("P-STORE", key + ":stored-to-receiver", same,
                       "updated depth is written back to the place it was read from" if same else
                       "depth read from %s but written to %s" % (e.recv and mir.place_str(e.body, e.recv), mir.place_str(e.body, e.target)),
                       e.where)
            else:
                ctx.ob("P-STORE", key + ":child-gets-increment", e.kind == "inc",
                       "child (de)serializer starts from the incremented depth" if e.kind == "inc" else
                       "child (de)serializer is built from a decrement", e.where)

    # ---- P-CHILD
    top_ctors = set()
    n_child = 0
    for e in evs:
        k = fkey(f, e.body)
        if e.sink in ("store", "child"):
            n_child += 1
            if e.kind == "default":
                root = f.bodies.get(e.body.root, e.body)
                top = root.name == "new" and (root.d.get("impl_adt") or "").rsplit("::", 1)[-1] in ("Serializer", "Deserializer") \
                    and e.sink == "child"
                top_ctors.add(k)
                ctx.ob("P-CHILD", tag + "zero-depth:" + k, top, "depth starts at zero in a top-level constructor" if top else
                       "depth reset to zero outside a top-level (De)Serializer::new", e.where)
            elif e.kind == "restore":
                ctx.ob("P-CHILD", tag + "restore:" + k, e.sink == "store", "restore of the saved depth", e.where)
            elif e.kind in ("inc", "dec", "copy", "inc-unchecked"):
                pass
            else:
                ctx.ob("P-CHILD", tag + "source:" + k, False,
                       "container_depths written from a value that is neither the parent's depth nor an inc/dec/restore", e.where)
        elif e.sink == "saved":
            ctx.ob("P-CHILD", tag + "saved-copy:" + k, e.kind == "copy", "saved copy is a copy of the live depth" if e.kind == "copy"
                   else "saved copy is built from `%s`" % e.kind, e.where)
    ctx.floor("P-CHILD", tag + "writes of container_depths / child constructions", n_child, 12)

    # ---- P-SITES
    expected = {}
    for e_ in ["dbus"] + (["gvariant"] if has_gv else []):
        S, D = "zvariant::%s::ser::" % e_, "zvariant::%s::de::" % e_
        expected["<%sSerializer as serde_core::ser::Serializer>::serialize_seq" % S] = ["inc:array:store"]
        expected[S + "SeqSerializer::end_seq"] = ["dec:array:store"]
        expected[S + "StructSerializer::variant"] = ["inc:variant:store"]
        expected[S + "StructSerializer::structure"] = ["inc:structure:store"]
        expected[S + "StructSerializer::end_struct"] = ["restore:store"]
        expected[D + "ArrayDeserializer::new"] = ["inc:array:store"]
        expected[D + "StructureDeserializer::new"] = ["inc:structure:store"]
        expected["<%sStructureDeserializer as serde_core::de::SeqAccess>::next_element_seed" % D] = ["dec:structure:store"]
        expected["<%sValueDeserializer as serde_core::de::SeqAccess>::next_element_seed" % D] = ["inc:variant:child"]
    expected["zvariant::dbus::de::ArrayDeserializer::end"] = ["dec:array:store"]
    if has_oaa:
        expected["<zvariant::dbus::de::Deserializer as serde_core::de::Deserializer>::deserialize_option"] = ["dec:array:store"]
    if has_gv:
        expected["zvariant::gvariant::ser::Serializer::serialize_maybe"] = ["dec:maybe:store", "inc:maybe:store"]
        expected["zvariant::gvariant::de::deserialize_ay"] = ["dec:array:store"]
        expected["<zvariant::gvariant::de::ArrayDeserializer as serde_core::de::SeqAccess>::next_element_seed"] = ["dec:array:store"]
        expected["<zvariant::gvariant::de::ArrayDeserializer as serde_core::de::MapAccess>::next_key_seed"] = ["dec:array:store"]
        expected["<zvariant::gvariant::de::Deserializer as serde_core::de::Deserializer>::deserialize_option"] = ["inc:maybe:child"]
    found = {}
    for e in evs:
        if e.kind in ("inc", "dec", "restore", "inc-unchecked") and e.sink in ("store", "child"):
            found.setdefault(fkey(f, e.body), []).append(e)
    n_inc = n_dec = 0
    for k, lst in sorted(found.items()):
        got = sorted(x.desc() for x in lst)
        n_inc += sum(1 for x in lst if x.kind == "inc")
        n_dec += sum(1 for x in lst if x.kind in ("dec", "restore"))
        ok = expected.get(k) == got
        ctx.ob("P-SITES", tag + "site:" + k, ok,
               "%s" % got if ok else "depth updates %s here; confirmed table has %s" % (got, expected.get(k)), lst[0].where)
    for k, want in sorted(expected.items()):
        if k not in found:
            ctx.ob("P-SITES", tag + "site:" + k, False, "no depth update found here; confirmed table has %s" % want, "-")
    ctx.floor("P-SITES", tag + "increment sites", n_inc, 14 if has_gv else 6)
    ctx.floor("P-SITES", tag + "decrement/restore sites", n_dec, (12 if has_oaa else 11) if has_gv else 4)

    # ---- per-function views
    by_body = {}
    for e in evs:
        by_body.setdefault(e.body.id, []).append(e)

    def is_next_protocol(body):
        return body.locals[0][0].startswith("core::result::Result<core::option::Option<")

    openers = {}     # body id -> [(event, handle adt)]
    balanced = set()
    for bid, lst in by_body.items():
        body = lst[0].body
        incs = [e for e in lst if e.kind == "inc" and e.sink == "store"]
        for e in incs:
            undo = [d for d in lst if d.kind == "dec" and d.sink == "store" and d.field == e.field and pkey(d.target) == pkey(e.target)]
            k = tag + "%s:%s" % (fkey(f, body), e.field)
            eb = err_blocks(body)
            if undo:
                balanced.add(bid)
                # start at the block of the increment's store (that block itself is not avoided)
                esc = returns_avoiding(body, eb | {d.b for d in undo}, starts=[e.b])
                after = all(mir.dominates(body, (e.b, e.i), (d.b, d.i)) for d in undo)
                ctx.ob("P-BALANCE", k, not esc and after,
                       "every non-error path from the increment to a return passes the decrement" if (not esc and after) else
                       "a non-error return is reachable after the increment without the decrement", e.where)
            else:
                esc = returns_avoiding(body, eb | {e.b})
                ctx.ob("P-OPEN", k, not esc,
                       "every non-error return passes the increment" if not esc else
                       "a non-error return is reachable without the increment", e.where)
                m = re.match(r"core::result::Result<([\w:]+)", body.locals[0][0])
                openers.setdefault(bid, []).append((e, m.group(1) if m else None))
    ctx.floor("P-OPEN", tag + "opener functions", len(openers), 8 if has_gv else 4)
    if has_gv:
        ctx.floor("P-BALANCE", tag + "balanced functions", len(balanced), 1)

    # ---- P-SAVE
    n_save = 0
    for e in evs:
        if e.sink != "saved":
            continue
        body = e.body
        incs = [x for x in by_body[body.id] if x.kind == "inc" and x.sink == "store"]
        if not incs:
            continue
        n_save += 1
        k = tag + fkey(f, body)
        # the statement that reads the live depth into the saved value
        rd = None
        l = mir.op_local(e.val)
        hops = 0
        while l is not None and hops < 6:
            d = mir.single_def(body, l)
            if not d or d[0] != "assign" or d[4][0] != "use":
                break
            src = mir.op_place(d[4][1])
            if src is not None and is_live_place(src):
                rd = (d[1], d[2], src)
                break
            l = mir.op_local(d[4][1]) if src is not None and not src[1] else None
            hops += 1
        ok = rd is not None
        detail = "saved copy is not a direct read of the live depth"
        if ok:
            for x in incs:
                same_place = pkey(rd[2]) == pkey(x.target)
                before = mir.dominates(body, (rd[0], rd[1]), (x.b, x.i)) and (rd[0], rd[1]) != (x.b, x.i)
                ok = ok and same_place and before
            detail = "saved copy is read before the increment is stored" if ok else "saved copy is read AFTER the increment (restore would keep the increment)"
        ctx.ob("P-SAVE", k + ":saved-before-inc", ok, detail, e.where)
    ctx.floor("P-SAVE", tag + "save sites with an increment", n_save, 4 if has_gv else 2)
    for e in evs:
        if e.kind == "restore" and e.sink == "store":
            o = e.recv
            ok = o is not None and o[0] == 1
            ctx.ob("P-SAVE", tag + fkey(f, e.body) + ":restores-own-copy", ok,
                   "restore writes back the copy saved in self" if ok else "restore source is not a field of self", e.where)

    # ---- closing functions (fixpoint) : every non-error return passes a close event
    direct_close = {}
    for bid, lst in by_body.items():
        if bid in balanced:
            continue
        cl = [e for e in lst if e.sink == "store" and e.kind in ("dec", "restore")]
        if cl:
            direct_close[bid] = cl
    closing = set()
    cond = set()
    cand = {}
    for b in f.all_bodies("zvariant"):
        cand[b.id] = b
    # functions that (transitively) call an opener are net-neutral or hand the handle on: they are judged by
    # P-ESC, and are not themselves "closers" for their callers
    opening = set(openers)
    grew = True
    while grew:
        grew = False
        for bid, body in cand.items():
            if bid not in opening and any(c.callee in opening for c in mir.calls(body)):
                opening.add(bid)
                grew = True

    def close_blocks(body):
        out = {e.b for e in direct_close.get(body.id, [])}
        for c in mir.calls(body):
            if c.callee in closing:
                out.add(c.b)
        return out

    changed = True
    rounds = 0
    while changed and rounds < 8:
        changed = False
        rounds += 1
        for bid, body in cand.items():
            if bid in closing or bid in balanced or bid in opening or body.d.get("impl_adt") == CD:
                continue
            cb = close_blocks(body)
            if not cb or is_next_protocol(body):
                continue
            if not returns_avoiding(body, cb | err_blocks(body)) and mir.exits(body):
                closing.add(bid)
                changed = True
    # P-CLOSE: every non-balanced, non-iterator function with a close event (direct or by call) is closing
    n_close = 0
    for bid, body in sorted(cand.items()):
        if bid in balanced or bid in opening or body.d.get("impl_adt") == CD:
            continue
        cb = close_blocks(body)
        if not cb:
            continue
        if is_next_protocol(body):
            cond.add(bid)
            continue
        n_close += 1
        ctx.ob("P-CLOSE", tag + fkey(f, body), bid in closing,
               "every non-error return passes a decrement/restore" if bid in closing else
               "a non-error return is reachable without the decrement/restore", body.where)
    ctx.floor("P-CLOSE", tag + "closing functions", n_close, 29 if has_gv else 15)

    # ---- P-FWD
    n_end = 0
    for b in f.all_bodies("zvariant"):
        if b.name == "end" and b.d.get("impl_trait") in SER_END_TRAITS and b.id == b.root:
            n_end += 1
            ctx.ob("P-FWD", tag + fkey(f, b), b.id in closing,
                   "closes on every non-error return" if b.id in closing else "serde `end` that can return Ok without closing", b.where)
    ctx.floor("P-FWD", tag + "serde end() impls of the engines", n_end, 24 if has_gv else 12)

    # ---- P-NEXT
    n_next = 0
    for bid in sorted(cond):
        body = cand[bid]
        k = tag + fkey(f, body)
        cb = close_blocks(body)
        fields = {e.field for e in direct_close.get(bid, [])}
        for c in mir.calls(body):
            if c.callee in closing:
                for e in direct_close.get(c.callee, []):
                    fields.add(e.field)
        n_next += 1
        nones = []
        for b_, i_, pl, rv, ln in mir.assignments(body):
            if pl[0] == mir.RET and not pl[1] and rv[0] == "agg" and rv[2] == "core::result::Result" and rv[3] == "Ok":
                o = mir.origin(body, rv[4][0])
                if o[0] == "rv" and o[1][0] == "agg" and o[1][2] == "core::option::Option" and o[1][3] == "None":
                    nones.append((b_, ln))
        child_calls = [c for c in mir.calls(body) if c.is_("deserialize") and "DeserializeSeed" in (c.declared + c.callee)]
        # calls that process an element through a helper of the same handle type (dbus `next`)
        helper_calls = [c for c in mir.calls(body) if c.callee in cand and c.callee not in closing
                        and any(x.is_("deserialize") and "DeserializeSeed" in (x.declared + x.callee) for x in mir.calls(cand[c.callee]))]
        elem_blocks = {c.b for c in child_calls + helper_calls}
        if fields == {"array"}:
            ctx.ob("P-NEXT", k + ":has-end-report", bool(nones), "iterator has an Ok(None) return", body.where)
            for nb, ln in nones:
                dom = any(mir.block_dominates(body, x, nb) for x in cb)
                ctx.ob("P-NEXT", k + ":none-after-dec", dom,
                       "Ok(None) is returned only after the array depth was decremented" if dom else
                       "Ok(None) can be returned without decrementing the array depth", "%s:%d" % (body.file, ln))
            after = mir.reachable(body, list(cb))
            bad = [x for x in elem_blocks if x in after]
            ctx.ob("P-NEXT", k + ":dec-only-at-end", bool(elem_blocks) and not bad,
                   "no element is deserialized after the decrement" if elem_blocks and not bad else
                   ("an element is deserialized on a path after the decrement" if bad else "no element deserialization found"), body.where)
            # the decrement is not on the element path either: it is control dependent (not dominating the element)
            dom_elem = [x for x in elem_blocks if any(mir.block_dominates(body, y, x) for y in cb)]
            ctx.ob("P-NEXT", k + ":dec-is-conditional", not dom_elem, "decrement does not precede element processing", body.where)
        elif fields == {"structure"}:
            ok_guard = ok_after = False
            for e in direct_close.get(bid, []):
                for sb, op, l, r, tt, ft, ln in mir.cmp_switches(body):
                    if op not in ("Eq", "Ne"):
                        continue
                    ol, orr = mir.origin(body, l), mir.origin(body, r)
                    selfs = [o for o in (ol, orr) if o[0] == "place" and o[1][0] == 1 and len(mir.place_fields(o[1])) == 1]
                    if len(selfs) != 2 or mir.place_fields(selfs[0][1]) == mir.place_fields(selfs[1][1]):
                        continue
                    eq_edge = tt if op == "Eq" else ft
                    if eq_edge is not None and mir.block_dominates(body, eq_edge, e.b) and eq_edge != (ft if op == "Eq" else tt):
                        ok_guard = True
                ok_after = bool(child_calls) and all(mir.block_dominates(body, c.b, e.b) for c in child_calls)
            ctx.ob("P-NEXT", k + ":dec-under-last-field-test", ok_guard,
                   "structure depth is decremented under `field_idx == num_fields`" if ok_guard else
                   "structure decrement is not guarded by the last-field equality test", body.where)
            ctx.ob("P-NEXT", k + ":dec-after-child", ok_after,
                   "decrement happens after the field was deserialized" if ok_after else
                   "decrement does not follow the field's deserialization", body.where)
            # Ok(None) (sequence exhausted) must not decrement again
            after = mir.reachable(body, list(cb))
            again = [nb for nb, ln in nones if nb in after]
            ctx.ob("P-NEXT", k + ":no-second-dec", not again, "the exhausted-sequence return does not pass the decrement", body.where)
        else:
            ctx.ob("P-NEXT", k + ":kind", False, "iterator closes unexpected counters %s" % sorted(map(str, fields)), body.where)
    ctx.floor("P-NEXT", tag + "iterator functions that close a container", n_next, 5 if has_gv else 2)

    # ---- P-ESC and P-PAIR
    n_esc = 0
    for oid, lst in sorted(openers.items()):
        ob_ = cand[oid]
        for e, handle in lst:
            kk = tag + "%s:%s" % (fkey(f, ob_), e.field)
            ctx.ob("P-PAIR", kk + ":handle-type", handle is not None and handle in f.adts,
                   "opener returns handle %s" % handle, ob_.where)
            closers = []
            for bid in list(closing) + list(cond):
                b2 = cand[bid]
                root = f.bodies.get(b2.root, b2)
                if root.d.get("impl_adt") != handle:
                    continue
                flds = {x.field if x.kind == "dec" else "*" for x in direct_close.get(bid, [])}
                for c in mir.calls(b2):
                    if c.callee in closing:
                        flds |= {x.field if x.kind == "dec" else "*" for x in direct_close.get(c.callee, [])}
                if e.field in flds or "*" in flds:
                    closers.append(fkey(f, b2))
            ctx.ob("P-PAIR", kk + ":has-closer", bool(closers),
                   "closed by %s" % sorted(set(closers))[:4] if closers else
                   "no method of %s undoes the %s increment" % (handle, e.field), ob_.where)
        for b in f.all_bodies("zvariant"):
            for c in mir.calls(b):
                if c.callee != oid:
                    continue
                n_esc += 1
                handle = lst[0][1]
                der = mir.derives(b, {c.dest[0]}, through_calls=True, stop_calls=lambda x: not x.is_("branch"))
                # locals holding the handle itself or a Result/ControlFlow wrapping it
                hl = {l for l in der if handle and (b.locals[l][0].startswith(handle) or
                                                    b.locals[l][0].startswith("core::result::Result<" + handle) or
                                                    b.locals[l][0].startswith("core::ops::control_flow::ControlFlow<") and handle in b.locals[l][0])}
                moved = False
                for bi, i, pl, rv, ln in mir.assignments(b):
                    ops = mir.rvalue_operands(rv) if rv[0] in ("agg", "use") else []
                    for op in ops:
                        if op[0] == "m" and not op[1][1] and op[1][0] in hl and (rv[0] == "agg" or pl[0] == mir.RET):
                            moved = True
                for c2 in mir.calls(b):
                    for a in c2.args:
                        if a[0] == "m" and not a[1][1] and a[1][0] in hl and not c2.is_("branch"):
                            moved = True
                # the whole Result returned as is (`return X::new(de)`)
                if c.dest[0] == mir.RET:
                    moved = True
                k = tag + "%s->%s" % (fkey(f, b), fkey(f, ob_))
                if moved:
                    ctx.ob("P-ESC", k, True, "handle is moved on (wrapper / visitor / return)", c.where)
                else:
                    nxt = [c.c["t"]] if c.c.get("t") is not None else []
                    cb = close_blocks(b)
                    esc = returns_avoiding(b, cb | err_blocks(b), starts=nxt)
                    ok = bool(cb) and not esc
                    ctx.ob("P-ESC", k, ok, "caller keeps the handle and closes on every non-error return" if ok else
                           "caller drops the handle without undoing the increment", c.where)
    ctx.floor("P-ESC", tag + "call sites of openers", n_esc, 10 if has_gv else 5)

    # ---- P-ROOT
    from .. import callgraph
    zero_ctors = {f.bodies.get(e.body.root, e.body).id for e in evs if e.kind == "default" and e.sink == "child"}
    ctx.floor("P-ROOT", tag + "zero-depth constructors", len(zero_ctors), 4 if has_gv else 2)
    entry_ok = {"zvariant::serialized::data::Data::deserialize_for_signature", "zvariant::serialized::data::Data::deserialize_with_seed",
                "zvariant::ser::serialized_size", "zvariant::ser::to_writer_for_signature"}
    n_callers = 0
    for b in f.all_bodies():
        for c in mir.calls(b):
            if c.callee in zero_ctors:
                n_callers += 1
                k = fkey(f, b)
                ctx.ob("P-ROOT", tag + "caller:" + k, k in entry_ok,
                       "top-level entry point" if k in entry_ok else "unexpected caller of a zero-depth (De)Serializer constructor", c.where)
    ctx.floor("P-ROOT", tag + "callers of zero-depth constructors", n_callers, 4)
    cg = callgraph.get(f)
    rev = {}
    for a, outs in cg.edges.items():
        for o in outs:
            rev.setdefault(o, set()).add(a)
    can_reach = set()
    work = list(zero_ctors)
    while work:
        x = work.pop()
        if x in can_reach:
            continue
        can_reach.add(x)
        work.extend(rev.get(x, ()))
    n_serde = 0
    reent = []
    for b in f.all_bodies():
        t = b.d.get("impl_trait") or ""
        if b.id == b.root and (t.startswith("serde_core::") or t.startswith("serde::")):
            n_serde += 1
            if b.id in can_reach:
                reent.append(b)
    detail = "none of the %d workspace impls of serde traits can reach a zero-depth constructor" % n_serde
    where = "-"
    if reent:
        # show the shortest witness
        best = None
        for b in reent[:60]:
            for z in zero_ctors:
                pth = cg.path(b.id, z)
                if pth and (best is None or len(pth) < len(best)):
                    best = pth
        detail = "%d impls of serde traits can reach a zero-depth constructor (depth reset mid-stream), e.g. %s" % (
            len(reent), " -> ".join(re.sub(r"<[^<>]*>", "", x) for x in (best or [])))
        where = reent[0].where
    ctx.ob("P-ROOT", tag + "no-reentry", not reent, detail, where)
    ctx.floor("P-ROOT", tag + "serde trait impl methods examined", n_serde, 100)


def check_config(ctx, cfg):
    f = ctx.facts(cfg)
    tag = cfg + ":"
    features = f.info.get("crates", {}).get("zvariant", {}).get("features", [])
    counters, methods, check_id = check_counter_type(ctx, f, tag)
    want = 4 if "gvariant" in features else 3
    ctx.ob("D-LIMITS", tag + "counter-count", len(counters) == want,
           "ContainerDepths has counters %s in this configuration" % counters, "zvariant/src/container_depths.rs")
    check_limits(ctx, f, tag, counters, check_id)
    check_engines(ctx, f, tag, methods, features)


def run(ctx):
    ctx.explanation = ("Static rules over MIR of zvariant in K1 (D-Bus engine as zbus builds it) and K2 (D-Bus + GVariant engines, "
                       "option-as-array): limits 32/32/64 tested strictly over all counters on the single check path of every "
                       "increment; counters only changed by +/-1 methods; increment/decrement/restore sites equal the confirmed "
                       "table; openers always increment, closers (incl. all serde end() impls) always undo, iterators decrement "
                       "exactly when reporting the end, children inherit the parent's depth, depth is zero only in the four "
                       "top-level constructors.")
    ctx.not_decided = ("that foreign serde impls honour serde's contract (call end(), drain sequences to None); the limits on "
                       "the Signature parser (C06).")
    ctx.assumptions.append("the counter is threaded by value; no interior mutability on ContainerDepths (all fields are plain integers, decided by D-WHO)")
    for cfg in ("K1", "K2"):
        check_config(ctx, cfg)
