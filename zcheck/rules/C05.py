"""C05 — GVariant encoding follows the GVariant serialisation format (DESIGN §5.C05). Configuration K2.

Oracle: /verif/spec/gvariant_types.json (transcribed from the GVariant serialisation specification).

  T-GALIGN   table extracted from `Signature::alignment_gvariant` (one row per Signature variant; rows that
             delegate to `alignment_dbus` are resolved through that function's own table) equals the
             specification: constants for base types and variant, `child` for array/maybe,
             max(key, value) for dict, max over the fields with default 1 for structures
  T-FIXED    table extracted from `Signature::is_fixed_sized` equals the specification; structure =
             `all fields fixed` (closure applies is_fixed_sized to the field)
  T-FOS      the FramingOffsetSize tables are mutually consistent and little-endian: discriminant = width
             in bytes; `max` = 2^(8*width)-1; `bump_up` = next width (doubling) and None for the widest;
             `write_offset` calls write_u<8*width> with the LE constant; `read_last_offset_from_buffer`
             reads the last `width` bytes (index end-1 / slice end-width..end through read_u<8*width>, LE)
  T-FOS-SEL  `for_bare_container` returns the current width exactly when
             `len + n * width <= max(width)` (any equivalent comparison form), otherwise continues with
             `bump_up`, starting from the smallest width; `for_encoded_container(len)` is
             `for_bare_container(len, 0)`
  G-WIDTH    each fixed-size base-type method of the GVariant serializer (serialize_bool/i16/.../f64),
             followed into the D-Bus serializer it delegates to, writes exactly the number of bytes the
             specification gives for that type
  G-OFFSRC   a width that reaches `write_offset` is chosen by `for_bare_container(len, n)` (which accounts
             for the n offsets about to be appended), never by `for_encoded_container` (n = 0), which is
             only right for a complete encoded container, i.e. for readers
  G-MAYBE    writer: the `\\0` terminator of a maybe is written only on the not-fixed-size edge of the
             child's is_fixed_sized test; reader: the terminator is consumed / checked for 0 only on
             that same edge, and the child slice excludes the last byte only on that edge
  G-ARRAY    framing offsets exist iff the element is not fixed-size, on both sides: writer creates
             FramingOffsets with `(!fixed).then(..)`, reader calls `from_encoded_array` only on the
             not-fixed edge; both conditions are built only from is_fixed_sized of the same subjects
             (array child; dict key and value)
  G-VARIANT  writer: inside the variant-value arm the order is value, `\\0`, signature text; reader:
             the separator is searched from the end (reverse iteration, compare with 0), the signature
             starts one past it and the value ends at it
  G-STRUCT   writer: the offset of the last field is dropped (pop under `peek() == Some(struct_len)`, the
             same length that is passed to write_all); reader: a field's end offset is read only for a
             not-fixed-size field that is not the last one

  G-PAD      the four GVariant container openers (serialize_seq, serialize_maybe, StructSerializer::structure,
             StructSerializer::variant) call add_padding with the GVariant alignment of the current
             signature (the constant 8 for a variant) on every non-error path and before `bytes_written`
             is sampled as the container's start

Dropped / weakened (cannot be made exact here): the dict-entry conjunction structure (key && value) is
checked as "same subjects, same polarity", not as a boolean formula; per-element padding inside arrays and
dict entries is not covered by G-PAD; arithmetic at the 255/65535 thresholds beyond the comparison shape
of T-FOS-SEL is value-level.
"""
import json, os, re
from .. import mir

SIG = "zvariant_utils::signature::Signature"
FOS = "zvariant::framing_offset_size::FramingOffsetSize"
FOFF = "zvariant::framing_offsets::FramingOffsets"
GSER = "zvariant::gvariant::ser::"
GDE = "zvariant::gvariant::de::"
SPEC = os.path.join(os.path.dirname(os.path.dirname(os.path.dirname(os.path.abspath(__file__)))), "spec", "gvariant_types.json")

META = {
    "technique": "switch-table extraction by symbolic evaluation of match arms (R-TABLE) against a spec oracle, plus control-dependence / order rules for writer-reader symmetry",
    "level": ("Decides that the GVariant alignment and fixed-size tables, the framing-offset width tables and the width selection "
              "comparison equal the specification, that base types are written with the specified width, and that writer and "
              "reader agree on when terminators and framing offsets exist (maybe, array, variant, structure). Does not decide "
              "offset arithmetic values or per-element padding."),
}


# ------------------------------------------------------------------------------------------ symbolic arms
class Sym:
    """Symbolic evaluation of a straight-line arm: follows single normal successors from a block,
    keeps an environment local -> term. Terms are tuples:
      ('k', const-dict) ('arg', n) ('local', n, name) ('fld', base, name) ('as', base, Variant)
      ('idx', base, i) ('call', callee, [args]) ('bin', op, a, b) ('un', op, a) ('cast', a, ty)
      ('agg', adt, variant, [ops]) ('discr', a) ('closure', id)"""

    def __init__(self, body):
        self.body = body
        self.env = {}
        self.calls = []     # (callee, [arg terms], Call-ish dict) in path order
        self.path = []
        self.end = None

    def place(self, pl, depth=0):
        l, proj = pl
        if l in self.env:
            base = self.env[l]
        elif 0 < l <= self.body.d["argc"]:
            base = ("arg", l)
        else:
            base = None
            if depth < 12:
                d = mir.single_def(self.body, l)
                if d is not None and d[0] == "assign":
                    base = self.rvalue(d[4], depth + 1)
                elif d is not None and d[0] == "call":
                    base = ("call", d[1].callee, [self.operand(a, depth + 1) for a in d[1].args])
            if base is None:
                base = ("local", l, self.body.locals[l][1])
        for p in proj:
            if p == "*":
                continue
            if isinstance(p, list) and p[0] == ".":
                base = ("fld", base, str(p[2]))
            elif isinstance(p, list) and p[0] == "as":
                base = ("as", base, p[1])
            elif isinstance(p, list) and p[0] == "[]":
                base = ("idx", base, self.place([p[1], []], depth + 1))
            else:
                base = ("proj", base, str(p))
        return base

    def operand(self, op, depth=0):
        if op[0] == "k":
            return ("k", op[1])
        return self.place(op[1], depth)

    def rvalue(self, rv, depth=0):
        k = rv[0]
        if k == "use":
            return self.operand(rv[1], depth)
        if k in ("ref", "rawptr"):
            return self.place(rv[2], depth)
        if k == "cast":
            return ("cast", self.operand(rv[2], depth), rv[3] if len(rv) > 3 else "")
        if k == "bin":
            return ("bin", rv[1], self.operand(rv[2], depth), self.operand(rv[3], depth))
        if k == "un":
            return ("un", rv[1], self.operand(rv[2], depth))
        if k == "discr":
            return ("discr", self.place(rv[1], depth))
        if k == "agg":
            if rv[1] in ("closure", "coroutine"):
                return ("closure", rv[2])
            return ("agg", rv[2], rv[3], [self.operand(o, depth) for o in rv[4]])
        return ("rv", k)

    def run(self, start, limit=80):
        b = start
        seen = set()
        while b is not None and b not in seen and len(seen) < limit:
            seen.add(b)
            self.path.append(b)
            blk = self.body.blocks[b]
            for st in blk["s"]:
                if st[0] == "=" and not st[1][1]:
                    self.env[st[1][0]] = self.rvalue(st[2])
            t = blk["t"]
            k = t[0]
            if k == "goto":
                b = t[1]
            elif k == "call":
                c = t[1]
                callee = c.get("res") or c.get("fn") or ""
                args = [self.operand(a) for a in c["args"]]
                if not c["dest"][1]:
                    self.env[c["dest"][0]] = simp(("call", callee, args))
                self.calls.append((callee, args, c, b))
                b = c["t"]
            elif k == "assert":
                b = t[4]
            elif k == "drop":
                b = t[2]
            elif k == "ret":
                self.end = "ret"
                return self
            elif k == "switch":
                self.end = ("switch", b)
                return self
            else:
                self.end = k
                return self
        self.end = "loop"
        return self

    def ret(self):
        return self.env.get(mir.RET)


def simp(t):
    """look through Deref / AsRef / signature() style identity calls and casts"""
    while True:
        if t[0] == "call" and len(t[2]) == 1 and (t[1].endswith("::deref") or t[1].endswith("::as_ref") or t[1].endswith("::borrow")
                                                  or t[1] == "zvariant_utils::signature::child::Child::signature"):
            t = t[2][0]
            continue
        return t


def uncast(t):
    while t[0] == "cast":
        t = t[1]
    return t


def kval(t):
    t = uncast(t)
    if t[0] == "k":
        return t[1].get("v")
    return None


def fkey(f, body):
    """line-free, lifetime-free identity of the function enclosing `body`"""
    root = f.bodies.get(body.root, body)
    d = root.d
    if d.get("impl_adt"):
        if d.get("impl_trait"):
            return "<%s as %s>::%s" % (d["impl_adt"], d["impl_trait"], root.name)
        return "%s::%s" % (d["impl_adt"], root.name)
    return re.sub(r"::<[^>]*>", "", root.id)


def short(callee):
    prev = None
    while prev != callee:
        prev = callee
        callee = re.sub(r"(::)?<[^<>]*>", "", callee)
    return callee


def self_field(t):
    """('Variant', 'field') when the term is a field of the enum value in argument 1"""
    t = simp(t)
    if t[0] == "fld" and t[1][0] == "as" and t[1][1] == ("arg", 1):
        return (t[1][2], t[2])
    return None


def enum_arms(ctx, body, f, adt, what):
    """{variant name: target block} of the (unique) switch on the discriminant of an `adt` value rooted in argument 1"""
    cands = []
    for b, place, a, arms, other in mir.discr_switches(body, f):
        if a == adt and mir.origin(body, ["c", place])[0] == "place" and mir.origin(body, ["c", place])[1][0] == 1:
            cands.append((b, arms, other))
    sw = ctx.one(cands, "switch on %s in %s" % (adt.rsplit("::", 1)[-1], what))
    ctx.ob("ANCHOR", "exhaustive:" + what, mir.otherwise_is_unreachable(body, sw[0]),
           "match on %s in %s has no catch-all code" % (adt.rsplit("::", 1)[-1], what), body.where)
    return sw[0], sw[1]


# ------------------------------------------------------------------------------------------ tables
def check_alignment(ctx, f, spec):
    ag = ctx.one(f.find(name="alignment_gvariant", adt=SIG, trait=""), "Signature::alignment_gvariant")
    ad = ctx.one(f.find(name="alignment_dbus", adt=SIG, trait=""), "Signature::alignment_dbus")
    _, darms = enum_arms(ctx, ad, f, SIG, "alignment_dbus")
    dbus = {}
    for v, tgt in darms.items():
        s = Sym(ad).run(tgt)
        dbus[v] = kval(s.ret()) if s.end == "ret" and s.ret() is not None else None
    _, arms = enum_arms(ctx, ag, f, SIG, "alignment_gvariant")
    variants = [v["name"] for v in f.adts[SIG]["variants"]]
    n = 0
    for v in variants:
        if v in spec["not_a_gvariant_type"]:
            continue
        row = spec["types"].get(v)
        where = ag.where
        if row is None:
            ctx.ob("T-GALIGN", "row:" + v, False, "Signature::%s has no row in the GVariant oracle" % v, where)
            continue
        if v not in arms:
            ctx.ob("T-GALIGN", "row:" + v, False, "alignment_gvariant has no arm for %s" % v, where)
            continue
        n += 1
        s = Sym(ag).run(arms[v])
        r = s.ret()
        got = None
        if s.end == "ret" and r is not None:
            r = simp(r)
            if kval(r) is not None:
                got = kval(r)
            elif r[0] == "call" and r[1] == ad.id and len(r[2]) == 1 and simp(r[2][0]) == ("arg", 1):
                got = dbus.get(v)
            elif r[0] == "call" and r[1] == ag.id and len(r[2]) == 1 and self_field(r[2][0]) in ((v, "0"),):
                got = "child"
            elif r[0] == "call" and short(r[1]).endswith("cmp::max") and len(r[2]) == 2:
                subs = set()
                for a in r[2]:
                    a = simp(a)
                    if a[0] == "call" and a[1] == ag.id and len(a[2]) == 1 and self_field(a[2][0]):
                        subs.add(self_field(a[2][0]))
                if subs == {(v, "key"), (v, "value")}:
                    got = "max(key,value)"
            elif r[0] == "call" and short(r[1]).endswith("Option::unwrap_or") and len(r[2]) == 2:
                inner, dflt = simp(r[2][0]), kval(r[2][1])
                if inner[0] == "call" and short(inner[1]).endswith("Iterator::max") and len(inner[2]) == 1:
                    m = simp(inner[2][0])
                    if m[0] == "call" and short(m[1]).endswith("Iterator::map") and len(m[2]) == 2:
                        it, fn = simp(m[2][0]), m[2][1]
                        over = it[0] == "call" and it[1].endswith("::iter") and len(it[2]) == 1 and self_field(it[2][0]) == (v, "0")
                        per = fn[0] == "k" and fn[1].get("fn") == ag.id
                        if over and per:
                            got = "max(fields)|%s" % dflt
        ctx.ob("T-GALIGN", "align:" + v, got == row["align"],
               "alignment of %s (%s) is %s; specification: %s [%s]" % (v, row["code"], got, row["align"], row["cite"]), where)
    ctx.floor("T-GALIGN", "rows of alignment_gvariant", n, 17)


def check_fixed(ctx, f, spec):
    fx = ctx.one(f.find(name="is_fixed_sized", adt=SIG, trait=""), "Signature::is_fixed_sized")
    _, arms = enum_arms(ctx, fx, f, SIG, "is_fixed_sized")
    n = 0
    for vv in f.adts[SIG]["variants"]:
        v = vv["name"]
        if v in spec["not_a_gvariant_type"]:
            continue
        row = spec["types"].get(v)
        if row is None or v not in arms:
            ctx.ob("T-FIXED", "row:" + v, False, "no oracle row / no arm for %s" % v, fx.where)
            continue
        n += 1
        s = Sym(fx).run(arms[v])
        r = s.ret()
        got = None
        if s.end == "ret" and r is not None:
            r = simp(r)
            if isinstance(kval(r), bool) or kval(r) in (0, 1):
                got = bool(kval(r))
            elif r[0] == "call" and short(r[1]).endswith("Iterator::all") and len(r[2]) == 2:
                it, cl = simp(r[2][0]), r[2][1]
                over = it[0] == "call" and it[1].endswith("::iter") and len(it[2]) == 1 and self_field(it[2][0]) == (v, "0")
                per = False
                if cl[0] == "closure" and f.byid(cl[1]) is not None:
                    cb = f.byid(cl[1])
                    cs = Sym(cb).run(0)
                    cr = cs.ret()
                    if cs.end == "ret" and cr is not None:
                        cr = simp(cr)
                        # closure(env, item) -> is_fixed_sized(item)
                        per = cr[0] == "call" and cr[1] == fx.id and len(cr[2]) == 1 and simp(cr[2][0]) == ("arg", 2)
                if over and per:
                    got = "all(fields)"
        ctx.ob("T-FIXED", "fixed:" + v, got == row["fixed"],
               "%s (%s) fixed-size: %s; specification: %s [%s]" % (v, row["code"], got, row["fixed"], row["cite"]), fx.where)
    ctx.floor("T-FIXED", "rows of is_fixed_sized", n, 17)


def fos_method(ctx, f, name):
    return ctx.one(f.find(name=name, adt=FOS, trait=""), "FramingOffsetSize::" + name)


def check_fos(ctx, f, spec):
    adt = f.adts.get(FOS)
    ctx.need([adt] if adt else [], "enum FramingOffsetSize")
    width = {v["name"]: int(v["discr"]) for v in adt["variants"]}
    ws = sorted(width.values())
    ctx.ob("T-FOS", "widths", ws == [w for w in spec["framing_offsets"]["widths"] if w in ws] and ws[:3] == [1, 2, 4],
           "framing offset widths (discriminants) are %s" % ws, adt["file"])
    for v, w in width.items():
        m = re.search(r"(\d+)$", v)
        ctx.ob("T-FOS", "name:" + v, bool(m) and int(m.group(1)) == 8 * w, "variant %s has width %d bytes" % (v, w), adt["file"])
    # max
    mx = fos_method(ctx, f, "max")
    _, arms = enum_arms(ctx, mx, f, FOS, "FramingOffsetSize::max")
    for v, w in width.items():
        s = Sym(mx).run(arms[v]) if v in arms else None
        got = kval(s.ret()) if s and s.end == "ret" and s.ret() is not None else None
        ctx.ob("T-FOS", "max:" + v, got == 2 ** (8 * w) - 1, "max(%s) = %s, expected %d" % (v, got, 2 ** (8 * w) - 1), mx.where)
    # bump_up
    bu = fos_method(ctx, f, "bump_up")
    _, arms = enum_arms(ctx, bu, f, FOS, "FramingOffsetSize::bump_up")
    for v, w in width.items():
        s = Sym(bu).run(arms[v]) if v in arms else None
        r = s.ret() if s and s.end == "ret" else None
        got = "?"
        if r is not None and r[0] == "agg" and r[1] == "core::option::Option":
            if r[2] == "None":
                got = None
            elif r[2] == "Some" and r[3] and r[3][0][0] == "agg" and r[3][0][1] == FOS:
                got = width.get(r[3][0][2])
        want = 2 * w if 2 * w in ws else None
        ctx.ob("T-FOS", "bump_up:" + v, got == want, "bump_up(%s) -> width %s, expected %s" % (v, got, want), bu.where)
    # write_offset
    wo = fos_method(ctx, f, "write_offset")
    _, arms = enum_arms(ctx, wo, f, FOS, "FramingOffsetSize::write_offset")
    for v, w in width.items():
        s = Sym(wo).run(arms[v]) if v in arms else None
        wr = [c for c in (s.calls if s else []) if re.search(r"::write_[uif]\d+$", c[0])]
        ok = len(wr) == 1
        detail = "no single write_* call"
        if ok:
            callee, args, c, b = wr[0]
            bits = int(re.search(r"(\d+)$", callee).group(1))
            le = any(a[0] == "k" and str(a[1].get("cdef", "")).endswith("::LE") for a in args)
            val = [a for a in args if a[0] == "cast"]
            val_ok = bool(val) and uncast(val[-1]) == ("arg", 3) and ("u%d" % (8 * w)) in str(val[-1][2])
            ok = bits == 8 * w and le and val_ok and "WriteBytes" in (c.get("fn") or "") + (c.get("res") or "")
            detail = "%s writes the offset with %s (%s, value `offset as %s`)" % (v, callee.rsplit("::", 1)[-1], "LE" if le else "not LE", val and val[-1][2])
        ctx.ob("T-FOS", "write_offset:" + v, ok, detail, wo.where)
    # read_last_offset_from_buffer
    rd = fos_method(ctx, f, "read_last_offset_from_buffer")
    _, arms = enum_arms(ctx, rd, f, FOS, "FramingOffsetSize::read_last_offset_from_buffer")
    for v, w in width.items():
        s = Sym(rd).run(arms[v]) if v in arms else None
        r = uncast(s.ret()) if s and s.end == "ret" and s.ret() is not None else None
        ok, detail = False, "unrecognised read"

        def is_len(t):
            t = simp(t)
            return t[0] == "call" and short(t[1]).endswith("::len") and simp(t[2][0]) == ("arg", 2)

        def end_minus(t):
            t = simp(t)
            if t[0] == "fld" and t[2] == "0":
                t = t[1]
            if t[0] == "bin" and t[1] in ("Sub", "SubWithOverflow") and is_len(t[2]):
                return kval(t[3])
            return None
        if r is not None and r[0] == "idx" and r[1] == ("arg", 2):
            k = end_minus(r[2])
            ok = w == 1 and k == 1
            detail = "%s reads buffer[end - %s]" % (v, k)
        elif r is not None and r[0] == "call" and re.search(r"::read_u\d+$", r[1]):
            bits = int(re.search(r"(\d+)$", r[1]).group(1))
            le = r[2] and r[2][0][0] == "k" and str(r[2][0][1].get("cdef", "")).endswith("::LE")
            sl = simp(r[2][1]) if len(r[2]) > 1 else ("?",)
            lo = hi = None
            if sl[0] == "call" and sl[1].endswith("::index") and simp(sl[2][0]) == ("arg", 2) and sl[2][1][0] == "agg" \
                    and sl[2][1][1] == "core::ops::range::Range":
                lo, hi = end_minus(sl[2][1][3][0]), is_len(sl[2][1][3][1])
            ok = bits == 8 * w and le and lo == w and hi is True
            detail = "%s reads %s(LE, buffer[end - %s .. %s])" % (v, r[1].rsplit("::", 1)[-1], lo, "end" if hi else "?")
        ctx.ob("T-FOS", "read_last:" + v, ok, detail, rd.where)
    # ---- width selection
    fb = fos_method(ctx, f, "for_bare_container")
    fe = fos_method(ctx, f, "for_encoded_container")
    s = Sym(fe).run(0)
    r = s.ret()
    ok = s.end == "ret" and r is not None and r[0] == "call" and r[1] == fb.id and len(r[2]) == 2 and r[2][0] == ("arg", 1) and kval(r[2][1]) == 0
    ctx.ob("T-FOS-SEL", "for_encoded_container", ok, "for_encoded_container(len) = for_bare_container(len, 0)", fe.where)
    # the variable holding the candidate width: the local returned
    rets = [(b, i, rv) for b, i, rv, ln in mir.ret_values(fb)]
    cur = None
    for b, i, rv in rets:
        if rv[0] == "use" and mir.op_place(rv[1]) is not None:
            cur = mir.root_local(fb, rv[1])
    ctx.ob("T-FOS-SEL", "returns-candidate", cur is not None and len(rets) == 1, "for_bare_container returns its candidate width variable", fb.where)
    if cur is None:
        return
    # initial value = smallest width; updates only by bump_up(cur)
    init_ok = upd_ok = False
    for d in mir.defs_of(fb, cur):
        if d[0] == "assign" and d[4][0] == "agg" and d[4][2] == FOS:
            init_ok = width.get(d[4][3]) == min(ws)
        elif d[0] == "assign" and d[4][0] == "use":
            c, through = try_like(fb, d[4][1])
            if c is not None and c.is_("expect", "unwrap") and c.args:
                o = mir.origin(fb, c.args[0])
                c = o[1] if o[0] == "call" else None
            upd_ok = c is not None and c.callee == fos_method(ctx, f, "bump_up").id and mir.root_local(fb, c.args[0]) == cur
        elif d[0] == "call":
            c = d[1]
            if c.is_("expect", "unwrap") and c.args:
                o = mir.origin(fb, c.args[0])
                upd_ok = o[0] == "call" and o[1].callee == fos_method(ctx, f, "bump_up").id and mir.root_local(fb, o[1].args[0]) == cur
    ctx.ob("T-FOS-SEL", "starts-smallest", init_ok, "candidate starts at the smallest width", fb.where)
    ctx.ob("T-FOS-SEL", "advances-by-bump_up", upd_ok, "candidate advances only by bump_up(candidate)", fb.where)
    found = False
    for sb, op, l, r_, tt, ft, ln in mir.cmp_switches(fb):
        where = "%s:%d" % (fb.file, ln)
        ol, orr = mir.origin(fb, l), mir.origin(fb, r_)

        def is_max(o):
            return o[0] == "call" and o[1].callee == mx.id and mir.root_local(fb, o[1].args[0]) == cur

        def is_total(opnd):
            # len + n * (cur as usize)
            t = mir.origin(fb, opnd)
            add = None
            if t[0] == "place" and len(t[1][1]) == 1 and t[1][1][0][1] == 0:
                d = mir.single_def(fb, t[1][0])
                if d and d[0] == "assign" and d[4][0] == "bin" and d[4][1] in ("AddWithOverflow",):
                    add = d[4]
            elif t[0] == "rv" and t[1][0] == "bin" and t[1][1] == "Add":
                add = t[1]
            if add is None:
                return False
            parts = [add[2], add[3]]
            lenp = [p for p in parts if mir.root_local(fb, p) == 1]
            mulp = [p for p in parts if p not in lenp]
            if len(lenp) != 1 or len(mulp) != 1:
                return False
            t2 = mir.origin(fb, mulp[0])
            mul = None
            if t2[0] == "place" and len(t2[1][1]) == 1 and t2[1][1][0][1] == 0:
                d = mir.single_def(fb, t2[1][0])
                if d and d[0] == "assign" and d[4][0] == "bin" and d[4][1] == "MulWithOverflow":
                    mul = d[4]
            elif t2[0] == "rv" and t2[1][0] == "bin" and t2[1][1] == "Mul":
                mul = t2[1]
            if mul is None:
                return False
            ps = [mul[2], mul[3]]
            np_ = [p for p in ps if mir.root_local(fb, p) == 2]
            wp = [p for p in ps if p not in np_]
            if len(np_) != 1 or len(wp) != 1:
                return False
            ow = mir.origin(fb, wp[0])
            return ow[0] == "rv" and ow[1][0] == "discr" and mir.root_local(fb, ["c", ow[1][1]]) == cur
        if is_max(orr) and is_total(l):
            total_left = True
        elif is_max(ol) and is_total(r_):
            total_left = False
        else:
            continue
        found = True
        # accept-edge: taken iff total <= max
        o2 = op if total_left else {"Le": "Ge", "Ge": "Le", "Lt": "Gt", "Gt": "Lt"}.get(op, op)
        accept = {"Le": tt, "Gt": ft}.get(o2)
        ctx.ob("T-FOS-SEL", "fits-test", accept is not None,
               "width accepted iff len + n*width <= max(width)" if accept is not None else
               "width test is `total %s max` — off by one against `total <= max`" % o2, where)
        if accept is not None:
            reject = ft if accept == tt else tt
            ret_blocks = {b for b, i, rv in rets}
            acc_ok = not [x for x in returns_from(fb, accept, avoid=ret_blocks)]
            bump_blocks = {c.b for c in mir.calls(fb) if c.callee == bu.id}
            rej_ok = bool(bump_blocks) and not any(b in mir.reachable(fb, [reject], avoid=bump_blocks) for b in ret_blocks)
            ctx.ob("T-FOS-SEL", "accept-returns", acc_ok, "the fitting width is returned", where)
            ctx.ob("T-FOS-SEL", "reject-bumps", rej_ok, "a non-fitting width is bumped before any return", where)
    ctx.ob("T-FOS-SEL", "fits-test-present", found, "for_bare_container compares len + n*width with max(width)", fb.where)


def returns_from(body, start, avoid):
    r = mir.reachable(body, [start], avoid=avoid)
    return [b for b in mir.exits(body) if b in r]


def try_like(body, op):
    o = mir.origin(body, op)
    if o[0] == "call":
        return o[1], False
    return None, False


# ------------------------------------------------------------------------------------------ widths of base types
WIDTH_METHODS = {"serialize_bool": "Bool", "serialize_i16": "I16", "serialize_u16": "U16", "serialize_i32": "I32",
                 "serialize_u32": "U32", "serialize_i64": "I64", "serialize_u64": "U64", "serialize_f64": "F64",
                 "serialize_u8": "U8"}


def written_width(f, body, depth=0):
    """set of byte widths written by WriteBytes::write_* calls in `body`, following one delegation into
    another serde Serializer method of the same name"""
    out = set()
    for c in mir.calls(body):
        m = re.search(r"::write_[uif](\d+)$", c.declared) or re.search(r"::write_[uif](\d+)$", c.callee)
        if m and "WriteBytes" in (c.declared + c.callee):
            out.add(int(m.group(1)) // 8)
        elif depth < 2 and c.callee in f.bodies and c.callee != body.id and f.bodies[c.callee].name == body.name \
                and f.bodies[c.callee].d.get("impl_trait") == "serde_core::ser::Serializer":
            out |= written_width(f, f.bodies[c.callee], depth + 1)
    return out


def check_widths(ctx, f, spec):
    n = 0
    for name, v in sorted(WIDTH_METHODS.items()):
        ms = f.find(name=name, adt=GSER + "Serializer", trait="serde_core::ser::Serializer")
        m = ctx.one(ms, "gvariant Serializer::" + name)
        ws = written_width(f, m)
        n += 1
        want = spec["types"][v]["size"]
        ctx.ob("G-WIDTH", name, ws == {want},
               "GVariant %s writes %s byte(s); specification: %d [%s]" % (name, sorted(ws), want, spec["types"][v]["cite"]), m.where)
    ctx.floor("G-WIDTH", "base-type methods", n, 9)


# ------------------------------------------------------------------------------------------ symmetry rules
def fixed_sign(f, body, op, fx_id, subjects, depth=0):
    """+1 if the operand is a monotone function of is_fixed_sized results, -1 if of their negation,
    0 for the constant false/true filler of a short-circuit, None if anything else flows in.
    Collects the subjects (Variant, field) of the is_fixed_sized calls."""
    if depth > 10:
        return None
    if op[0] == "k":
        return 0 if isinstance(op[1].get("v"), (bool, int)) else None
    l, proj = op[1]
    defs = mir.defs_of(body, l)
    if not defs:
        return None
    signs = []
    for d in defs:
        if d[0] == "call":
            c = d[1]
            if proj:
                return None
            if c.callee == fx_id:
                t = Sym(body)
                subj = self_field_of_origin(body, c.args[0])
                subjects.add(subj)
                signs.append(1)
            else:
                return None
        else:
            pl, rv = d[3], d[4]
            if pl[1]:
                return None
            if proj:
                # tuple field of an aggregate
                if rv[0] == "agg" and rv[1] == "tuple" and len(proj) == 1 and isinstance(proj[0], list) and proj[0][0] == ".":
                    signs.append(fixed_sign(f, body, rv[4][proj[0][1]], fx_id, subjects, depth + 1))
                elif rv[0] == "use" and mir.op_place(rv[1]) is not None:
                    src = mir.op_place(rv[1])
                    signs.append(fixed_sign(f, body, ["c", [src[0], list(src[1]) + list(proj)]], fx_id, subjects, depth + 1))
                else:
                    return None
            elif rv[0] == "use" and mir.op_const(rv[1]) is not None and isinstance(mir.op_const(rv[1]).get("v"), (bool, int)):
                # constant filler of a short-circuit `a && b` / `a || b`: the other operand acts through control flow
                signs.append(filler_sign(f, body, d[1], bool(mir.op_const(rv[1])["v"]), fx_id, subjects, depth))
            elif rv[0] == "use":
                signs.append(fixed_sign(f, body, rv[1], fx_id, subjects, depth + 1))
            elif rv[0] == "un" and rv[1] == "Not":
                s = fixed_sign(f, body, rv[2], fx_id, subjects, depth + 1)
                signs.append(None if s is None else -s)
            else:
                return None
    if any(s is None for s in signs):
        return None
    nz = {s for s in signs if s != 0}
    if len(nz) > 1:
        return None
    return nz.pop() if nz else 0


def filler_sign(f, body, blk, const, fx_id, subjects, depth):
    """sign contributed by `x = const` in block `blk` when that block is selected by a bool switch on a
    fixed-size expression (short-circuit lowering); 0 when no such switch controls it"""
    best = None
    for sb, t in mir.switches(body):
        if t[2] != "bool":
            continue
        tt, ft = mir.bool_switch_edges(t)
        on_true = tt is not None and mir.block_dominates(body, tt, blk)
        on_false = ft is not None and mir.block_dominates(body, ft, blk)
        if on_true == on_false:
            continue
        if best is None or mir.block_dominates(body, best[0], sb):
            best = (sb, t, on_true)
    if best is None:
        return 0
    s = fixed_sign(f, body, best[1][1], fx_id, subjects, depth + 1)
    if s is None:
        return None
    if s == 0:
        return 0
    return s if const == best[2] else -s


def self_field_of_origin(body, op):
    """(Variant, field) when the operand is (a deref / signature() of) a field of a downcast enum place"""
    o = mir.origin(body, op)
    hops = 0
    while o[0] == "call" and hops < 4 and o[1].args and (o[1].is_("deref", "signature", "as_ref")):
        o = mir.origin(body, o[1].args[0])
        hops += 1
    if o[0] in ("place", "ref"):
        proj = [p for p in o[1][1] if p != "*"]
        for i, p in enumerate(proj):
            if isinstance(p, list) and p[0] == "as" and i + 1 < len(proj) and isinstance(proj[i + 1], list) and proj[i + 1][0] == ".":
                return (p[1], str(proj[i + 1][2]))
        l = o[1][0]
        return ("local", body.locals[l][1] or "_%d" % l)
    return ("?", o[0])


def is_nul_write(body, c):
    if not (c.is_("write_all") and "Write" in (c.declared + c.callee)) or len(c.args) < 2:
        return False
    o = mir.origin(body, c.args[1])
    hops = 0
    while o[0] == "call" and o[1].is_("index") and hops < 3:
        o = mir.origin(body, o[1].args[0])
        hops += 1
    if o[0] == "const":
        v = o[1].get("v")
        return isinstance(v, dict) and v.get("bytes") == [0]
    if o[0] == "place":
        d = mir.single_def(body, o[1][0])
        if d and d[0] == "assign" and d[4][0] == "use" and mir.op_const(d[4][1]) is not None:
            v = mir.op_const(d[4][1]).get("v")
            return isinstance(v, dict) and v.get("bytes") == [0]
    return False


def fixed_switches(f, body, fx_id):
    """switches whose operand is a signed function of is_fixed_sized: (block, sign, subjects, fixed_edge, notfixed_edge)"""
    out = []
    for b, t in mir.switches(body):
        if t[2] != "bool":
            continue
        subj = set()
        s = fixed_sign(f, body, t[1], fx_id, subj)
        if s in (1, -1) and subj:
            tt, ft = mir.bool_switch_edges(t)
            out.append((b, s, subj, tt if s > 0 else ft, ft if s > 0 else tt))
    return out


def check_maybe(ctx, f, fx_id):
    w = ctx.one(f.find(name="serialize_maybe", adt=GSER + "Serializer", trait=""), "gvariant Serializer::serialize_maybe")
    nul = [c for c in mir.calls(w) if is_nul_write(w, c)]
    ctx.floor("G-MAYBE", "terminator writes in serialize_maybe", len(nul), 1)
    sw = fixed_switches(f, w, fx_id)
    for c in nul:
        ok = any(nf is not None and mir.block_dominates(w, nf, c.b) and not (fx is not None and mir.block_dominates(w, fx, c.b))
                 and subj == {("Maybe", "0")} for b, s, subj, fx, nf in sw)
        ctx.ob("G-MAYBE", "writer:terminator-iff-not-fixed", ok,
               "maybe terminator is written only when the child is not fixed-size" if ok else
               "maybe terminator write is not confined to the not-fixed-size edge of child.is_fixed_sized()", c.where)
    # the value is serialized before the terminator
    sers = [c for c in mir.calls(w) if c.is_("serialize") and "serde_core::ser::Serialize" in (c.declared + c.callee)]
    for c in nul:
        ctx.ob("G-MAYBE", "writer:value-before-terminator", bool(sers) and all(mir.block_dominates(w, s.b, c.b) for s in sers),
               "terminator follows the child's serialization", c.where)
    r = ctx.one(f.find(name="deserialize_option", adt=GDE + "Deserializer", trait="serde_core::de::Deserializer"),
                "gvariant Deserializer::deserialize_option")
    sw = fixed_switches(f, r, fx_id)
    ctx.floor("G-MAYBE", "is_fixed_sized tests in deserialize_option", len(sw), 1)
    # zero check: comparison of a byte with 0 leading to an error
    zero = []
    for sb, op, l, r_, tt, ft, ln in mir.cmp_switches(r):
        if op in ("Eq", "Ne"):
            kl, kr = mir.resolve_const(r, l), mir.resolve_const(r, r_)
            for k, other in ((kl, r_), (kr, l)):
                if k is not None and k.get("v") == 0 and "u8" in str(k.get("ty")):
                    zero.append((sb, ln))
    ctx.floor("G-MAYBE", "terminator zero-checks in deserialize_option", len(zero), 1)
    for sb, ln in zero:
        ok = any(nf is not None and mir.block_dominates(r, nf, sb) and subj == {("Maybe", "0")} for b, s, subj, fx, nf in sw)
        ctx.ob("G-MAYBE", "reader:terminator-iff-not-fixed", ok,
               "terminator byte is expected only when the child is not fixed-size" if ok else
               "terminator check is not confined to the not-fixed-size edge", "%s:%d" % (r.file, ln))
    # child slice end: len on the fixed edge, len - 1 on the other
    subs = []
    for b, i, pl, rv, ln in mir.assignments(r):
        if rv[0] == "bin" and rv[1] in ("SubWithOverflow", "Sub"):
            k = mir.resolve_const(r, rv[3])
            o = mir.origin(r, rv[2])
            if k is not None and k.get("v") == 1 and o[0] == "call" and o[1].is_("len"):
                subs.append((b, ln))
    ctx.floor("G-MAYBE", "`len - 1` slice ends in deserialize_option", len(subs), 1)
    for b, ln in subs:
        ok = any(nf is not None and mir.block_dominates(r, nf, b) for bb, s, subj, fx, nf in sw)
        ctx.ob("G-MAYBE", "reader:slice-excludes-terminator-iff-not-fixed", ok,
               "child slice stops one byte early only when the child is not fixed-size", "%s:%d" % (r.file, ln))


def check_array(ctx, f, fx_id):
    w = ctx.one(f.find(name="serialize_seq", adt=GSER + "Serializer", trait="serde_core::ser::Serializer"), "gvariant serialize_seq")
    thens = [c for c in mir.calls(w) if c.is_("then") and "bool" in c.callee and len(c.args) == 2
             and (mir.op_const(c.args[1]) or {}).get("fn") == FOFF + "::new"]
    want = {("Array", "0"), ("Dict", "key"), ("Dict", "value")}
    w_ok = False
    if thens:
        subj = set()
        s = fixed_sign(f, w, thens[0].args[0], fx_id, subj)
        w_ok = s == -1 and subj == want
        ctx.ob("G-ARRAY", "writer:offsets-iff-not-fixed", w_ok,
               "writer keeps framing offsets iff NOT (%s fixed-size)" % sorted(subj) if s == -1 else
               "writer's offsets condition has polarity %s over %s" % (s, sorted(subj)), thens[0].where)
    else:
        # if/else form
        sw = fixed_switches(f, w, fx_id)
        news = [c for c in mir.calls(w) if c.callee == FOFF + "::new"]
        for c in news:
            ok = any(nf is not None and mir.block_dominates(w, nf, c.b) and subj == want for b, s, subj, fx, nf in sw)
            w_ok = w_ok or ok
            ctx.ob("G-ARRAY", "writer:offsets-iff-not-fixed", ok, "FramingOffsets::new only on the not-fixed edge", c.where)
        ctx.floor("G-ARRAY", "writer creates framing offsets conditionally", len(news), 1)
    r = ctx.one(f.find(name="new", adt=GDE + "ArrayDeserializer", trait=""), "gvariant ArrayDeserializer::new")
    sw = fixed_switches(f, r, fx_id)
    reads = [c for c in mir.calls(r) if c.callee == FOFF + "::from_encoded_array"]
    ctx.floor("G-ARRAY", "reader parses framing offsets", len(reads), 1)
    for c in reads:
        ok = any(nf is not None and mir.block_dominates(r, nf, c.b) and subj == want and
                 not (fx is not None and mir.block_dominates(r, fx, c.b)) for b, s, subj, fx, nf in sw)
        ctx.ob("G-ARRAY", "reader:offsets-iff-not-fixed", ok,
               "reader parses framing offsets iff NOT (array child / dict key and value fixed-size)" if ok else
               "reader's from_encoded_array is not confined to the not-fixed edge over %s" % [sorted(x[2]) for x in sw], c.where)
    # element end offsets are pushed by the writer wherever an element ends
    for nm, tr, adt in (("serialize_element", "serde_core::ser::SerializeSeq", "SeqSerializer"),
                        ("serialize_value", "serde_core::ser::SerializeMap", "MapSerializer")):
        b = ctx.one(f.find(name=nm, adt=GSER + adt, trait=tr), "gvariant %s::%s" % (adt, nm))
        pushes = [c for c in mir.calls(b) if c.callee == FOFF + "::push"]
        sers = [c for c in mir.calls(b) if c.is_("serialize") and "serde_core::ser::Serialize" in (c.declared + c.callee)]
        ok = bool(pushes) and bool(sers) and all(any(mir.block_dominates(b, s.b, p.b) for s in sers) for p in pushes)
        ctx.ob("G-ARRAY", "writer:push-after-element:" + nm, ok, "element end offset is recorded after the element is written", b.where)


def check_variant(ctx, f):
    w = ctx.one(f.find(name="serialize_struct_element", adt=GSER + "StructSerializer", trait=""), "gvariant serialize_struct_element")
    nul = [c for c in mir.calls(w) if is_nul_write(w, c)]
    fmt = [c for c in mir.calls(w) if c.is_("write_fmt")]
    sers = [c for c in mir.calls(w) if c.is_("serialize") and "serde_core::ser::Serialize" in (c.declared + c.callee)]
    ctx.floor("G-VARIANT", "nul separator writes in serialize_struct_element", len(nul), 1)
    ctx.floor("G-VARIANT", "signature text writes in serialize_struct_element", len(fmt), 1)
    for c in nul:
        ok = bool(sers) and all(mir.block_dominates(w, s.b, c.b) for s in sers) and bool(fmt) and all(mir.block_dominates(w, c.b, x.b) for x in fmt)
        ctx.ob("G-VARIANT", "writer:value-nul-signature", ok,
               "variant is written as value, nul byte, signature" if ok else "order value / nul / signature is broken", c.where)
    # the nul separator is written only inside a `Signature::Variant` arm
    varms = [arms["Variant"] for b_, place, adt, arms, other in mir.discr_switches(w, f, SIG) if "Variant" in arms]
    for c in nul:
        ok = any(mir.block_dominates(w, t, c.b) for t in varms)
        ctx.ob("G-VARIANT", "writer:nul-only-for-variant", ok,
               "nul separator is written only under a `Signature::Variant` match arm" if ok else
               "nul separator write is not confined to the Variant arm", c.where)
    r = ctx.one(f.find(name="new", adt=GDE + "ValueDeserializer", trait=""), "gvariant ValueDeserializer::new")
    revs = [c for c in mir.calls(r) if c.is_("rev")]
    ctx.ob("G-VARIANT", "reader:search-from-end", bool(revs), "separator is searched in reverse order", r.where)
    zero = []
    for sb, op, l, r_, tt, ft, ln in mir.cmp_switches(r):
        if op in ("Eq", "Ne"):
            for k in (mir.resolve_const(r, l), mir.resolve_const(r, r_)):
                if k is not None and k.get("v") == 0 and "u8" in str(k.get("ty")):
                    zero.append(sb)
    ctx.ob("G-VARIANT", "reader:separator-is-nul", bool(zero), "separator test compares a byte with 0", r.where)
    # sig_start = sep + 1 ; value_end = sep  (fields of the constructed ValueDeserializer)
    aggs = [(b, i, rv, ln) for b, i, pl, rv, ln in mir.assignments(r) if rv[0] == "agg" and rv[2] == GDE + "ValueDeserializer"]
    ctx.need(aggs, "construction of ValueDeserializer")
    for b, i, rv, ln in aggs:
        names = rv[5]
        s = Sym(r)
        # evaluate along the unique straight path ending at the aggregate: walk back from the Some(separator) arm
        info = {}
        for nm in ("sig_start", "sig_end", "value_start", "value_end"):
            if nm in names:
                info[nm] = tuple_field_term(r, rv[4][names.index(nm)])
        ss, ve = info.get("sig_start"), info.get("value_end")
        ok1 = ss is not None and ss[0] == "plus1"
        ok2 = ve is not None and ve[0] == "same" and ss is not None and ss[1] == ve[1]
        ctx.ob("G-VARIANT", "reader:signature-after-separator", ok1, "signature starts at separator + 1 (%s)" % (ss,), "%s:%d" % (r.file, ln))
        ctx.ob("G-VARIANT", "reader:value-ends-at-separator", ok2, "value ends at the separator (%s)" % (ve,), "%s:%d" % (r.file, ln))


def tuple_field_term(body, op):
    """describe an operand that is field k of a tuple local built in (possibly several) aggregates:
    ('plus1', base) / ('same', base) / ('other',) judged on the aggregates that carry a non-diverging value"""
    o = mir.origin(body, op)
    if o[0] != "place":
        return ("other",)
    l, proj = o[1]
    if len(proj) != 1 or not (isinstance(proj[0], list) and proj[0][0] == "."):
        return ("other",)
    idx = proj[0][1]
    res = []
    for d in mir.defs_of(body, l):
        if d[0] == "assign" and d[4][0] == "agg" and d[4][1] == "tuple" and idx < len(d[4][4]):
            e = d[4][4][idx]
            oe = mir.origin(body, e)
            if oe[0] == "place" and len(oe[1][1]) == 1 and oe[1][1][0][1] == 0:
                dd = mir.single_def(body, oe[1][0])
                if dd and dd[0] == "assign" and dd[4][0] == "bin" and dd[4][1] in ("AddWithOverflow", "Add"):
                    k = mir.resolve_const(body, dd[4][3])
                    if k is not None and k.get("v") == 1:
                        res.append(("plus1", mir.local_name(body, mir.root_local(body, dd[4][2]))))
                        continue
            if oe[0] == "place":
                res.append(("same", mir.local_name(body, oe[1][0]) or mir.place_str(body, oe[1])))
            else:
                res.append(("other",))
        else:
            res.append(("other",))
    if len(res) == 1:
        return res[0]
    return ("other",)


def check_struct(ctx, f, fx_id):
    w = ctx.one(f.find(name="end_struct", adt=GSER + "StructSerializer", trait=""), "gvariant end_struct")
    pops = [c for c in mir.calls(w) if c.callee == FOFF + "::pop"]
    wal = [c for c in mir.calls(w) if c.callee == FOFF + "::write_all"]
    ctx.floor("G-STRUCT", "pop of the last offset in end_struct", len(pops), 1)
    ctx.floor("G-STRUCT", "write_all in end_struct", len(wal), 1)
    for p in pops:
        ok = False
        for sb, c, tt, ft, neg in mir.call_bool_switches(w):
            if not (c.is_("eq") and len(c.args) == 2):
                continue
            sides = [mir.origin(w, a) for a in c.args]
            peek = [o for o in sides if o[0] == "ref" or o[0] == "place" or o[0] == "call"]
            has_peek = has_len = False
            for a in c.args:
                o = mir.origin(w, a)
                tgt = o
                if o[0] in ("ref", "place"):
                    d = mir.single_def(w, o[1][0])
                    if d and d[0] == "call" and d[1].callee == FOFF + "::peek":
                        has_peek = True
                    if d and d[0] == "assign" and d[4][0] == "agg" and d[4][2] == "core::option::Option" and d[4][3] == "Some":
                        ln_local = mir.root_local(w, d[4][4][0])
                        has_len = any(len(x.args) >= 3 and mir.root_local(w, x.args[2]) == ln_local for x in wal)
                elif o[0] == "call" and o[1].callee == FOFF + "::peek":
                    has_peek = True
            if has_peek and has_len and tt is not None and mir.block_dominates(w, tt, p.b) and not mir.block_dominates(w, ft, p.b):
                ok = True
        ctx.ob("G-STRUCT", "writer:last-offset-dropped", ok,
               "offset is popped only when the front offset equals the structure length passed to write_all" if ok else
               "pop is not guarded by `peek() == Some(struct_len)`", p.where)
        before = all(x.b in mir.reachable(w, [p.b]) for x in wal)
        not_after = all(p.b not in mir.reachable(w, [x.c["t"]] if x.c.get("t") is not None else []) for x in wal)
        ctx.ob("G-STRUCT", "writer:pop-before-write", before and not_after,
               "the pop happens before the offsets are written" if before and not_after else "pop does not precede write_all", p.where)
    r = ctx.one(f.find(name="next_element_seed", adt=GDE + "StructureDeserializer", trait="serde_core::de::SeqAccess"),
                "gvariant StructureDeserializer::next_element_seed")
    reads = [c for c in mir.calls(r) if c.is_("read_last_offset_from_buffer")]
    ctx.floor("G-STRUCT", "offset reads in StructureDeserializer::next_element_seed", len(reads), 1)
    sw = fixed_switches(f, r, fx_id)
    for c in reads:
        nf_ok = any(nf is not None and mir.block_dominates(r, nf, c.b) for b, s, subj, fx, nf in sw)
        last_ok = False
        for sb, op, l, r_, tt, ft, ln in mir.cmp_switches(r):
            if op not in ("Eq", "Ne"):
                continue
            ol, orr = mir.origin(r, l), mir.origin(r, r_)
            fl = [mir.place_fields(o[1]) for o in (ol, orr) if o[0] == "place" and o[1][0] == 1]
            if len(fl) == 2 and fl[0] != fl[1] and all(len(x) == 1 for x in fl):
                # the test must look at the index after it was advanced past the current field (the early
                # `exhausted` test at the top of the function does not count)
                names = {fl[0][0], fl[1][0]}
                adv = [(b_, i_) for b_, i_, pl, rv, ln_ in mir.assignments(r)
                       if pl[0] == 1 and len(mir.place_fields(pl)) == 1 and mir.place_fields(pl)[0] in names]
                if not any(mir.dominates(r, a, (sb, 0)) for a in adv):
                    continue
                ne_edge = ft if op == "Eq" else tt
                if ne_edge is not None and mir.block_dominates(r, ne_edge, c.b):
                    last_ok = True
        ctx.ob("G-STRUCT", "reader:offset-only-if-not-fixed", nf_ok, "a field's end offset is read only for a not-fixed-size field", c.where)
        ctx.ob("G-STRUCT", "reader:no-offset-for-last-field", last_ok, "no end offset is read for the last field", c.where)


def check_offset_source(ctx, f):
    fb = fos_method(ctx, f, "for_bare_container")
    wo = fos_method(ctx, f, "write_offset")
    n = 0
    for b in f.all_bodies("zvariant"):
        for c in mir.calls(b):
            if c.callee != wo.id:
                continue
            n += 1
            o = mir.origin(b, c.args[0])
            src = o[1].callee if o[0] == "call" else o[0]
            ok = o[0] == "call" and o[1].callee == fb.id
            ctx.ob("G-OFFSRC", "write_offset-width:" + fkey(f, b), ok,
                   "width of the written offset is chosen by for_bare_container(len, n)" if ok else
                   "width of the written offset comes from %s: the offsets about to be appended are not counted in the container length" % short(str(src)),
                   c.where)
    ctx.floor("G-OFFSRC", "write_offset call sites", n, 2)


def check_padding(ctx, f, spec):
    """G-PAD: every GVariant container opener pads to the container's GVariant alignment before it
    records its start offset / writes anything, on every non-error path."""
    sites = [
        ("serialize_seq", f.find(name="serialize_seq", adt=GSER + "Serializer", trait="serde_core::ser::Serializer"), "sig"),
        ("serialize_maybe", f.find(name="serialize_maybe", adt=GSER + "Serializer", trait=""), "sig"),
        ("StructSerializer::structure", f.find(name="structure", adt=GSER + "StructSerializer", trait=""), "sig"),
        ("StructSerializer::variant", f.find(name="variant", adt=GSER + "StructSerializer", trait=""), "variant"),
    ]
    for name, lst, kind in sites:
        b = ctx.one(lst, "gvariant " + name)
        pads = [c for c in mir.calls(b) if c.is_("add_padding") and "SerializerCommon" in c.callee and len(c.args) == 2]
        good = []
        for c in pads:
            k = mir.resolve_const(b, c.args[1])
            if kind == "variant":
                if k is not None and k.get("v") == spec["types"]["Variant"]["align"]:
                    good.append(c)
                continue
            o = mir.origin(b, c.args[1])
            if o[0] == "call" and o[1].callee == SIG + "::alignment" and len(o[1].args) == 2:
                fo = mir.origin(b, o[1].args[1])
                gv = (fo[0] == "rv" and fo[1][0] == "agg" and fo[1][2].endswith("::Format") and fo[1][3] == "GVariant") or \
                     (fo[0] == "call" and fo[1].is_("format") and "Context" in fo[1].callee)
                so = mir.origin(b, o[1].args[0])
                cur_sig = so[0] in ("place", "ref") and "signature" in mir.place_fields(so[1])
                if gv and cur_sig:
                    good.append(c)
        ctx.ob("G-PAD", name + ":pads-to-gvariant-alignment", bool(good),
               "pads with the GVariant alignment of the container's signature" if good else
               "no add_padding(alignment of the current signature in GVariant format) found", b.where)
        if not good:
            continue
        gb = {c.b for c in good}
        esc = returns_from(b, 0, avoid=gb | err_blocks(b))
        ctx.ob("G-PAD", name + ":on-every-path", not esc, "every non-error return passes the padding" if not esc else
               "a non-error return skips the padding", good[0].where)
        reads = [(bb, i) for bb, i, pl, rv, ln in mir.assignments(b)
                 for op in mir.rvalue_operands(rv) if mir.op_place(op) and "bytes_written" in mir.place_fields(mir.op_place(op))]
        ok = all(any(mir.block_dominates(b, g, bb) and g != bb for g in gb) for bb, i in reads)
        ctx.ob("G-PAD", name + ":before-start-offset", ok, "bytes_written is sampled only after the padding" if ok else
               "the start offset is sampled before the padding", good[0].where)


def err_blocks(body):
    out = set()
    for c in mir.calls(body):
        if c.dest[0] == mir.RET and c.is_("from_residual"):
            out.add(c.b)
    for b, i, pl, rv, ln in mir.assignments(body):
        if pl[0] == mir.RET and not pl[1] and rv[0] == "agg" and rv[1] == "adt" and rv[2] == "core::result::Result" and rv[3] == "Err":
            out.add(b)
    return out


def run(ctx):
    ctx.explanation = ("R-TABLE by symbolic evaluation of each match arm of alignment_gvariant / is_fixed_sized / the four "
                       "FramingOffsetSize tables against /verif/spec/gvariant_types.json; comparison shape of the width selection; "
                       "written width of each base type; control dependence of terminators and framing offsets on is_fixed_sized on "
                       "both writer and reader (maybe, array/dict, variant, structure); source of every written offset width. K2 only "
                       "(the GVariant code is not compiled in K1).")
    ctx.not_decided = "offset arithmetic values at the 255/65535 thresholds beyond the comparison shape; per-element padding inside arrays and dict entries."
    ctx.trusted.append("/verif/spec/gvariant_types.json (transcription of the GVariant specification)")
    spec = json.load(open(SPEC))
    f = ctx.facts("K2")
    fx = ctx.one(f.find(name="is_fixed_sized", adt=SIG, trait=""), "Signature::is_fixed_sized")
    check_alignment(ctx, f, spec)
    check_fixed(ctx, f, spec)
    check_fos(ctx, f, spec)
    check_widths(ctx, f, spec)
    check_offset_source(ctx, f)
    check_maybe(ctx, f, fx.id)
    check_array(ctx, f, fx.id)
    check_variant(ctx, f)
    check_struct(ctx, f, fx.id)
    check_padding(ctx, f, spec)
